//! C13 — every sink encodes every event faithfully and never panics the caller.
//!
//! `check_event` drives ONE generated event through the real rolling-file writer, four real
//! `emit_otlp` instances (all signals × protobuf/JSON, logs-only × protobuf/JSON) and the real terminal
//! writer (child process) and judges what came out against the harness' own reference model of the
//! event (`event.rs`). The oracle is derived from the property text and DESIGN §C13; everything the
//! text leaves open is counted as don't-care.

pub mod event;
pub mod fuzz;
pub mod http;
pub mod jsonp;
pub mod node;
pub mod otlp;
pub mod sinks;

use emit::Emitter;
use event::{Cap, Ev, Ext, Num, TplPart, PV, RV};
use jsonp::JV;
use node::Node;
use otlp::{Attrs, Decoded, LogRec, MData, MetricRec, Point, SpanRec, AV};
use vcore::{vassert, Cx, Fail, Res};

pub const RESERVED: [&str; 5] = ["mdl", "tpl", "msg", "ts", "ts_start"];
pub const WELL_KNOWN: [&str; 13] = [
    "evt_kind", "lvl", "err", "span_name", "trace_id", "span_id", "span_parent", "metric_name", "metric_agg",
    "metric_value", "metric_unit", "exception.message", "exception.stacktrace",
];

/// Signatures of the defects this check is expected to re-find on the pinned tree.
pub const SIG_D10_SCALAR: &str = "otlp/panic-on-non-string-map-key/scalar";
pub const SIG_D10_COMPOSITE: &str = "otlp/panic-on-non-string-map-key/composite";
pub const SIG_D11_DUP: &str = "otlp-metrics/duplicate-attribute-key";
pub const SIG_D11_UNIT: &str = "otlp-metrics/unit-not-first-value";
/// (historical: before fix e29f7b7 a composite key produced a truncated line; now the event is refused)
pub const SIG_FILE_COMPOSITE: &str = "file/invalid-json-line/composite-map-key";
pub const SIG_FILE_TAGGED: &str = "file/invalid-json-line/tagged-map-key";
pub const SIG_NULL_DROP: &str = "otlp-proto/array-drops-null-element";
pub const SIG_POINT_MEMBER: &str = "otlp-metrics-json/non-standard-point-value-member";

// ---------------------------------------------------------------------------------------------
// small helpers

fn brief(s: impl std::fmt::Debug) -> String {
    let s = format!("{s:?}");
    if s.len() > 600 {
        let mut e = 600;
        while !s.is_char_boundary(e) {
            e -= 1;
        }
        format!("{}…", &s[..e])
    } else {
        s
    }
}

/// Strict RFC 3339 (UTC, `Z`) → (unix seconds, nanoseconds); independent of emit's parser.
pub fn parse_rfc3339(s: &str) -> Option<(u64, u32)> {
    let b = s.as_bytes();
    if b.len() < 20 || *b.last()? != b'Z' {
        return None;
    }
    let num = |r: std::ops::Range<usize>| -> Option<u64> {
        let t = s.get(r)?;
        if t.is_empty() || !t.bytes().all(|c| c.is_ascii_digit()) {
            return None;
        }
        t.parse().ok()
    };
    if b[4] != b'-' || b[7] != b'-' || b[10] != b'T' || b[13] != b':' || b[16] != b':' {
        return None;
    }
    let (y, mo, d, h, mi, sec) = (num(0..4)?, num(5..7)?, num(8..10)?, num(11..13)?, num(14..16)?, num(17..19)?);
    let nanos = if b[19] == b'.' {
        let frac = s.get(20..b.len() - 1)?;
        if frac.is_empty() || frac.len() > 9 || !frac.bytes().all(|c| c.is_ascii_digit()) {
            return None;
        }
        let mut n: u32 = frac.parse().ok()?;
        for _ in frac.len()..9 {
            n *= 10;
        }
        n
    } else if b.len() == 20 {
        0
    } else {
        return None;
    };
    if !(1..=12).contains(&mo) || !(1..=31).contains(&d) || h > 23 || mi > 59 || sec > 59 || y < 1970 {
        return None;
    }
    // days from civil (Howard Hinnant)
    let (y2, m2) = (if mo <= 2 { y as i64 - 1 } else { y as i64 }, mo as i64);
    let era = y2.div_euclid(400);
    let yoe = y2 - era * 400;
    let doy = (153 * (if m2 > 2 { m2 - 3 } else { m2 + 9 }) + 2) / 5 + d as i64 - 1;
    let doe = yoe * 365 + yoe / 4 - yoe / 100 + doy;
    let days = era * 146097 + doe - 719468;
    if days < 0 {
        return None;
    }
    Some((days as u64 * 86400 + h * 3600 + mi * 60 + sec, nanos))
}

#[derive(Debug)]
pub struct Mismatch {
    pub null_dropped: bool,
    pub detail: String,
}

fn mm(path: &str, what: impl Into<String>) -> Mismatch {
    Mismatch { null_dropped: false, detail: format!("at {path}: {}", what.into()) }
}

fn f64_same(expected: u64, actual: u64) -> bool {
    let (e, a) = (f64::from_bits(expected), f64::from_bits(actual));
    if e.is_nan() {
        a.is_nan()
    } else {
        expected == actual
    }
}

/// Reference value vs a JSON value of the file writer.
pub fn match_json(rv: &RV, jv: &JV, path: &str) -> Result<(), Mismatch> {
    match (rv, jv) {
        (RV::Any, _) => Ok(()),
        (RV::Null, JV::Null) => Ok(()),
        (RV::Bool(a), JV::Bool(b)) if a == b => Ok(()),
        (RV::Int(dec), JV::Num(tok)) if dec == tok => Ok(()),
        (RV::F64(bits), j) => {
            let f = f64::from_bits(*bits);
            match j {
                // non-finite: representation is don't-care (null / the proto3 strings)
                JV::Null if !f.is_finite() => Ok(()),
                JV::Str(s) if !f.is_finite() && matches!(s.as_str(), "NaN" | "Infinity" | "-Infinity") => Ok(()),
                JV::Num(tok) if f.is_finite() && tok.parse::<f64>().map(|p| p.to_bits() == *bits).unwrap_or(false) => Ok(()),
                _ => Err(mm(path, format!("expected f64 {f:?}, got {}", j.brief()))),
            }
        }
        (RV::F32(bits), j) => {
            let f = f32::from_bits(*bits);
            match j {
                JV::Null if !f.is_finite() => Ok(()),
                JV::Str(s) if !f.is_finite() && matches!(s.as_str(), "NaN" | "Infinity" | "-Infinity") => Ok(()),
                JV::Num(tok)
                    if f.is_finite()
                        && (tok.parse::<f32>().map(|p| p.to_bits() == *bits).unwrap_or(false)
                            || tok.parse::<f64>().map(|p| p.to_bits() == (f as f64).to_bits()).unwrap_or(false)) =>
                {
                    Ok(())
                }
                _ => Err(mm(path, format!("expected f32 {f:?}, got {}", j.brief()))),
            }
        }
        (RV::Str(a), JV::Str(b)) if a == b => Ok(()),
        (RV::Bytes(a), JV::Arr(items)) => {
            let ok = a.len() == items.len()
                && a.iter().zip(items).all(|(x, y)| matches!(y, JV::Num(t) if t.parse::<u8>().ok() == Some(*x)));
            if ok {
                Ok(())
            } else {
                Err(mm(path, format!("expected bytes {a:?}, got {}", jv.brief())))
            }
        }
        // base64 text would denote the same bytes
        (RV::Bytes(_), JV::Str(_)) => Ok(()),
        (RV::Seq(a), JV::Arr(b)) => {
            if a.len() != b.len() {
                return Err(mm(path, format!("expected {} elements, got {}", a.len(), b.len())));
            }
            for (i, (x, y)) in a.iter().zip(b).enumerate() {
                match_json(x, y, &format!("{path}[{i}]"))?;
            }
            Ok(())
        }
        (RV::Map(a), JV::Obj(b)) => {
            if a.len() != b.len() {
                return Err(mm(path, format!("expected {} members, got {}: {}", a.len(), b.len(), jv.brief())));
            }
            for ((k1, x), (k2, y)) in a.iter().zip(b) {
                if k1 != k2 {
                    return Err(mm(path, format!("expected member {k1:?}, got {k2:?}")));
                }
                match_json(x, y, &format!("{path}.{k1}"))?;
            }
            Ok(())
        }
        (r, j) => Err(mm(path, format!("expected {}, got {}", brief(r), j.brief()))),
    }
}

/// Reference value vs an OTLP AnyValue (protobuf or JSON reading).
pub fn match_av(rv: &RV, av: &AV, is_json: bool, path: &str) -> Result<(), Mismatch> {
    match (rv, av) {
        (RV::Any, _) => Ok(()),
        (RV::Null, AV::Absent) => Ok(()),
        (RV::Bool(a), AV::Bool(b)) if a == b => Ok(()),
        (RV::Int(dec), a) => match (dec.parse::<i64>(), a) {
            (Ok(v), AV::Int(x)) if v == *x => Ok(()),
            // OTLP has no integers beyond i64: decimal text
            (Err(_), AV::Str(s)) if s == dec => Ok(()),
            _ => Err(mm(path, format!("expected integer {dec}, got {}", brief(a)))),
        },
        (RV::F64(bits), a) => match a {
            AV::Double(b) if f64_same(*bits, *b) => Ok(()),
            AV::DoubleNull if is_json && !f64::from_bits(*bits).is_finite() => Ok(()),
            _ => Err(mm(path, format!("expected double {:?}, got {}", f64::from_bits(*bits), brief(a)))),
        },
        (RV::F32(bits), a) => {
            let wide = (f32::from_bits(*bits) as f64).to_bits();
            match a {
                AV::Double(b) if f64_same(wide, *b) => Ok(()),
                AV::DoubleNull if is_json && !f32::from_bits(*bits).is_finite() => Ok(()),
                _ => Err(mm(path, format!("expected double {:?}, got {}", f32::from_bits(*bits), brief(a)))),
            }
        }
        (RV::Str(a), AV::Str(b)) if a == b => Ok(()),
        (RV::Bytes(a), AV::Bytes(b)) if a == b => Ok(()),
        (RV::Seq(a), AV::Array(b)) => {
            if a.len() != b.len() {
                let mut m = mm(path, format!("expected {} elements, got {}: {}", a.len(), b.len(), brief(b)));
                // does `b` equal `a` with some null (or possibly-null exotic) elements left out?
                if !is_json && b.len() < a.len() {
                    fn align(a: &[RV], b: &[AV], path: &str) -> bool {
                        let Some((x, rest)) = a.split_first() else { return b.is_empty() };
                        if let Some((y, brest)) = b.split_first() {
                            if !matches!(x, RV::Null) && match_av(x, y, false, path).map_or_else(|m| m.null_dropped, |_| true) && align(rest, brest, path) {
                                return true;
                            }
                        }
                        matches!(x, RV::Null | RV::Any) && align(rest, b, path)
                    }
                    m.null_dropped = align(a, b, path);
                }
                return Err(m);
            }
            for (i, (x, y)) in a.iter().zip(b).enumerate() {
                match_av(x, y, is_json, &format!("{path}[{i}]"))?;
            }
            Ok(())
        }
        (RV::Map(a), AV::Kv(b)) => {
            if a.len() != b.len() {
                return Err(mm(path, format!("expected {} entries, got {}: {}", a.len(), b.len(), brief(b))));
            }
            for ((k1, x), (k2, y)) in a.iter().zip(b) {
                if k1 != k2 {
                    return Err(mm(path, format!("expected key {k1:?}, got {k2:?}")));
                }
                match_av(x, y, is_json, &format!("{path}.{k1}"))?;
            }
            Ok(())
        }
        (r, a) => Err(mm(path, format!("expected {}, got {}", brief(r), brief(a)))),
    }
}

fn node_has_null_in_seq(n: &Node) -> bool {
    // elements that reach the OTLP AnyValue stream as a bare `null` (tags and options are transparent there)
    fn nullish(x: &Node) -> bool {
        match x {
            Node::Null | Node::Unit | Node::None => true,
            Node::Some(v) => nullish(v),
            Node::Variant { body: node::VBody::Newtype(v), .. } => nullish(v),
            _ => false,
        }
    }
    match n {
        Node::Seq(items) | Node::Tuple(items) => items.iter().any(|i| nullish(i) || node_has_null_in_seq(i)),
        Node::Some(v) => node_has_null_in_seq(v),
        Node::Map(e) => e.iter().any(|(k, v)| node_has_null_in_seq(k) || node_has_null_in_seq(v)),
        Node::Struct { fields, .. } => fields.iter().any(node_has_null_in_seq),
        Node::Variant { body, .. } => match body {
            node::VBody::Unit => false,
            node::VBody::Newtype(v) => node_has_null_in_seq(v),
            node::VBody::Tuple(items) => items.iter().any(|i| nullish(i) || node_has_null_in_seq(i)),
            node::VBody::Struct { fields, .. } => fields.iter().any(node_has_null_in_seq),
        },
        _ => false,
    }
}

fn structured_nodes(ev: &Ev) -> impl Iterator<Item = &Node> {
    ev.props.iter().filter_map(|p| match &p.val {
        PV::Node { node, cap: Cap::Sval | Cap::Serde | Cap::Prim } => Some(node),
        _ => None,
    })
}

/// Shape of the values a sink actually streams: the FIRST occurrence of every key (file writer and OTLP
/// encoders enumerate `props.dedup()`; shadowed duplicates are never written). Failure signatures are
/// chosen from this, never from values that cannot have influenced the output.
pub fn written_shape(ev: &Ev) -> node::Shape {
    let mut s = node::Shape::default();
    for (_, pv) in ev.dedup() {
        if let PV::Node { node, cap: Cap::Sval | Cap::Serde | Cap::Prim } = pv {
            s.merge(node::shape(node));
        }
    }
    s
}

pub fn event_shape(ev: &Ev) -> node::Shape {
    let mut s = node::Shape::default();
    for n in structured_nodes(ev) {
        s.merge(node::shape(n));
    }
    s
}

fn strip_null_elems(av: &AV) -> AV {
    match av {
        AV::Array(items) => AV::Array(items.iter().filter(|i| !matches!(i, AV::Absent)).map(strip_null_elems).collect()),
        AV::Kv(items) => AV::Kv(items.iter().map(|(k, v)| (k.clone(), strip_null_elems(v))).collect()),
        other => other.clone(),
    }
}

fn strip_decoded(d: &Decoded) -> Decoded {
    let fix = |a: &Attrs| -> Attrs { a.iter().map(|(k, v)| (k.clone(), strip_null_elems(v))).collect() };
    let mut d = d.clone();
    for l in &mut d.logs {
        l.attrs = fix(&l.attrs);
    }
    for s in &mut d.spans {
        s.attrs = fix(&s.attrs);
        for e in &mut s.events {
            e.attrs = fix(&e.attrs);
        }
    }
    for m in &mut d.metrics {
        let pts = match &mut m.data {
            MData::Gauge(p) => p,
            MData::Sum { points, .. } => points,
            _ => continue,
        };
        for p in pts {
            p.attrs = fix(&p.attrs);
        }
    }
    d
}

// ---------------------------------------------------------------------------------------------
// classification

pub fn intended_kind(ev: &Ev) -> &'static str {
    match ev.first("evt_kind").and_then(event::plain_text).as_deref() {
        Some("span") => "span",
        Some("metric") => "metric",
        _ => "log",
    }
}

pub fn classify(ev: &Ev, cx: &mut Cx) -> node::Shape {
    let s = event_shape(ev);
    let dup = ev.has_duplicate_keys();
    cx.class(&format!("kind-{}", intended_kind(ev)));
    cx.class_if(dup, "duplicate-key");
    cx.class_if(s.depth >= 2, "value-depth>=2");
    cx.class_if(s.non_string_key(), "non-string-map-key");
    cx.class_if(s.scalar_key, "scalar-map-key");
    cx.class_if(s.composite_key, "composite-map-key");
    cx.class_if(s.wide_int || s.non_finite, "128-bit-or-non-finite");
    cx.class_if(s.wide_int, "wide-int");
    cx.class_if(s.non_finite, "non-finite-float");
    cx.class_if(s.exotic, "enum-variant");
    cx.class_if(s.bytes, "bytes");
    cx.class_if(ev.props.iter().any(|p| matches!(p.val, PV::Error(ref c) if c.len() > 1)), "error-chain");
    cx.class_if(
        ev.props.iter().any(|p| matches!(p.val, PV::Error(ref c) if c.len() == 3 && crate::event::ChainErr::new(c).is_inline())),
        "error-chain:three-links-holding-their-source-inline",
    );
    cx.class_if(ev.props.iter().any(|p| matches!(p.val, PV::Node { cap: Cap::Serde, .. })), "capture-serde");
    cx.class_if(ev.props.iter().any(|p| matches!(p.val, PV::Node { cap: Cap::Sval, .. })), "capture-sval");
    cx.class_if(ev.props.iter().any(|p| matches!(p.val, PV::Node { cap: Cap::Display | Cap::Debug, .. })), "capture-text");
    cx.class_if(matches!(ev.extent, Ext::Range(..)), "extent-range");
    cx.class_if(matches!(&ev.extent, Ext::Range(a, b) if a.nanos() == b.nanos()), "extent-empty-range");
    cx.class_if(matches!(&ev.extent, Ext::Range(a, b) if a.nanos() > b.nanos()), "extent-inverted-range");
    cx.class_if(matches!(ev.extent, Ext::None), "extent-none");
    // physical layout of the property list
    let plan = ev.plan();
    if ev.layout != event::Layout::default() {
        // collection index of every property: own groups, then ONE ambient collection (the frame is a
        // single flattened map however many pushes built it)
        let mut coll = vec![usize::MAX; ev.props.len()];
        let mut unique = Vec::new();
        for (gi, (r, kind)) in plan.own.iter().enumerate() {
            for i in r.clone() {
                coll[i] = gi;
            }
            unique.push(*kind != event::GKind::Slice);
        }
        if plan.runtime {
            for r in &plan.frames {
                for i in r.clone() {
                    coll[i] = plan.own.len();
                }
            }
            unique.push(true);
        }
        let straddling: Vec<&str> = ev
            .props
            .iter()
            .enumerate()
            .filter(|(i, p)| ev.props[..*i].iter().enumerate().any(|(j, q)| q.key == p.key && coll[j] != coll[*i]))
            .map(|(_, p)| p.key.as_str())
            .collect();
        let all_unique = unique.len() >= 2 && unique.iter().all(|u| *u);
        cx.class_if(plan.own.len() >= 2, "layout-and-props");
        cx.class_if(!plan.frames.is_empty(), "layout-runtime-frame");
        cx.class_if(plan.runtime, "layout-via-runtime");
        if all_unique && !straddling.is_empty() {
            cx.class("duplicate-straddles-unique-collections");
            cx.class_if(
                straddling.iter().any(|k| matches!(*k, "lvl" | "trace_id" | "span_id" | "span_parent" | "metric_unit")),
                "straddle-well-known-key",
            );
            cx.class_if(
                ev.props.iter().enumerate().any(|(i, p)| coll[i] == plan.own.len() && plan.runtime && ev.props[..i].iter().enumerate().any(|(j, q)| q.key == p.key && coll[j] < plan.own.len())),
                "straddle-own-shadows-ambient",
            );
        }
    }
    cx.nontrivial(s.depth >= 2 || dup || s.non_string_key() || s.wide_int || s.non_finite);
    s
}

// ---------------------------------------------------------------------------------------------
// panics

thread_local! {
    static PANIC_INFO: std::cell::RefCell<Option<(String, String)>> = const { std::cell::RefCell::new(None) };
    static IN_CATCH: std::cell::Cell<bool> = const { std::cell::Cell::new(false) };
}
/// set by entry points that run without `vcore::run` (fuzz target, `show`): caught panics stay silent
pub static QUIET_CAUGHT_PANICS: std::sync::atomic::AtomicBool = std::sync::atomic::AtomicBool::new(false);

fn ensure_hook() {
    static ONCE: std::sync::Once = std::sync::Once::new();
    ONCE.call_once(|| {
        let prev = std::panic::take_hook();
        std::panic::set_hook(Box::new(move |info| {
            let loc = info.location().map(|l| format!("{}:{}", l.file(), l.line())).unwrap_or_default();
            let msg = if let Some(s) = info.payload().downcast_ref::<&str>() {
                s.to_string()
            } else if let Some(s) = info.payload().downcast_ref::<String>() {
                s.clone()
            } else {
                "<non-string panic>".to_string()
            };
            PANIC_INFO.with(|p| *p.borrow_mut() = Some((loc, msg)));
            let quiet = IN_CATCH.with(|c| c.get()) && QUIET_CAUGHT_PANICS.load(std::sync::atomic::Ordering::Relaxed);
            if !quiet {
                // vcore's hook when running under `vcore::run`, the default hook otherwise
                prev(info);
            }
        }));
    });
}

/// Like `vcore::catch`, but independent of whether `vcore::run` installed its panic hook (the fuzz
/// target and `show` run without it): the panic site is always known, so D10 keeps its signature.
pub fn catch_emit<R>(f: impl FnOnce() -> R) -> Result<R, Fail> {
    ensure_hook();
    PANIC_INFO.with(|p| *p.borrow_mut() = None);
    IN_CATCH.with(|c| c.set(true));
    let r = std::panic::catch_unwind(std::panic::AssertUnwindSafe(f));
    IN_CATCH.with(|c| c.set(false));
    r.map_err(|_| {
        let (loc, msg) = PANIC_INFO.with(|p| p.borrow_mut().take()).unwrap_or_default();
        Fail { sig: vcore::panic_sig(&loc, &msg), msg: format!("panicked at {loc}: {msg}") }
    })
}

fn emit_panic_sig(sink: &str, shape: &node::Shape, p: &Fail) -> String {
    if p.msg.contains("data/any_value.rs") && p.msg.contains("not yet implemented") {
        if shape.composite_key {
            return SIG_D10_COMPOSITE.to_string();
        }
        return SIG_D10_SCALAR.to_string();
    }
    format!("{sink}/panic-on-emit/{}", p.sig)
}

// ---------------------------------------------------------------------------------------------
// file

fn ts_nanos(t: &event::Ts) -> u128 {
    t.nanos()
}

pub fn check_file(ev: &Ev, shape: &node::Shape, bytes: &[u8], cx: &mut Cx, rendered: &mut Vec<(String, String)>) -> Res {
    let Ok(text) = std::str::from_utf8(bytes) else {
        return cx.fail("file/not-utf8", format!("file content is not UTF-8: {}", brief(String::from_utf8_lossy(bytes))));
    };
    if text.is_empty() {
        // (what a writer that refuses the event instead of corrupting the line would produce)
        // a written map with a key sval_json refuses explains a refused event; nothing else does
        let sig = if shape.json_bad_key { "file/event-dropped/composite-map-key" } else { "file/event-missing" };
        return cx.fail(sig, "nothing was written for the event");
    }
    vassert!(cx, text.ends_with('\n'), "file/missing-separator", "record does not end with a newline: {}", brief(text));
    let lines: Vec<&str> = text[..text.len() - 1].split('\n').collect();
    vassert!(cx, lines.len() == 1, "file/line-count", "one event produced {} lines: {}", lines.len(), brief(text));
    let line = lines[0];
    let jv = match jsonp::parse(line) {
        Ok(j) => j,
        Err(e) => {
            // the only listed cause of an invalid line is a written map with a tagged key and a labelled
            // value (sval_json's stale internal-tagging state); a composite key makes the writer refuse the
            // event, so it cannot explain a line that WAS written
            let sig = if shape.tagged_key_labelled_value { SIG_FILE_TAGGED } else { "file/invalid-json-line" };
            return cx.fail(sig, format!("line is not valid JSON ({e}): {}", brief(line)));
        }
    };
    let Some(obj) = jv.as_obj() else {
        return cx.fail("file/not-an-object", format!("line is not a JSON object: {}", brief(line)));
    };
    for (i, (k, _)) in obj.iter().enumerate() {
        if obj[..i].iter().any(|(k2, _)| k2 == k) {
            cx.fail("file/duplicate-key", format!("key {k:?} appears twice in {}", brief(line)))?;
        }
    }
    // fixed fields
    let ts_of = |k: &str| jv.get(k).and_then(|v| v.as_str()).and_then(parse_rfc3339).map(|(s, n)| s as u128 * 1_000_000_000 + n as u128);
    match &ev.extent {
        Ext::None => {
            vassert!(cx, jv.get("ts").is_none() && jv.get("ts_start").is_none(), "file/timestamp", "event without extent has a timestamp: {}", brief(line));
        }
        Ext::Point(t) => {
            vassert!(cx, ts_of("ts") == Some(ts_nanos(t)), "file/timestamp", "ts {:?} does not denote {:?}", jv.get("ts"), t);
            vassert!(cx, jv.get("ts_start").is_none(), "file/timestamp", "point event has ts_start: {}", brief(line));
        }
        Ext::Range(a, b) => {
            vassert!(cx, ts_of("ts") == Some(ts_nanos(b)), "file/timestamp", "ts {:?} does not denote {:?}", jv.get("ts"), b);
            vassert!(cx, ts_of("ts_start") == Some(ts_nanos(a)), "file/ts-start", "ts_start {:?} does not denote {:?}", jv.get("ts_start"), a);
        }
    }
    vassert!(cx, jv.get("mdl").and_then(|v| v.as_str()) == Some(&ev.mdl_text()), "file/mdl", "mdl {:?} != {:?}", jv.get("mdl"), ev.mdl_text());
    match jv.get("msg").and_then(|v| v.as_str()) {
        None => cx.fail("file/msg", format!("msg missing or not text: {}", brief(line)))?,
        Some(m) => {
            if let Some(r) = ev.ref_msg() {
                vassert!(cx, m == r, "file/msg", "msg {:?} != reference rendering {:?}", m, r);
            } else {
                cx.dont_care();
            }
            rendered.push(("file".into(), m.to_string()));
        }
    }
    match jv.get("tpl").and_then(|v| v.as_str()) {
        None => cx.fail("file/tpl", format!("tpl missing or not text: {}", brief(line)))?,
        Some(t) => {
            if let Some(r) = ev.ref_tpl() {
                vassert!(cx, t == r, "file/tpl", "tpl {:?} != {:?}", t, r);
            } else {
                cx.dont_care();
            }
        }
    }
    // properties: each key once, first value, structure preserved
    let dd = ev.dedup();
    for (k, pv) in &dd {
        let Some(actual) = jv.get(k).or_else(|| obj.iter().find(|(k2, _)| k2 == k).map(|(_, v)| v)) else {
            cx.fail("file/property-missing", format!("property {k:?} is missing from {}", brief(line)))?;
            continue;
        };
        if let Err(m) = match_json(&event::ref_value(pv), actual, k) {
            let later = ev.props.iter().filter(|p| p.key == *k).skip(1).any(|p| match_json(&event::ref_value(&p.val), actual, k).is_ok());
            let sig = if later { "file/not-first-value" } else { "file/value-mismatch" };
            cx.fail(sig, format!("property {k:?}: {}", m.detail))?;
        }
    }
    for (k, _) in obj {
        if !RESERVED.contains(&k.as_str()) && !dd.iter().any(|(k2, _)| k2 == k) {
            cx.fail("file/unexpected-key", format!("key {k:?} is not a property of the event: {}", brief(line)))?;
        }
    }
    Ok(())
}

// ---------------------------------------------------------------------------------------------
// OTLP

struct Expect {
    key: String,
    rv: RV,
    later: Vec<RV>,
}

fn expectations<'a>(ev: &'a Ev, skip: impl Fn(&str, &PV) -> bool) -> Vec<Expect> {
    ev.dedup()
        .into_iter()
        .filter(|(k, pv)| !skip(k, pv))
        .map(|(k, pv)| Expect {
            key: k.to_string(),
            rv: event::ref_value(pv),
            later: ev.props.iter().filter(|p| p.key == k).skip(1).map(|p| event::ref_value(&p.val)).collect(),
        })
        .collect()
}

/// Attribute list vs expectations: unique keys, every expected key once with its first value, nothing
/// unexpected (`ignore` = keys the oracle has no opinion about).
fn check_attrs(sink: &str, attrs: &Attrs, expected: &[Expect], ignore: &[&str], is_json: bool, cx: &mut Cx) -> Res {
    for (i, (k, _)) in attrs.iter().enumerate() {
        if attrs[..i].iter().any(|(k2, _)| k2 == k) {
            cx.fail(format!("{sink}/duplicate-attribute-key"), format!("attribute key {k:?} appears more than once: {}", brief(attrs)))?;
            break;
        }
    }
    for e in expected {
        let Some((_, av)) = attrs.iter().find(|(k, _)| *k == e.key) else {
            cx.fail(format!("{sink}/property-missing"), format!("property {:?} is not among the attributes {}", e.key, brief(attrs)))?;
            continue;
        };
        if let Err(m) = match_av(&e.rv, av, is_json, &e.key) {
            let sig = if m.null_dropped {
                SIG_NULL_DROP.to_string()
            } else if e.later.iter().any(|l| match_av(l, av, is_json, &e.key).is_ok()) {
                format!("{sink}/not-first-value")
            } else {
                format!("{sink}/value-mismatch")
            };
            cx.fail(sig, format!("attribute {:?}: {}", e.key, m.detail))?;
        }
    }
    for (k, _) in attrs {
        if !expected.iter().any(|e| e.key == *k) && !ignore.contains(&k.as_str()) {
            cx.fail(format!("{sink}/unexpected-attribute"), format!("attribute {k:?} is not a property of the event: {}", brief(attrs)))?;
        }
    }
    Ok(())
}

fn end_nanos(ev: &Ev) -> Option<u128> {
    match &ev.extent {
        Ext::None => None,
        Ext::Point(t) => Some(t.nanos()),
        Ext::Range(_, b) => Some(b.nanos()),
    }
}

fn fits(n: u128) -> Option<u64> {
    u64::try_from(n).ok()
}

/// `exception.message` / `exception.stacktrace` from the first `err`
fn check_exception(sink: &str, attrs: &Attrs, err: &PV, is_json: bool, cx: &mut Cx) -> Res {
    match attrs.iter().find(|(k, _)| k == "exception.message") {
        None => cx.fail(format!("{sink}/exception-message-missing"), format!("err is set but there is no exception.message in {}", brief(attrs)))?,
        Some((_, av)) => {
            if let Err(m) = match_av(&event::ref_value(err), av, is_json, "exception.message") {
                let sig = if m.null_dropped { SIG_NULL_DROP.to_string() } else { format!("{sink}/exception-message") };
                cx.fail(sig, m.detail)?;
            }
        }
    }
    if let PV::Error(chain) = err {
        let st = attrs.iter().find(|(k, _)| k == "exception.stacktrace");
        if chain.len() > 1 {
            match st {
                Some((_, AV::Str(text))) => {
                    let mut pos = 0;
                    for cause in &chain[1..] {
                        match text[pos..].find(cause.as_str()) {
                            Some(p) => pos += p + cause.len(),
                            None => {
                                cx.fail(format!("{sink}/exception-stacktrace"), format!("cause {cause:?} missing (in order) from {text:?}"))?;
                                break;
                            }
                        }
                    }
                }
                other => cx.fail(format!("{sink}/exception-stacktrace"), format!("error has a source chain but exception.stacktrace is {other:?}"))?,
            }
        } else {
            vassert!(cx, st.is_none(), format!("{sink}/exception-stacktrace"), "error without source has a stacktrace {:?}", st);
        }
    }
    Ok(())
}

fn check_log(ev: &Ev, r: &LogRec, is_json: bool, cx: &mut Cx, rendered: &mut Vec<(String, String)>) -> Res {
    let sink = "otlp-logs";
    vassert!(cx, r.scope == ev.mdl_text(), "otlp/scope", "scope {:?} != module {:?}", r.scope, ev.mdl_text());
    vassert!(cx, r.other.is_empty(), "otlp-logs/unexpected-field", "fields outside the mapping are set: {}", r.other);
    match end_nanos(ev).map(fits) {
        Some(Some(n)) => {
            vassert!(cx, r.time == n && r.observed == n, "otlp-logs/timestamp", "time {} / observed {} != {}", r.time, r.observed, n);
        }
        _ => cx.dont_care(),
    }
    match &r.body {
        Some(AV::Str(m)) => {
            if let Some(rm) = ev.ref_msg() {
                vassert!(cx, *m == rm, "otlp-logs/body", "body {:?} != reference rendering {:?}", m, rm);
            }
            rendered.push((format!("otlp-logs-{}", if is_json { "json" } else { "proto" }), m.clone()));
        }
        other => cx.fail("otlp-logs/body", format!("body is not the rendered message: {other:?}"))?,
    }
    let mut ignore: Vec<&str> = Vec::new();
    // severity
    match ev.first("lvl") {
        None => cx.dont_care(),
        Some(pv) => match event::valid_level(pv) {
            Some(l) => {
                let num = [5, 9, 13, 17][l];
                vassert!(cx, r.sev_num == num && r.sev_text == event::LEVELS[l], "otlp-logs/severity", "severity {} {:?} for lvl {:?}", r.sev_num, r.sev_text, event::LEVELS[l]);
            }
            None => {
                cx.dont_care();
                ignore.push("lvl");
            }
        },
    }
    // ids
    for (key, len, actual) in [("trace_id", 16, &r.trace_id), ("span_id", 8, &r.span_id)] {
        match ev.first(key) {
            None => vassert!(cx, actual.is_empty(), format!("otlp-logs/unexpected-{key}"), "{key} field {:?} set without the property", actual),
            Some(pv) => {
                let valid = if len == 16 { event::valid_trace_id(pv) } else { event::valid_span_id(pv) };
                match valid {
                    Some(b) => vassert!(cx, *actual == b, format!("otlp-logs/{key}"), "{key} field {:?} != {:?}", actual, b),
                    None => {
                        cx.dont_care();
                        ignore.push(key);
                    }
                }
            }
        }
    }
    let expected = expectations(ev, |k, _| matches!(k, "lvl" | "trace_id" | "span_id" | "err"));
    if let Some(err) = ev.first("err") {
        check_exception(sink, &r.attrs, err, is_json, cx)?;
        ignore.extend(["exception.message", "exception.stacktrace"]);
    }
    check_attrs(sink, &r.attrs, &expected, &ignore, is_json, cx)
}

fn check_span(ev: &Ev, r: &SpanRec, is_json: bool, cx: &mut Cx, rendered: &mut Vec<(String, String)>) -> Res {
    let sink = "otlp-traces";
    vassert!(cx, r.scope == ev.mdl_text(), "otlp/scope", "scope {:?} != module {:?}", r.scope, ev.mdl_text());
    vassert!(cx, r.other.is_empty(), "otlp-traces/unexpected-field", "fields outside the mapping are set: {}", r.other);
    match &ev.extent {
        Ext::Range(a, b) => match (fits(a.nanos()), fits(b.nanos())) {
            (Some(s), Some(e)) => {
                vassert!(cx, r.start == s, "otlp-traces/start-time", "start {} != {}", r.start, s);
                vassert!(cx, r.end == e, "otlp-traces/end-time", "end {} != {}", r.end, e);
            }
            _ => cx.dont_care(),
        },
        _ => cx.fail("otlp-traces/not-a-range", "an event without a range extent became a span")?,
    }
    // name = span_name if given, else the rendered message
    match ev.first("span_name") {
        Some(pv) => match event::plain_text(pv) {
            Some(t) => vassert!(cx, r.name == t, "otlp-traces/name", "name {:?} != span_name {:?}", r.name, t),
            None => cx.dont_care(),
        },
        None => {
            if let Some(m) = ev.ref_msg() {
                vassert!(cx, r.name == m, "otlp-traces/name", "name {:?} != rendered message {:?}", r.name, m);
            }
            rendered.push((format!("otlp-traces-{}", if is_json { "json" } else { "proto" }), r.name.clone()));
        }
    }
    let mut ignore: Vec<&str> = vec!["evt_kind"];
    for (key, len, actual) in [("trace_id", 16, &r.trace_id), ("span_id", 8, &r.span_id), ("span_parent", 8, &r.parent_span_id)] {
        match ev.first(key) {
            None => vassert!(cx, actual.is_empty(), format!("otlp-traces/unexpected-{key}"), "{key} field {:?} set without the property", actual),
            Some(pv) => {
                let valid = if len == 16 { event::valid_trace_id(pv) } else { event::valid_span_id(pv) };
                match valid {
                    Some(b) => vassert!(cx, *actual == b, format!("otlp-traces/{key}"), "{key} field {:?} != {:?}", actual, b),
                    None => {
                        cx.dont_care();
                        ignore.push(key);
                    }
                }
            }
        }
    }
    // status / exception event
    let level = ev.first("lvl").and_then(event::valid_level);
    if ev.first("lvl").is_some() && level.is_none() {
        ignore.push("lvl");
    }
    match ev.first("err") {
        Some(err) => {
            match &r.status {
                Some((msg, 2)) => {
                    let top = match err {
                        PV::Error(chain) => chain.first().cloned(),
                        other => event::display_text(other),
                    };
                    if let Some(t) = top {
                        vassert!(cx, msg.starts_with(&t), "otlp-traces/status-message", "status message {:?} does not start with the error text {:?}", msg, t);
                    }
                }
                other => cx.fail("otlp-traces/status", format!("err is set but status is {other:?} (expected code 2 = error)"))?,
            }
            let exc: Vec<_> = r.events.iter().filter(|e| e.name == "exception").collect();
            vassert!(cx, exc.len() == 1 && r.events.len() == 1, "otlp-traces/exception-event", "expected exactly one exception event, got {}", brief(&r.events));
            if let Some(e) = exc.first() {
                vassert!(cx, e.other.is_empty(), "otlp-traces/unexpected-field", "event fields outside the mapping are set: {}", e.other);
                vassert!(cx, e.time == r.end, "otlp-traces/exception-event-time", "exception event time {} != span end {}", e.time, r.end);
                check_exception("otlp-traces", &e.attrs, err, is_json, cx)?;
                for (i, (k, _)) in e.attrs.iter().enumerate() {
                    vassert!(cx, !e.attrs[..i].iter().any(|(k2, _)| k2 == k), "otlp-traces/duplicate-attribute-key", "event attribute {:?} twice", k);
                    vassert!(cx, k == "exception.message" || k == "exception.stacktrace", "otlp-traces/unexpected-attribute", "event attribute {:?}", k);
                }
            }
        }
        None => {
            vassert!(cx, r.events.is_empty(), "otlp-traces/exception-event", "no err but events {}", brief(&r.events));
            match level {
                Some(l) => {
                    let code = if l >= 2 { 2 } else { 1 };
                    match &r.status {
                        Some((_, c)) if *c == code => {}
                        other => cx.fail("otlp-traces/status", format!("lvl {:?} but status is {other:?} (expected code {code})", event::LEVELS[l]))?,
                    }
                }
                None => cx.dont_care(),
            }
        }
    }
    let expected = expectations(ev, |k, _| matches!(k, "evt_kind" | "span_name" | "lvl" | "trace_id" | "span_id" | "span_parent" | "err"));
    check_attrs(sink, &r.attrs, &expected, &ignore, is_json, cx)
}

fn num_matches(n: &Num, v: &otlp::PV, is_json: bool) -> bool {
    match (n, v) {
        (Num::Int(a), otlp::PV::Int(b)) => a == b,
        (Num::Dbl(a), otlp::PV::Double(b)) => f64_same(*a, *b),
        (Num::Dbl(a), otlp::PV::DoubleNull) => is_json && !f64::from_bits(*a).is_finite(),
        // `"value": 5` read back from JSON cannot tell 5 from 5.0
        (Num::Dbl(a), otlp::PV::Int(b)) => is_json && f64::from_bits(*a) == *b as f64,
        _ => false,
    }
}

fn check_metric(ev: &Ev, r: &MetricRec, is_json: bool, cx: &mut Cx, rendered: &mut Vec<(String, String)>) -> Res {
    let sink = "otlp-metrics";
    vassert!(cx, r.scope == ev.mdl_text(), "otlp/scope", "scope {:?} != module {:?}", r.scope, ev.mdl_text());
    vassert!(cx, r.other.is_empty(), "otlp-metrics/unexpected-field", "fields outside the mapping are set: {}", r.other);
    match ev.first("metric_name") {
        Some(pv) => match event::plain_text(pv) {
            Some(t) => vassert!(cx, r.name == t, "otlp-metrics/name", "name {:?} != metric_name {:?}", r.name, t),
            None => cx.dont_care(),
        },
        None => {
            if let Some(m) = ev.ref_msg() {
                vassert!(cx, r.name == m, "otlp-metrics/name", "name {:?} != rendered message {:?}", r.name, m);
            }
            rendered.push((format!("otlp-metrics-{}", if is_json { "json" } else { "proto" }), r.name.clone()));
        }
    }
    match ev.first("metric_unit") {
        None => vassert!(cx, r.unit.is_empty(), "otlp-metrics/unit", "unit {:?} without metric_unit", r.unit),
        Some(pv) => match event::plain_text(pv) {
            Some(t) => {
                if r.unit != t {
                    // whatever a later duplicate renders as: the unit did not come from the first value
                    let later = ev.props.iter().filter(|p| p.key == "metric_unit").count() > 1;
                    let sig = if later { SIG_D11_UNIT } else { "otlp-metrics/unit" };
                    cx.fail(sig, format!("unit {:?} != first metric_unit {:?}", r.unit, t))?;
                }
            }
            None => cx.dont_care(),
        },
    }
    // aggregation → data kind
    let agg = ev.first("metric_agg").and_then(event::plain_text);
    let (points, is_sum): (&[Point], bool) = match (&r.data, agg.as_deref()) {
        (MData::Sum { points, monotonic, temporality }, Some(a @ ("sum" | "count"))) => {
            vassert!(cx, *monotonic == (a == "count"), "otlp-metrics/monotonic", "agg {a:?} but isMonotonic = {monotonic}");
            let want = match ev.extent {
                Ext::Range(..) => 1,
                Ext::Point(..) => 2,
                Ext::None => 0,
            };
            vassert!(cx, *temporality == want, "otlp-metrics/temporality", "temporality {temporality} != {want} for extent {:?}", ev.extent);
            (points, true)
        }
        (MData::Gauge(points), a) if !matches!(a, Some("sum" | "count")) => {
            if ev.first("metric_agg").is_some() && a.is_none() {
                cx.dont_care();
            }
            (points, false)
        }
        (d, a) => {
            if ev.first("metric_agg").is_some() && a.is_none() {
                // aggregation given as something that is not text: no opinion
                cx.dont_care();
                match d {
                    MData::Gauge(p) => (p, false),
                    MData::Sum { points, .. } => (points, true),
                    _ => return cx.fail("otlp-metrics/data-kind", format!("metric without gauge/sum data: {d:?}")),
                }
            } else {
                return cx.fail("otlp-metrics/data-kind", format!("metric_agg {a:?} encoded as {}", brief(d)));
            }
        }
    };
    vassert!(cx, !points.is_empty(), "otlp-metrics/no-points", "metric without data points");
    // times
    let (start, end) = match &ev.extent {
        Ext::None => (None, None),
        Ext::Point(t) => (fits(t.nanos()), fits(t.nanos())),
        Ext::Range(a, b) => (fits(a.nanos()), fits(b.nanos())),
    };
    // an inverted range (end before start) has no meaningful subdivision into points: what the times say is open
    let inverted = matches!(&ev.extent, Ext::Range(a, b) if a.nanos() > b.nanos());
    if inverted {
        cx.dont_care();
    } else if let (Some(s), Some(e), Some(first), Some(last)) = (start, end, points.first(), points.last()) {
        vassert!(cx, first.start == s, "otlp-metrics/point-time", "first point starts at {} != extent start {}", first.start, s);
        if points.len() == 1 {
            vassert!(cx, first.time == e, "otlp-metrics/point-time", "point time {} != extent end {}", first.time, e);
        } else {
            vassert!(cx, last.time <= e, "otlp-metrics/point-time", "last point ends at {} > extent end {}", last.time, e);
            for w in points.windows(2) {
                vassert!(cx, w[0].time == w[1].start && w[0].start <= w[0].time, "otlp-metrics/point-time", "points are not contiguous: {:?} then {:?}", (w[0].start, w[0].time), (w[1].start, w[1].time));
            }
        }
    } else {
        cx.dont_care();
    }
    // values
    match ev.first("metric_value").and_then(event::metric_samples) {
        None => cx.dont_care(),
        Some((samples, _is_seq)) => {
            if is_sum {
                vassert!(cx, points.len() == 1, "otlp-metrics/point-count", "sum/count produced {} points", points.len());
                // left fold, integers stay integers until they overflow or meet a float
                let mut acc = Num::Int(0);
                let mut overflow = false;
                for s in &samples {
                    acc = match (&acc, s) {
                        (Num::Int(a), Num::Int(b)) => match a.checked_add(*b) {
                            Some(v) => Num::Int(v),
                            None => {
                                overflow = true;
                                Num::Int(0)
                            }
                        },
                        (Num::Int(a), Num::Dbl(b)) => Num::Dbl((f64::from_bits(*b) + *a as f64).to_bits()),
                        (Num::Dbl(a), Num::Int(b)) => Num::Dbl((f64::from_bits(*a) + *b as f64).to_bits()),
                        (Num::Dbl(a), Num::Dbl(b)) => Num::Dbl((f64::from_bits(*a) + f64::from_bits(*b)).to_bits()),
                    };
                    if overflow {
                        break;
                    }
                }
                if overflow || samples.is_empty() {
                    cx.dont_care();
                } else if let Some(p) = points.first() {
                    vassert!(cx, num_matches(&acc, &p.value, is_json), "otlp-metrics/point-value", "sum of {:?} is {:?}, point carries {:?}", samples, acc, p.value);
                }
            } else {
                vassert!(cx, points.len() == samples.len(), "otlp-metrics/point-count", "{} samples but {} points", samples.len(), points.len());
                for (s, p) in samples.iter().zip(points) {
                    vassert!(cx, num_matches(s, &p.value, is_json), "otlp-metrics/point-value", "sample {:?} encoded as {:?}", s, p.value);
                }
            }
        }
    }
    if is_json {
        for p in points {
            if p.value_field == "value" {
                cx.fail(SIG_POINT_MEMBER, "NumberDataPoint value written as JSON member \"value\"; the OTLP schema names it \"asInt\"/\"asDouble\", so a schema-driven reader sees a point without a value")?;
                break;
            }
        }
    }
    // attributes of every point
    let expected = expectations(ev, |k, _| {
        matches!(k, "metric_name" | "metric_value" | "metric_agg" | "metric_unit" | "evt_kind" | "span_id" | "span_parent" | "trace_id")
    });
    let ignore = ["evt_kind", "span_id", "span_parent", "trace_id"];
    for (i, p) in points.iter().enumerate() {
        vassert!(cx, p.other.is_empty(), "otlp-metrics/unexpected-field", "point fields outside the mapping are set: {}", p.other);
        if i == 0 {
            check_attrs(sink, &p.attrs, &expected, &ignore, is_json, cx)?;
        } else {
            vassert!(cx, p.attrs == points[0].attrs, "otlp-metrics/point-attributes-differ", "point {i} carries other attributes than point 0");
        }
    }
    Ok(())
}

fn check_decoded(ev: &Ev, d: &Decoded, is_json: bool, cx: &mut Cx, rendered: &mut Vec<(String, String)>) -> Res {
    let enc = if is_json { "json" } else { "proto" };
    let n = d.logs.len() + d.spans.len() + d.metrics.len();
    if n != 1 {
        return cx.fail("otlp/record-count", format!("one event produced {n} records ({enc}): {}", brief(d)));
    }
    vassert!(cx, d.resources == 0, "otlp/unexpected-resource", "a resource appeared although none is configured");
    if let Some(r) = d.logs.first() {
        cx.class(&format!("otlp-logs-{enc}"));
        check_log(ev, r, is_json, cx, rendered)?;
    }
    if let Some(r) = d.spans.first() {
        cx.class(&format!("otlp-traces-{enc}"));
        check_span(ev, r, is_json, cx, rendered)?;
    }
    if let Some(r) = d.metrics.first() {
        cx.class(&format!("otlp-metrics-{enc}"));
        check_metric(ev, r, is_json, cx, rendered)?;
    }
    Ok(())
}

fn decode_request(req: &http::Req, cx: &mut Cx) -> Result<Option<(Decoded, bool)>, Fail> {
    let signal = if req.path.ends_with("/v1/logs") {
        0
    } else if req.path.ends_with("/v1/traces") {
        1
    } else if req.path.ends_with("/v1/metrics") {
        2
    } else {
        cx.fail("otlp/unknown-endpoint", format!("request to {}", req.path))?;
        return Ok(None);
    };
    let body: Vec<u8> = if req.content_encoding.eq_ignore_ascii_case("gzip") {
        use std::io::Read;
        let mut out = Vec::new();
        if flate2::read::GzDecoder::new(&req.body[..]).read_to_end(&mut out).is_err() {
            cx.fail("otlp/bad-gzip", "request body is not valid gzip")?;
            return Ok(None);
        }
        out
    } else {
        req.body.clone()
    };
    if req.content_type.contains("json") {
        let text = match std::str::from_utf8(&body) {
            Ok(t) => t,
            Err(_) => {
                cx.fail("otlp-json/not-utf8", "JSON body is not UTF-8")?;
                return Ok(None);
            }
        };
        let jv = match jsonp::parse(text) {
            Ok(j) => j,
            Err(e) => {
                cx.fail("otlp-json/invalid-json", format!("{e}: {}", brief(text)))?;
                return Ok(None);
            }
        };
        let d = match signal {
            0 => otlp::decode_logs_json(&jv),
            1 => otlp::decode_traces_json(&jv),
            _ => otlp::decode_metrics_json(&jv),
        };
        match d {
            Ok(d) => Ok(Some((d, true))),
            Err(e) => {
                cx.fail("otlp-json/schema-error", format!("{e}: {}", brief(text)))?;
                Ok(None)
            }
        }
    } else {
        vassert!(cx, req.content_type == "application/x-protobuf", "otlp/content-type", "content type {:?}", req.content_type);
        let d = match signal {
            0 => otlp::decode_logs_proto(&body),
            1 => otlp::decode_traces_proto(&body),
            _ => otlp::decode_metrics_proto(&body),
        };
        match d {
            Ok(d) => Ok(Some((d, false))),
            Err(e) => {
                cx.fail("otlp-proto/decode-error", format!("{e}: {} bytes", body.len()))?;
                Ok(None)
            }
        }
    }
}

#[derive(Clone, Copy, Debug, PartialEq, Eq)]
pub struct Sinks {
    pub file: bool,
    pub otlp: bool,
    pub term: bool,
}

pub const ALL_SINKS: Sinks = Sinks { file: true, otlp: true, term: true };

/// The whole oracle for one event.
pub fn check_event(ev: &Ev, cx: &mut Cx, sinks_on: Sinks) -> Res {
    classify(ev, cx);
    // signatures are decided by what is actually written (first occurrence per key)
    let shape = written_shape(ev);
    let mut rendered: Vec<(String, String)> = Vec::new();

    if sinks_on.file || sinks_on.otlp {
        sinks::with_pipeline(|pl| -> Res {
            // ---- emit (the calling thread is this one: a panic here is a panic in the caller)
            let mut file_ok = false;
            if sinks_on.file {
                match catch_emit(|| ev.emit_to(&pl.file)) {
                    Ok(()) => file_ok = true,
                    Err(p) => cx.fail(emit_panic_sig("file", &shape, &p), format!("emit_file panicked on the emitting thread: {}", p.msg))?,
                }
            }
            let mut emitted = [false; 4];
            if sinks_on.otlp {
                // keep every signal's receiver warm (see `sinks::warm_up`); these records are filtered out below
                sinks::warm_up(&pl.full_proto);
                sinks::warm_up(&pl.full_json);
                let ems = [&pl.full_proto, &pl.full_json, &pl.logs_proto, &pl.logs_json];
                let names = ["otlp(all signals, protobuf)", "otlp(all signals, json)", "otlp(logs, protobuf)", "otlp(logs, json)"];
                for (i, em) in ems.iter().enumerate() {
                    match catch_emit(|| ev.emit_to(*em)) {
                        Ok(()) => emitted[i] = true,
                        Err(p) => cx.fail(emit_panic_sig("otlp", &shape, &p), format!("{} panicked on the emitting thread: {}", names[i], p.msg))?,
                    }
                }
            }
            // ---- flush
            if sinks_on.file && !pl.file.blocking_flush(sinks::FLUSH) {
                return cx.fail("harness/file-flush-timeout", "emit_file did not flush within 60 s");
            }
            if sinks_on.otlp {
                for em in [&pl.full_proto, &pl.full_json, &pl.logs_proto, &pl.logs_json] {
                    if !em.blocking_flush(sinks::FLUSH) {
                        return cx.fail("harness/otlp-flush-timeout", "emit_otlp did not flush against an ack-everything collector within 60 s");
                    }
                }
            }
            // ---- file oracle
            if sinks_on.file {
                let bytes = pl.new_file_bytes().map_err(|e| Fail::new("harness/file-read", e.to_string()))?;
                if file_ok {
                    cx.class("sink-file");
                    check_file(ev, &shape, &bytes, cx, &mut rendered)?;
                }
            }
            // ---- OTLP oracle
            if sinks_on.otlp {
                let reqs = pl.take_requests();
                let mut decoded: [Option<Decoded>; 4] = [None, None, None, None];
                for (i, tag) in ["/fp/", "/fj/", "/lp/", "/lj/"].iter().enumerate() {
                    let mine: Vec<&http::Req> = reqs.iter().filter(|r| r.path.contains(tag)).collect();
                    if !emitted[i] {
                        continue;
                    }
                    let want_json = i % 2 == 1;
                    let mut all = Decoded::default();
                    let mut complete = true;
                    for r in &mine {
                        match decode_request(r, cx)? {
                            Some((d, is_json)) => {
                                vassert!(cx, is_json == want_json, "otlp/content-type", "pipeline {tag} sent content type {:?}", r.content_type);
                                all.logs.extend(d.logs.into_iter().filter(|x| x.scope != sinks::WARMUP_MDL));
                                all.spans.extend(d.spans.into_iter().filter(|x| x.scope != sinks::WARMUP_MDL));
                                all.metrics.extend(d.metrics.into_iter().filter(|x| x.scope != sinks::WARMUP_MDL));
                                all.resources += d.resources;
                            }
                            None => complete = false,
                        }
                    }
                    if complete {
                        check_decoded(ev, &all, want_json, cx, &mut rendered)?;
                        decoded[i] = Some(all);
                    }
                }
                // protobuf ⇔ JSON: same records
                for (p, j) in [(0, 1), (2, 3)] {
                    if let (Some(dp), Some(dj)) = (&decoded[p], &decoded[j]) {
                        if let Some(diff) = otlp::disagreement(dp, dj) {
                            let null_seq = ev.props.iter().any(|pr| matches!(&pr.val, PV::Node { node, cap: Cap::Sval | Cap::Serde | Cap::Prim } if node_has_null_in_seq(node)));
                            if null_seq && otlp::disagreement(dp, &strip_decoded(dj)).is_none() {
                                cx.fail(SIG_NULL_DROP, format!("protobuf drops null elements of arrays that JSON keeps: {diff}"))?;
                            } else {
                                cx.fail("otlp/proto-json-disagree", diff)?;
                            }
                        }
                    }
                }
            }
            Ok(())
        })?;
    }

    // every sink renders the same message
    if let Some((s0, m0)) = rendered.first() {
        for (s, m) in &rendered[1..] {
            vassert!(cx, m == m0, "cross-sink/message-differs", "{s} rendered {:?} but {s0} rendered {:?}", m, m0);
        }
    }

    if sinks_on.term {
        check_term(ev, cx)?;
    }
    Ok(())
}

// ---------------------------------------------------------------------------------------------
// one property through the sinks (the "via each sink" read path of C19)

/// What the rolling-file line and the OTLP log record (JSON and protobuf) carry under `key` for the
/// ONE event `emit` produces: `Ok(None)` = the sink wrote the event without that property.
pub struct PropViews {
    pub file: Option<JV>,
    pub otlp_json: Option<AV>,
    pub otlp_proto: Option<AV>,
}

pub fn prop_through_sinks(key: &str, cx: &mut Cx, emit: impl FnOnce(&dyn emit::emitter::ErasedEmitter)) -> Result<PropViews, Fail> {
    sinks::with_pipeline(|pl| -> Result<PropViews, Fail> {
        {
            let em = emit::emitter::from_fn(|evt| {
                pl.file.emit(&evt);
                pl.logs_json.emit(&evt);
                pl.logs_proto.emit(&evt);
            });
            if let Err(p) = catch_emit(|| emit(&em)) {
                return Err(Fail::new(format!("sinks/{}", p.sig), format!("a sink panicked on the emitting thread: {}", p.msg)));
            }
        }
        if !pl.file.blocking_flush(sinks::FLUSH) || !pl.logs_json.blocking_flush(sinks::FLUSH) || !pl.logs_proto.blocking_flush(sinks::FLUSH) {
            return Err(Fail::new("harness/sink-flush-timeout", "a sink did not flush within 60 s"));
        }
        let bytes = pl.new_file_bytes().map_err(|e| Fail::new("harness/file-read", e.to_string()))?;
        let text = String::from_utf8(bytes).map_err(|_| Fail::new("file/not-utf8", "file content is not UTF-8"))?;
        let lines: Vec<&str> = text.split('\n').filter(|l| !l.trim().is_empty()).collect();
        if lines.len() != 1 {
            return Err(Fail::new("sinks/file/line-count", format!("one event produced {} lines: {}", lines.len(), brief(&text))));
        }
        let line = jsonp::parse(lines[0]).map_err(|e| Fail::new("sinks/file/invalid-json-line", format!("{e}: {}", brief(lines[0]))))?;
        let file = line.get(key).cloned();
        let reqs = pl.take_requests();
        let mut views: [Option<AV>; 2] = [None, None];
        for (i, tag) in ["/lj/", "/lp/"].iter().enumerate() {
            let mut logs = Vec::new();
            for r in reqs.iter().filter(|r| r.path.contains(tag)) {
                match decode_request(r, cx)? {
                    Some((d, _)) => logs.extend(d.logs.into_iter().filter(|x| x.scope != sinks::WARMUP_MDL)),
                    None => return Err(Fail::new("sinks/otlp/undecodable", format!("request to {} does not decode", r.path))),
                }
            }
            if logs.len() != 1 {
                return Err(Fail::new("sinks/otlp/record-count", format!("one event produced {} log records at {tag}", logs.len())));
            }
            views[i] = logs[0].attrs.iter().find(|(k, _)| k == key).map(|(_, v)| v.clone());
        }
        let [otlp_json, otlp_proto] = views;
        Ok(PropViews { file, otlp_json, otlp_proto })
    })
}

// ---------------------------------------------------------------------------------------------
// terminal

fn strip_ansi(s: &str) -> String {
    let mut out = String::new();
    let mut it = s.chars().peekable();
    while let Some(c) = it.next() {
        if c == '\u{1b}' && it.peek() == Some(&'[') {
            it.next();
            for c2 in it.by_ref() {
                if c2.is_ascii_alphabetic() {
                    break;
                }
            }
        } else {
            out.push(c);
        }
    }
    out
}

/// Fragments of the message that must appear, in order, in the terminal rendering: template text and
/// the holes whose text is plain enough that no writer would decorate it.
fn term_fragments(ev: &Ev) -> Vec<String> {
    let mut out = Vec::new();
    for p in &ev.tpl {
        match p {
            TplPart::Text(t) => {
                if !t.is_empty() {
                    out.push(t.clone());
                }
            }
            TplPart::Hole(l) => match ev.first(l) {
                None => out.push(format!("{{{l}}}")),
                Some(PV::Node { node, cap: Cap::Prim }) => match node {
                    Node::Bool(_) | Node::I8(_) | Node::I16(_) | Node::I32(_) | Node::I64(_) | Node::U8(_) | Node::U16(_) | Node::U32(_) | Node::U64(_) => {
                        if let Some(t) = event::display_text(ev.first(l).unwrap()) {
                            out.push(t);
                        }
                    }
                    Node::Str(s) if !s.is_empty() && s.chars().all(|c| c.is_ascii_alphanumeric() || c == ' ' || c == '_') => out.push(s.clone()),
                    _ => {}
                },
                _ => {}
            },
        }
    }
    out
}

fn contains_in_order(hay: &str, frags: &[String]) -> Option<String> {
    let mut pos = 0;
    for f in frags {
        match hay[pos..].find(f.as_str()) {
            Some(p) => pos += p + f.len(),
            None => return Some(f.clone()),
        }
    }
    None
}

pub fn check_term(ev: &Ev, cx: &mut Cx) -> Res {
    let out = sinks::run_term_child(ev).map_err(|e| Fail::new("harness/term-child-spawn", e.to_string()))?;
    cx.class("sink-term");
    if !out.status_ok {
        // the child died: emit_term panicked (or crashed) while writing the event
        let line = out.stderr.lines().find(|l| l.contains("panicked at")).unwrap_or("").to_string();
        let next = out.stderr.lines().skip_while(|l| !l.contains("panicked at")).nth(1).unwrap_or("").to_string();
        let file = line.split("panicked at ").nth(1).unwrap_or("").split(':').next().unwrap_or("").trim_start_matches("/repo/").to_string();
        let sig = if line.is_empty() { "term/child-failed".to_string() } else { format!("term/panic@{}", file) };
        return cx.fail(sig, format!("terminal writer child exited with {}: {line} {next}", out.status));
    }
    let plain = String::from_utf8_lossy(&out.plain).into_owned();
    let coloured = String::from_utf8_lossy(&out.coloured).into_owned();
    vassert!(cx, !plain.is_empty(), "term/empty-output", "plain terminal output is empty");
    vassert!(cx, !coloured.is_empty(), "term/empty-output", "coloured terminal output is empty");
    let frags = term_fragments(ev);
    if let Some(missing) = contains_in_order(&plain, &frags) {
        cx.fail("term/message-missing", format!("plain output {plain:?} does not contain message fragment {missing:?}"))?;
    }
    if frags.iter().all(|f| !f.contains('\u{1b}')) {
        if let Some(missing) = contains_in_order(&strip_ansi(&coloured), &frags) {
            cx.fail("term/message-missing", format!("coloured output {coloured:?} does not contain message fragment {missing:?}"))?;
        }
    } else {
        cx.dont_care();
    }
    cx.class_if(ev.first("metric_value").is_some() && plain.lines().count() >= 2, "term-sparkline-or-detail");
    Ok(())
}

// ---------------------------------------------------------------------------------------------
// Engine E6 (libFuzzer target `value_to_sinks`)

/// The event one fuzzer input denotes (grammar decoder of `fuzz.rs`); `None` = the decoder rejected the bytes.
pub fn fuzz_decode(data: &[u8]) -> Option<Ev> {
    fuzz::event(&mut arbitrary::Unstructured::new(data)).ok()
}

/// `Res`-returning form of `fuzz::fuzz_entry_value_to_sinks` (same decoder, same oracle: rolling file + the four OTLP
/// emitters over the in-process loopback pipeline, no terminal child). Used by the libFuzzer target, which reports the
/// failure itself, and by the check binary's `fuzz-artifact` generator, which replays libFuzzer artifacts.
pub fn fuzz_entry(data: &[u8]) -> Res {
    let Some(ev) = fuzz_decode(data) else { return Ok(()) };
    vcore::with_cx("C13", |cx| check_event(&ev, cx, Sinks { file: true, otlp: true, term: false }))
}
