//! C13 — every sink encodes every event faithfully and never panics the caller.
pub mod event;
pub mod http;
pub mod jsonp;
pub mod node;
pub mod otlp;
pub mod sinks;
