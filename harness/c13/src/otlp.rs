//! Decoding of captured OTLP request bodies into one normalised model, from both encodings:
//! protobuf through the prost types generated in the repository, JSON through a lenient proto3-JSON
//! reader (64-bit integers and times as numbers or strings, ids as hex, bytes as number arrays or
//! base64, null for absent messages …). Every representation choice DESIGN §C13 lists as don't-care
//! is accepted here; anything the reader does not know (unknown JSON field, wrong JSON type, bad
//! hex …) is a decode error.

use crate::jsonp::JV;
use prost::Message;

#[allow(dead_code, clippy::all)]
#[path = "/repo/emitter/otlp/src/data/generated.rs"]
mod generated;

use generated::collector::{logs::v1 as clogs, metrics::v1 as cmetrics, trace::v1 as ctrace};
use generated::{common::v1 as common, metrics::v1 as metrics, trace::v1 as trace};

#[derive(Clone, Debug, PartialEq)]
pub enum AV {
    /// AnyValue with no variant set / JSON `null` / missing
    Absent,
    Str(String),
    Bool(bool),
    Int(i64),
    /// bit pattern
    Double(u64),
    /// JSON wrote `null` where a double belongs (non-finite in the source; representation don't-care)
    DoubleNull,
    Array(Vec<AV>),
    Kv(Vec<(String, AV)>),
    Bytes(Vec<u8>),
}

pub type Attrs = Vec<(String, AV)>;

#[derive(Clone, Debug, PartialEq, Default)]
pub struct LogRec {
    pub scope: String,
    pub time: u64,
    pub observed: u64,
    pub sev_num: i32,
    pub sev_text: String,
    pub body: Option<AV>,
    pub attrs: Attrs,
    pub trace_id: Vec<u8>,
    pub span_id: Vec<u8>,
    /// anything set that the model does not carry (expected empty)
    pub other: String,
}

#[derive(Clone, Debug, PartialEq, Default)]
pub struct SpanEvent {
    pub name: String,
    pub time: u64,
    pub attrs: Attrs,
    pub other: String,
}

#[derive(Clone, Debug, PartialEq, Default)]
pub struct SpanRec {
    pub scope: String,
    pub name: String,
    pub kind: i32,
    pub start: u64,
    pub end: u64,
    pub attrs: Attrs,
    pub trace_id: Vec<u8>,
    pub span_id: Vec<u8>,
    pub parent_span_id: Vec<u8>,
    /// (message, code)
    pub status: Option<(String, i32)>,
    pub events: Vec<SpanEvent>,
    pub other: String,
}

#[derive(Clone, Debug, PartialEq)]
pub enum PV {
    None,
    Int(i64),
    Double(u64),
    DoubleNull,
}

#[derive(Clone, Debug, PartialEq)]
pub struct Point {
    pub attrs: Attrs,
    pub start: u64,
    pub time: u64,
    pub value: PV,
    /// JSON only: the member name the value was written under
    pub value_field: &'static str,
    pub other: String,
}

#[derive(Clone, Debug, PartialEq)]
pub enum MData {
    None,
    Gauge(Vec<Point>),
    Sum { points: Vec<Point>, temporality: i32, monotonic: bool },
    Other(String),
}

#[derive(Clone, Debug, PartialEq)]
pub struct MetricRec {
    pub scope: String,
    pub name: String,
    pub unit: String,
    pub data: MData,
    pub other: String,
}

#[derive(Clone, Debug, PartialEq, Default)]
pub struct Decoded {
    pub logs: Vec<LogRec>,
    pub spans: Vec<SpanRec>,
    pub metrics: Vec<MetricRec>,
    /// number of resource entries that carried a non-empty resource (we configure none)
    pub resources: usize,
}

// ---------------------------------------------------------------------------------------------
// protobuf

fn av_proto(v: &Option<common::AnyValue>) -> AV {
    use common::any_value::Value as V;
    match v {
        None => AV::Absent,
        Some(a) => match &a.value {
            None => AV::Absent,
            Some(V::StringValue(s)) => AV::Str(s.clone()),
            Some(V::BoolValue(b)) => AV::Bool(*b),
            Some(V::IntValue(i)) => AV::Int(*i),
            Some(V::DoubleValue(d)) => AV::Double(d.to_bits()),
            Some(V::ArrayValue(a)) => AV::Array(a.values.iter().map(|x| av_proto(&Some(x.clone()))).collect()),
            Some(V::KvlistValue(k)) => AV::Kv(k.values.iter().map(|kv| (kv.key.clone(), av_proto(&kv.value))).collect()),
            Some(V::BytesValue(b)) => AV::Bytes(b.clone()),
        },
    }
}

fn attrs_proto(kvs: &[common::KeyValue]) -> Attrs {
    kvs.iter().map(|kv| (kv.key.clone(), av_proto(&kv.value))).collect()
}

fn residual<T: PartialEq + Default + std::fmt::Debug>(t: T) -> String {
    if t == T::default() {
        String::new()
    } else {
        format!("{t:?}")
    }
}

fn scope_proto(s: &Option<common::InstrumentationScope>) -> (String, String) {
    match s {
        None => (String::new(), String::new()),
        Some(s) => {
            let mut r = s.clone();
            r.name.clear();
            (s.name.clone(), residual(r))
        }
    }
}

pub fn decode_logs_proto(body: &[u8]) -> Result<Decoded, String> {
    let req = clogs::ExportLogsServiceRequest::decode(body).map_err(|e| format!("protobuf decode: {e}"))?;
    let mut out = Decoded::default();
    for rl in &req.resource_logs {
        if rl.resource.as_ref().is_some_and(|r| *r != Default::default()) {
            out.resources += 1;
        }
        for sl in &rl.scope_logs {
            let (scope, scope_other) = scope_proto(&sl.scope);
            for lr in &sl.log_records {
                let mut r = lr.clone();
                r.time_unix_nano = 0;
                r.observed_time_unix_nano = 0;
                r.severity_number = 0;
                r.severity_text.clear();
                r.body = None;
                r.attributes.clear();
                r.trace_id.clear();
                r.span_id.clear();
                out.logs.push(LogRec {
                    scope: scope.clone(),
                    time: lr.time_unix_nano,
                    observed: lr.observed_time_unix_nano,
                    sev_num: lr.severity_number,
                    sev_text: lr.severity_text.clone(),
                    body: lr.body.as_ref().map(|b| av_proto(&Some(b.clone()))),
                    attrs: attrs_proto(&lr.attributes),
                    trace_id: lr.trace_id.clone(),
                    span_id: lr.span_id.clone(),
                    other: format!("{}{}", scope_other, residual(r)),
                });
            }
        }
    }
    Ok(out)
}

pub fn decode_traces_proto(body: &[u8]) -> Result<Decoded, String> {
    let req = ctrace::ExportTraceServiceRequest::decode(body).map_err(|e| format!("protobuf decode: {e}"))?;
    let mut out = Decoded::default();
    for rs in &req.resource_spans {
        if rs.resource.as_ref().is_some_and(|r| *r != Default::default()) {
            out.resources += 1;
        }
        for ss in &rs.scope_spans {
            let (scope, scope_other) = scope_proto(&ss.scope);
            for sp in &ss.spans {
                let mut r: trace::Span = sp.clone();
                r.name.clear();
                r.kind = 0;
                r.start_time_unix_nano = 0;
                r.end_time_unix_nano = 0;
                r.attributes.clear();
                r.trace_id.clear();
                r.span_id.clear();
                r.parent_span_id.clear();
                r.status = None;
                r.events.clear();
                out.spans.push(SpanRec {
                    scope: scope.clone(),
                    name: sp.name.clone(),
                    kind: sp.kind,
                    start: sp.start_time_unix_nano,
                    end: sp.end_time_unix_nano,
                    attrs: attrs_proto(&sp.attributes),
                    trace_id: sp.trace_id.clone(),
                    span_id: sp.span_id.clone(),
                    parent_span_id: sp.parent_span_id.clone(),
                    status: sp.status.as_ref().map(|s| (s.message.clone(), s.code)),
                    events: sp
                        .events
                        .iter()
                        .map(|e| {
                            let mut re = e.clone();
                            re.name.clear();
                            re.time_unix_nano = 0;
                            re.attributes.clear();
                            SpanEvent {
                                name: e.name.clone(),
                                time: e.time_unix_nano,
                                attrs: attrs_proto(&e.attributes),
                                other: residual(re),
                            }
                        })
                        .collect(),
                    other: format!("{}{}", scope_other, residual(r)),
                });
            }
        }
    }
    Ok(out)
}

fn points_proto(pts: &[metrics::NumberDataPoint]) -> Vec<Point> {
    use metrics::number_data_point::Value as V;
    pts.iter()
        .map(|p| {
            let mut r = p.clone();
            r.attributes.clear();
            r.start_time_unix_nano = 0;
            r.time_unix_nano = 0;
            r.value = None;
            Point {
                attrs: attrs_proto(&p.attributes),
                start: p.start_time_unix_nano,
                time: p.time_unix_nano,
                value: match &p.value {
                    None => PV::None,
                    Some(V::AsInt(i)) => PV::Int(*i),
                    Some(V::AsDouble(d)) => PV::Double(d.to_bits()),
                },
                value_field: "",
                other: residual(r),
            }
        })
        .collect()
}

pub fn decode_metrics_proto(body: &[u8]) -> Result<Decoded, String> {
    use metrics::metric::Data;
    let req = cmetrics::ExportMetricsServiceRequest::decode(body).map_err(|e| format!("protobuf decode: {e}"))?;
    let mut out = Decoded::default();
    for rm in &req.resource_metrics {
        if rm.resource.as_ref().is_some_and(|r| *r != Default::default()) {
            out.resources += 1;
        }
        for sm in &rm.scope_metrics {
            let (scope, scope_other) = scope_proto(&sm.scope);
            for m in &sm.metrics {
                let mut r = m.clone();
                r.name.clear();
                r.unit.clear();
                r.data = None;
                out.metrics.push(MetricRec {
                    scope: scope.clone(),
                    name: m.name.clone(),
                    unit: m.unit.clone(),
                    data: match &m.data {
                        None => MData::None,
                        Some(Data::Gauge(g)) => MData::Gauge(points_proto(&g.data_points)),
                        Some(Data::Sum(s)) => MData::Sum {
                            points: points_proto(&s.data_points),
                            temporality: s.aggregation_temporality,
                            monotonic: s.is_monotonic,
                        },
                        Some(o) => MData::Other(format!("{o:?}")),
                    },
                    other: format!("{}{}", scope_other, residual(r)),
                });
            }
        }
    }
    Ok(out)
}

// ---------------------------------------------------------------------------------------------
// JSON (lenient proto3-JSON)

type R<T> = Result<T, String>;

fn obj<'a>(v: &'a JV, what: &str) -> R<&'a [(String, JV)]> {
    v.as_obj().ok_or_else(|| format!("{what}: expected object, got {}", v.brief()))
}

/// Fields of a message object: unknown names and repeated names are errors.
fn fields<'a>(v: &'a JV, what: &str, known: &[&str]) -> R<&'a [(String, JV)]> {
    let o = obj(v, what)?;
    for (i, (k, _)) in o.iter().enumerate() {
        if !known.contains(&k.as_str()) {
            return Err(format!("{what}: unknown field {k:?}"));
        }
        if o[..i].iter().any(|(k2, _)| k2 == k) {
            return Err(format!("{what}: field {k:?} written twice"));
        }
    }
    Ok(o)
}

fn get<'a>(o: &'a [(String, JV)], k: &str) -> Option<&'a JV> {
    o.iter().find(|(k2, _)| k2 == k).map(|(_, v)| v).filter(|v| !v.is_null())
}

fn j_u64(v: &JV, what: &str) -> R<u64> {
    match v {
        JV::Num(t) | JV::Str(t) => t.parse::<u64>().map_err(|_| format!("{what}: not a u64: {t:?}")),
        _ => Err(format!("{what}: expected integer, got {}", v.brief())),
    }
}
fn j_i64(v: &JV, what: &str) -> R<i64> {
    match v {
        JV::Num(t) | JV::Str(t) => t.parse::<i64>().map_err(|_| format!("{what}: not an i64: {t:?}")),
        _ => Err(format!("{what}: expected integer, got {}", v.brief())),
    }
}
fn j_i32(v: &JV, what: &str) -> R<i32> {
    match v {
        JV::Num(t) => t.parse::<i32>().map_err(|_| format!("{what}: not an i32: {t:?}")),
        JV::Str(t) => t.parse::<i32>().map_err(|_| format!("{what}: enum names are not expected here: {t:?}")),
        _ => Err(format!("{what}: expected integer, got {}", v.brief())),
    }
}
fn j_str(v: &JV, what: &str) -> R<String> {
    v.as_str().map(|s| s.to_string()).ok_or_else(|| format!("{what}: expected string, got {}", v.brief()))
}
fn j_bool(v: &JV, what: &str) -> R<bool> {
    match v {
        JV::Bool(b) => Ok(*b),
        _ => Err(format!("{what}: expected bool, got {}", v.brief())),
    }
}
fn j_hex(v: &JV, what: &str, len: usize) -> R<Vec<u8>> {
    let s = v.as_str().ok_or_else(|| format!("{what}: ids are hex strings in OTLP/JSON, got {}", v.brief()))?;
    if s.len() != len * 2 || !s.bytes().all(|c| c.is_ascii_hexdigit()) {
        return Err(format!("{what}: not {len} hex bytes: {s:?}"));
    }
    Ok((0..len).map(|i| u8::from_str_radix(&s[2 * i..2 * i + 2], 16).unwrap()).collect())
}
/// double: JSON number; `null` and the proto3 strings for the non-finite values are accepted
fn j_double(v: Option<&JV>, raw_null: bool, what: &str) -> R<Option<u64>> {
    match v {
        None => {
            if raw_null {
                Ok(None)
            } else {
                Err(format!("{what}: missing"))
            }
        }
        Some(JV::Num(t)) => t.parse::<f64>().map(|f| Some(f.to_bits())).map_err(|_| format!("{what}: bad number {t:?}")),
        Some(JV::Str(t)) => match t.as_str() {
            "NaN" => Ok(Some(f64::NAN.to_bits())),
            "Infinity" => Ok(Some(f64::INFINITY.to_bits())),
            "-Infinity" => Ok(Some(f64::NEG_INFINITY.to_bits())),
            _ => t.parse::<f64>().map(|f| Some(f.to_bits())).map_err(|_| format!("{what}: bad number {t:?}")),
        },
        Some(o) => Err(format!("{what}: expected number, got {}", o.brief())),
    }
}

fn b64(s: &str) -> Option<Vec<u8>> {
    let mut out = Vec::new();
    let mut acc = 0u32;
    let mut bits = 0;
    for c in s.bytes() {
        let v = match c {
            b'A'..=b'Z' => c - b'A',
            b'a'..=b'z' => c - b'a' + 26,
            b'0'..=b'9' => c - b'0' + 52,
            b'+' | b'-' => 62,
            b'/' | b'_' => 63,
            b'=' => continue,
            _ => return None,
        };
        acc = (acc << 6) | v as u32;
        bits += 6;
        if bits >= 8 {
            bits -= 8;
            out.push((acc >> bits) as u8);
            acc &= (1 << bits) - 1;
        }
    }
    Some(out)
}

const AV_FIELDS: [&str; 7] = ["stringValue", "boolValue", "intValue", "doubleValue", "arrayValue", "kvlistValue", "bytesValue"];

fn av_json(v: Option<&JV>, what: &str) -> R<AV> {
    let Some(v) = v else { return Ok(AV::Absent) };
    if v.is_null() {
        return Ok(AV::Absent);
    }
    let o = fields(v, what, &AV_FIELDS)?;
    if o.is_empty() {
        return Ok(AV::Absent);
    }
    if o.len() != 1 {
        return Err(format!("{what}: AnyValue with {} members set", o.len()));
    }
    let (k, x) = &o[0];
    Ok(match k.as_str() {
        "stringValue" => AV::Str(j_str(x, what)?),
        "boolValue" => AV::Bool(j_bool(x, what)?),
        "intValue" => AV::Int(j_i64(x, what)?),
        "doubleValue" => {
            if x.is_null() {
                AV::DoubleNull
            } else {
                AV::Double(j_double(Some(x), false, what)?.unwrap())
            }
        }
        "arrayValue" => {
            let a = fields(x, what, &["values"])?;
            let items = match get(a, "values") {
                None => &[][..],
                Some(vs) => vs.as_arr().ok_or_else(|| format!("{what}: arrayValue.values is not an array"))?,
            };
            AV::Array(items.iter().map(|it| av_json(Some(it), what)).collect::<R<Vec<_>>>()?)
        }
        "kvlistValue" => {
            let a = fields(x, what, &["values"])?;
            let items = match get(a, "values") {
                None => &[][..],
                Some(vs) => vs.as_arr().ok_or_else(|| format!("{what}: kvlistValue.values is not an array"))?,
            };
            AV::Kv(items.iter().map(|it| kv_json(it, what)).collect::<R<Vec<_>>>()?)
        }
        "bytesValue" => match x {
            JV::Arr(items) => AV::Bytes(
                items
                    .iter()
                    .map(|b| match b {
                        JV::Num(t) => t.parse::<u8>().map_err(|_| format!("{what}: bad byte {t:?}")),
                        o => Err(format!("{what}: bad byte {}", o.brief())),
                    })
                    .collect::<R<Vec<_>>>()?,
            ),
            JV::Str(s) => AV::Bytes(b64(s).ok_or_else(|| format!("{what}: bad base64 {s:?}"))?),
            o => return Err(format!("{what}: bytesValue {}", o.brief())),
        },
        _ => unreachable!(),
    })
}

fn kv_json(v: &JV, what: &str) -> R<(String, AV)> {
    let o = fields(v, what, &["key", "value"])?;
    let key = match get(o, "key") {
        None => String::new(),
        Some(k) => j_str(k, &format!("{what}.key"))?,
    };
    let val = av_json(get(o, "value"), &format!("{what}[{key:?}]"))?;
    Ok((key, val))
}

fn attrs_json(v: Option<&JV>, what: &str) -> R<Attrs> {
    match v {
        None => Ok(Vec::new()),
        Some(a) => a
            .as_arr()
            .ok_or_else(|| format!("{what}: attributes is not an array"))?
            .iter()
            .map(|kv| kv_json(kv, what))
            .collect(),
    }
}

fn opt<T>(v: Option<&JV>, f: impl FnOnce(&JV) -> R<T>, d: T) -> R<T> {
    match v {
        None => Ok(d),
        Some(v) => f(v),
    }
}

fn scope_json(v: Option<&JV>) -> R<String> {
    match v {
        None => Ok(String::new()),
        Some(s) => {
            let o = fields(s, "scope", &["name"])?;
            opt(get(o, "name"), |n| j_str(n, "scope.name"), String::new())
        }
    }
}

fn resource_json(v: Option<&JV>) -> R<usize> {
    match v {
        None => Ok(0),
        Some(r) => {
            let o = fields(r, "resource", &["attributes"])?;
            Ok(if attrs_json(get(o, "attributes"), "resource")?.is_empty() { 0 } else { 1 })
        }
    }
}

fn arr<'a>(o: &'a [(String, JV)], k: &str, what: &str) -> R<&'a [JV]> {
    match get(o, k) {
        None => Ok(&[]),
        Some(v) => v.as_arr().ok_or_else(|| format!("{what}.{k}: expected array")),
    }
}

pub fn decode_logs_json(root: &JV) -> R<Decoded> {
    let mut out = Decoded::default();
    let top = fields(root, "request", &["resourceLogs"])?;
    for rl in arr(top, "resourceLogs", "request")? {
        let rl = fields(rl, "resourceLogs", &["resource", "scopeLogs"])?;
        out.resources += resource_json(get(rl, "resource"))?;
        for sl in arr(rl, "scopeLogs", "resourceLogs")? {
            let sl = fields(sl, "scopeLogs", &["scope", "logRecords"])?;
            let scope = scope_json(get(sl, "scope"))?;
            for lr in arr(sl, "logRecords", "scopeLogs")? {
                let o = fields(
                    lr,
                    "logRecord",
                    &["timeUnixNano", "observedTimeUnixNano", "severityNumber", "severityText", "body", "attributes", "traceId", "spanId"],
                )?;
                out.logs.push(LogRec {
                    scope: scope.clone(),
                    time: opt(get(o, "timeUnixNano"), |v| j_u64(v, "timeUnixNano"), 0)?,
                    observed: opt(get(o, "observedTimeUnixNano"), |v| j_u64(v, "observedTimeUnixNano"), 0)?,
                    sev_num: opt(get(o, "severityNumber"), |v| j_i32(v, "severityNumber"), 0)?,
                    sev_text: opt(get(o, "severityText"), |v| j_str(v, "severityText"), String::new())?,
                    body: match get(o, "body") {
                        None => None,
                        Some(b) => Some(av_json(Some(b), "body")?),
                    },
                    attrs: attrs_json(get(o, "attributes"), "logRecord.attributes")?,
                    trace_id: opt(get(o, "traceId"), |v| j_hex(v, "traceId", 16), Vec::new())?,
                    span_id: opt(get(o, "spanId"), |v| j_hex(v, "spanId", 8), Vec::new())?,
                    other: String::new(),
                });
            }
        }
    }
    Ok(out)
}

pub fn decode_traces_json(root: &JV) -> R<Decoded> {
    let mut out = Decoded::default();
    let top = fields(root, "request", &["resourceSpans"])?;
    for rs in arr(top, "resourceSpans", "request")? {
        let rs = fields(rs, "resourceSpans", &["resource", "scopeSpans"])?;
        out.resources += resource_json(get(rs, "resource"))?;
        for ss in arr(rs, "scopeSpans", "resourceSpans")? {
            let ss = fields(ss, "scopeSpans", &["scope", "spans"])?;
            let scope = scope_json(get(ss, "scope"))?;
            for sp in arr(ss, "spans", "scopeSpans")? {
                let o = fields(
                    sp,
                    "span",
                    &["name", "kind", "startTimeUnixNano", "endTimeUnixNano", "attributes", "traceId", "spanId", "parentSpanId", "status", "events"],
                )?;
                let status = match get(o, "status") {
                    None => None,
                    Some(s) => {
                        let so = fields(s, "status", &["message", "code"])?;
                        Some((
                            opt(get(so, "message"), |v| j_str(v, "status.message"), String::new())?,
                            opt(get(so, "code"), |v| j_i32(v, "status.code"), 0)?,
                        ))
                    }
                };
                let mut events = Vec::new();
                for e in arr(o, "events", "span")? {
                    let eo = fields(e, "event", &["name", "timeUnixNano", "attributes"])?;
                    events.push(SpanEvent {
                        name: opt(get(eo, "name"), |v| j_str(v, "event.name"), String::new())?,
                        time: opt(get(eo, "timeUnixNano"), |v| j_u64(v, "event.timeUnixNano"), 0)?,
                        attrs: attrs_json(get(eo, "attributes"), "event.attributes")?,
                        other: String::new(),
                    });
                }
                out.spans.push(SpanRec {
                    scope: scope.clone(),
                    name: opt(get(o, "name"), |v| j_str(v, "span.name"), String::new())?,
                    kind: opt(get(o, "kind"), |v| j_i32(v, "span.kind"), 0)?,
                    start: opt(get(o, "startTimeUnixNano"), |v| j_u64(v, "startTimeUnixNano"), 0)?,
                    end: opt(get(o, "endTimeUnixNano"), |v| j_u64(v, "endTimeUnixNano"), 0)?,
                    attrs: attrs_json(get(o, "attributes"), "span.attributes")?,
                    trace_id: opt(get(o, "traceId"), |v| j_hex(v, "traceId", 16), Vec::new())?,
                    span_id: opt(get(o, "spanId"), |v| j_hex(v, "spanId", 8), Vec::new())?,
                    parent_span_id: opt(get(o, "parentSpanId"), |v| j_hex(v, "parentSpanId", 8), Vec::new())?,
                    status,
                    events,
                    other: String::new(),
                });
            }
        }
    }
    Ok(out)
}

fn points_json(v: &[JV]) -> R<Vec<Point>> {
    let mut out = Vec::new();
    for p in v {
        // "value" is what the pinned tree writes (and documents) instead of asInt/asDouble: read it so
        // the numbers can still be compared; the oracle reports the member name separately.
        let o = fields(p, "dataPoint", &["attributes", "startTimeUnixNano", "timeUnixNano", "asInt", "asDouble", "value"])?;
        let raw = |k: &str| o.iter().find(|(k2, _)| k2 == k).map(|(_, v)| v);
        let (value, value_field) = if let Some(v) = raw("asInt") {
            (PV::Int(j_i64(v, "asInt")?), "asInt")
        } else if let Some(v) = raw("asDouble") {
            (
                if v.is_null() { PV::DoubleNull } else { PV::Double(j_double(Some(v), false, "asDouble")?.unwrap()) },
                "asDouble",
            )
        } else if let Some(v) = raw("value") {
            (
                match v {
                    JV::Null => PV::DoubleNull,
                    JV::Num(t) if t.parse::<i64>().is_ok() && !t.contains(['.', 'e', 'E']) => PV::Int(t.parse().unwrap()),
                    other => PV::Double(j_double(Some(other), false, "value")?.unwrap()),
                },
                "value",
            )
        } else {
            (PV::None, "")
        };
        out.push(Point {
            attrs: attrs_json(get(o, "attributes"), "dataPoint.attributes")?,
            start: opt(get(o, "startTimeUnixNano"), |v| j_u64(v, "startTimeUnixNano"), 0)?,
            time: opt(get(o, "timeUnixNano"), |v| j_u64(v, "timeUnixNano"), 0)?,
            value,
            value_field,
            other: String::new(),
        });
    }
    Ok(out)
}

pub fn decode_metrics_json(root: &JV) -> R<Decoded> {
    let mut out = Decoded::default();
    let top = fields(root, "request", &["resourceMetrics"])?;
    for rm in arr(top, "resourceMetrics", "request")? {
        let rm = fields(rm, "resourceMetrics", &["resource", "scopeMetrics"])?;
        out.resources += resource_json(get(rm, "resource"))?;
        for sm in arr(rm, "scopeMetrics", "resourceMetrics")? {
            let sm = fields(sm, "scopeMetrics", &["scope", "metrics"])?;
            let scope = scope_json(get(sm, "scope"))?;
            for m in arr(sm, "metrics", "scopeMetrics")? {
                let o = fields(m, "metric", &["name", "unit", "gauge", "sum"])?;
                let data = match (get(o, "gauge"), get(o, "sum")) {
                    (Some(_), Some(_)) => return Err("metric: both gauge and sum set".into()),
                    (Some(g), None) => {
                        let go = fields(g, "gauge", &["dataPoints"])?;
                        MData::Gauge(points_json(arr(go, "dataPoints", "gauge")?)?)
                    }
                    (None, Some(s)) => {
                        let so = fields(s, "sum", &["dataPoints", "aggregationTemporality", "isMonotonic"])?;
                        MData::Sum {
                            points: points_json(arr(so, "dataPoints", "sum")?)?,
                            temporality: opt(get(so, "aggregationTemporality"), |v| j_i32(v, "aggregationTemporality"), 0)?,
                            monotonic: opt(get(so, "isMonotonic"), |v| j_bool(v, "isMonotonic"), false)?,
                        }
                    }
                    (None, None) => MData::None,
                };
                out.metrics.push(MetricRec {
                    scope: scope.clone(),
                    name: opt(get(o, "name"), |v| j_str(v, "metric.name"), String::new())?,
                    unit: opt(get(o, "unit"), |v| j_str(v, "metric.unit"), String::new())?,
                    data,
                    other: String::new(),
                });
            }
        }
    }
    Ok(out)
}

// ---------------------------------------------------------------------------------------------
// proto ⇔ JSON agreement ("denotes the same records")

fn dbl_agree(p: u64, j: u64) -> bool {
    let (pf, jf) = (f64::from_bits(p), f64::from_bits(j));
    if pf.is_nan() {
        return jf.is_nan();
    }
    p == j
}

pub fn av_agree(p: &AV, j: &AV) -> bool {
    match (p, j) {
        (AV::Double(pb), AV::DoubleNull) => !f64::from_bits(*pb).is_finite(),
        (AV::Double(pb), AV::Double(jb)) => dbl_agree(*pb, *jb),
        (AV::Array(a), AV::Array(b)) => a.len() == b.len() && a.iter().zip(b).all(|(x, y)| av_agree(x, y)),
        (AV::Kv(a), AV::Kv(b)) => a.len() == b.len() && a.iter().zip(b).all(|((k1, x), (k2, y))| k1 == k2 && av_agree(x, y)),
        (a, b) => a == b,
    }
}

pub fn attrs_agree(p: &Attrs, j: &Attrs) -> bool {
    // attribute order carries no meaning: compare by key (stable, so repeated keys keep their order)
    let sorted = |a: &Attrs| -> Vec<(String, AV)> {
        let mut v = a.clone();
        v.sort_by(|x, y| x.0.cmp(&y.0));
        v
    };
    let (p, j) = (sorted(p), sorted(j));
    p.len() == j.len() && p.iter().zip(&j).all(|((k1, x), (k2, y))| k1 == k2 && av_agree(x, y))
}

pub fn pv_agree(p: &PV, j: &PV) -> bool {
    match (p, j) {
        (PV::Double(pb), PV::DoubleNull) => !f64::from_bits(*pb).is_finite(),
        (PV::Double(pb), PV::Double(jb)) => dbl_agree(*pb, *jb),
        // a JSON reader that only sees `"value": 5` cannot tell 5 from 5.0
        (PV::Double(pb), PV::Int(ji)) => f64::from_bits(*pb) == *ji as f64 && (*ji as f64) as i64 == *ji,
        (a, b) => a == b,
    }
}

/// First difference between the protobuf and the JSON reading of the same event, if any.
pub fn disagreement(p: &Decoded, j: &Decoded) -> Option<String> {
    if p.logs.len() != j.logs.len() || p.spans.len() != j.spans.len() || p.metrics.len() != j.metrics.len() {
        return Some(format!(
            "record counts differ: proto logs/spans/metrics = {}/{}/{}, json = {}/{}/{}",
            p.logs.len(), p.spans.len(), p.metrics.len(), j.logs.len(), j.spans.len(), j.metrics.len()
        ));
    }
    if p.resources != j.resources {
        return Some("resource presence differs".into());
    }
    for (a, b) in p.logs.iter().zip(&j.logs) {
        let mut a2 = a.clone();
        let mut b2 = b.clone();
        let body_ok = match (&a.body, &b.body) {
            (Some(x), Some(y)) => av_agree(x, y),
            (None, None) => true,
            (Some(AV::Absent), None) | (None, Some(AV::Absent)) => true,
            _ => false,
        };
        if !body_ok || !attrs_agree(&a.attrs, &b.attrs) {
            return Some(format!("log record values differ: proto {a:?} json {b:?}"));
        }
        a2.body = None;
        b2.body = None;
        a2.attrs.clear();
        b2.attrs.clear();
        if a2 != b2 {
            return Some(format!("log record fields differ: proto {a2:?} json {b2:?}"));
        }
    }
    for (a, b) in p.spans.iter().zip(&j.spans) {
        let mut a2 = a.clone();
        let mut b2 = b.clone();
        if !attrs_agree(&a.attrs, &b.attrs) {
            return Some(format!("span attributes differ: proto {:?} json {:?}", a.attrs, b.attrs));
        }
        if a.events.len() != b.events.len()
            || a.events.iter().zip(&b.events).any(|(x, y)| x.name != y.name || x.time != y.time || x.other != y.other || !attrs_agree(&x.attrs, &y.attrs))
        {
            return Some(format!("span events differ: proto {:?} json {:?}", a.events, b.events));
        }
        a2.attrs.clear();
        b2.attrs.clear();
        a2.events.clear();
        b2.events.clear();
        if a2 != b2 {
            return Some(format!("span fields differ: proto {a2:?} json {b2:?}"));
        }
    }
    for (a, b) in p.metrics.iter().zip(&j.metrics) {
        if a.scope != b.scope || a.name != b.name || a.unit != b.unit || a.other != b.other {
            return Some(format!("metric fields differ: proto {a:?} json {b:?}"));
        }
        let (pa, pb): (&[Point], &[Point]) = match (&a.data, &b.data) {
            (MData::Gauge(x), MData::Gauge(y)) => (x, y),
            (
                MData::Sum { points: x, temporality: t1, monotonic: m1 },
                MData::Sum { points: y, temporality: t2, monotonic: m2 },
            ) => {
                if t1 != t2 || m1 != m2 {
                    return Some(format!("sum fields differ: proto {:?} json {:?}", a.data, b.data));
                }
                (x, y)
            }
            (MData::None, MData::None) => (&[], &[]),
            _ => return Some(format!("metric data kinds differ: proto {:?} json {:?}", a.data, b.data)),
        };
        if pa.len() != pb.len() {
            return Some(format!("point counts differ: proto {} json {}", pa.len(), pb.len()));
        }
        for (x, y) in pa.iter().zip(pb) {
            if x.start != y.start || x.time != y.time || x.other != y.other || !attrs_agree(&x.attrs, &y.attrs) || !pv_agree(&x.value, &y.value) {
                return Some(format!("data points differ: proto {x:?} json {y:?}"));
            }
        }
    }
    None
}
