//! A minimal ack-everything HTTP/1.1 listener on 127.0.0.1:0. Every request (path, content type,
//! body) is stored *before* `200 OK` is written, so once the emitter's `blocking_flush` has returned
//! the request is visible to the oracle. Keep-alive is honoured; nothing is scripted (fault scripts are
//! C12's business, not C13's).

use std::io::{Read, Write};
use std::net::{TcpListener, TcpStream};
use std::sync::{Arc, Mutex};

#[derive(Clone, Debug)]
pub struct Req {
    pub path: String,
    pub content_type: String,
    pub content_encoding: String,
    pub body: Vec<u8>,
}

pub struct Collector {
    pub port: u16,
    store: Arc<Mutex<Vec<Req>>>,
}

impl Collector {
    pub fn start() -> std::io::Result<Collector> {
        let listener = TcpListener::bind("127.0.0.1:0")?;
        let port = listener.local_addr()?.port();
        let store: Arc<Mutex<Vec<Req>>> = Arc::new(Mutex::new(Vec::new()));
        let st = store.clone();
        std::thread::Builder::new().name("c13-collector".into()).spawn(move || {
            for conn in listener.incoming() {
                let Ok(conn) = conn else { continue };
                let st = st.clone();
                let _ = std::thread::Builder::new().name("c13-conn".into()).spawn(move || serve(conn, st));
            }
        })?;
        Ok(Collector { port, store })
    }

    pub fn url(&self, path: &str) -> String {
        format!("http://127.0.0.1:{}/{}", self.port, path.trim_start_matches('/'))
    }

    /// Remove and return everything captured so far.
    pub fn take(&self) -> Vec<Req> {
        std::mem::take(&mut *self.store.lock().unwrap())
    }
}

fn find(hay: &[u8], needle: &[u8]) -> Option<usize> {
    hay.windows(needle.len()).position(|w| w == needle)
}

fn serve(mut conn: TcpStream, store: Arc<Mutex<Vec<Req>>>) {
    let _ = conn.set_nodelay(true);
    let mut buf: Vec<u8> = Vec::new();
    let mut tmp = [0u8; 16 * 1024];
    loop {
        // head
        let head_end = loop {
            if let Some(p) = find(&buf, b"\r\n\r\n") {
                break p + 4;
            }
            match conn.read(&mut tmp) {
                Ok(0) | Err(_) => return,
                Ok(n) => buf.extend_from_slice(&tmp[..n]),
            }
        };
        let head = String::from_utf8_lossy(&buf[..head_end]).into_owned();
        let mut lines = head.split("\r\n");
        let request_line = lines.next().unwrap_or("");
        let mut parts = request_line.split(' ');
        let _method = parts.next().unwrap_or("");
        let path = parts.next().unwrap_or("").to_string();
        let mut content_length = 0usize;
        let mut content_type = String::new();
        let mut content_encoding = String::new();
        let mut close = false;
        let mut chunked = false;
        for l in lines {
            let Some((k, v)) = l.split_once(':') else { continue };
            let v = v.trim();
            match k.trim().to_ascii_lowercase().as_str() {
                "content-length" => content_length = v.parse().unwrap_or(0),
                "content-type" => content_type = v.to_string(),
                "content-encoding" => content_encoding = v.to_string(),
                "connection" => close = v.eq_ignore_ascii_case("close"),
                "transfer-encoding" => chunked = v.to_ascii_lowercase().contains("chunked"),
                _ => {}
            }
        }
        if chunked {
            // never produced by emit_otlp (it sets content-length); refuse rather than mis-read
            let _ = conn.write_all(b"HTTP/1.1 411 Length Required\r\ncontent-length: 0\r\nconnection: close\r\n\r\n");
            return;
        }
        while buf.len() < head_end + content_length {
            match conn.read(&mut tmp) {
                Ok(0) | Err(_) => return,
                Ok(n) => buf.extend_from_slice(&tmp[..n]),
            }
        }
        let body = buf[head_end..head_end + content_length].to_vec();
        buf.drain(..head_end + content_length);
        store.lock().unwrap().push(Req { path, content_type, content_encoding, body });
        if conn.write_all(b"HTTP/1.1 200 OK\r\ncontent-length: 0\r\n\r\n").is_err() {
            return;
        }
        if close {
            return;
        }
    }
}
