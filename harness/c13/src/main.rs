use c13::event::*;
use c13::node::*;
use c13::sinks;
use emit::Emitter;

fn p(key: &str, node: Node, cap: Cap) -> Prop {
    Prop { key: key.into(), val: PV::Node { node, cap } }
}

fn probe() {
    let mut evs: Vec<Ev> = Vec::new();
    let base = |props: Vec<Prop>| Ev {
        mdl: vec!["a".into(), "b".into()],
        tpl: vec![TplPart::Text("hello ".into()), TplPart::Hole("x".into())],
        extent: Ext::Point(Ts(1_700_000_000, 123)),
        props,
    };
    let shapes: Vec<(&str, Node)> = vec![
        ("null", Node::Null), ("unit", Node::Unit), ("none", Node::None), ("some", Node::Some(Box::new(Node::I32(5)))),
        ("t", Node::Bool(true)), ("i0", Node::I64(0)), ("u64max", Node::U64(u64::MAX)), ("i128min", Node::i128(i128::MIN)),
        ("u128small", Node::u128(7)), ("f0", Node::f64(0.0)), ("fneg0", Node::f64(-0.0)), ("nan", Node::f64(f64::NAN)), ("inf", Node::f64(f64::INFINITY)),
        ("f32", Node::f32(0.1)), ("str", Node::str("a\n\"\u{1b}é😀\0")), ("empty", Node::str("")), ("chr", Node::Char('x')), ("bytes", Node::Bytes(vec![0, 255, 7])),
        ("bytes0", Node::Bytes(vec![])),
        ("seq", Node::Seq(vec![Node::I32(1), Node::Null, Node::str("s"), Node::Seq(vec![])])),
        ("tuple", Node::Tuple(vec![Node::I32(1), Node::Bool(false)])),
        ("map", Node::Map(vec![(Node::str("k"), Node::I32(1)), (Node::str("n"), Node::Map(vec![]))])),
        ("strct", Node::Struct { name: 0, first: 0, fields: vec![Node::I32(1), Node::Seq(vec![Node::I32(2), Node::I32(3)])] }),
        ("vunit", Node::Variant { name: 2, variant: 1, body: VBody::Unit }),
        ("vnew", Node::Variant { name: 2, variant: 1, body: VBody::Newtype(Box::new(Node::I32(9))) }),
        ("vtup", Node::Variant { name: 2, variant: 1, body: VBody::Tuple(vec![Node::I32(9), Node::I32(8)]) }),
        ("vstr", Node::Variant { name: 2, variant: 1, body: VBody::Struct { first: 0, fields: vec![Node::I32(9)] } }),
        ("oddkeys", Node::Map(vec![(Node::Null, Node::I32(1)), (Node::u128(u128::MAX), Node::I32(2)), (Node::Char('c'), Node::I32(3)), (Node::Variant { name: 2, variant: 1, body: VBody::Unit }, Node::I32(4)), (Node::Some(Box::new(Node::str("sk"))), Node::I32(5))])),
    ];
    for cap in [Cap::Sval, Cap::Serde] {
        let mut props = vec![p("x", Node::I32(1), Cap::Prim)];
        for (k, n) in &shapes {
            props.push(p(k, n.clone(), cap.clone()));
        }
        evs.push(base(props));
    }
    // well-known + dups + display/debug/error
    evs.push(base(vec![
        p("x", Node::str("X"), Cap::Prim), p("x", Node::I32(2), Cap::Prim),
        Prop { key: "lvl".into(), val: PV::Level(2) }, Prop { key: "lvl".into(), val: PV::Level(0) },
        Prop { key: "trace_id".into(), val: PV::TraceId("255".into()) }, Prop { key: "span_id".into(), val: PV::SpanId(77) },
        Prop { key: "err".into(), val: PV::Error(vec!["top".into(), "mid".into(), "root".into()]) },
        p("disp", Node::Seq(vec![Node::I32(1)]), Cap::Display), p("dbg", Node::str("q"), Cap::Debug),
        Prop { key: "ulvl".into(), val: PV::Level(3) },
    ]));
    // span
    evs.push(Ev { mdl: vec!["sp".into()], tpl: vec![TplPart::Text("span msg".into())], extent: Ext::Range(Ts(1_700_000_000, 0), Ts(1_700_000_001, 5)),
        props: vec![Prop { key: "evt_kind".into(), val: PV::Kind(0) }, p("span_name", Node::str("the span"), Cap::Prim),
            p("trace_id", Node::str("0123456789ABCDEF0123456789abcdef"), Cap::Prim), p("span_id", Node::str("0123456789abcdef"), Cap::Prim),
            Prop { key: "span_parent".into(), val: PV::SpanId(5) }, Prop { key: "lvl".into(), val: PV::Level(3) },
            Prop { key: "err".into(), val: PV::Error(vec!["boom".into(), "cause".into()]) }, p("user", Node::I32(1), Cap::Prim), p("user", Node::I32(2), Cap::Prim)] });
    // metrics
    for (agg, val) in [("count", Node::I32(42)), ("sum", Node::Seq(vec![Node::f64(1.5), Node::I32(2)])), ("last", Node::Seq(vec![Node::I32(1), Node::f64(f64::NAN), Node::I32(3)])), ("min", Node::f64(f64::INFINITY)), ("sum", Node::f64(f64::NAN))] {
        evs.push(Ev { mdl: vec!["me".into()], tpl: vec![TplPart::Text("metric msg".into())], extent: Ext::Range(Ts(1_700_000_000, 0), Ts(1_700_000_003, 0)),
            props: vec![Prop { key: "evt_kind".into(), val: PV::Kind(1) }, p("metric_name", Node::str("m1"), Cap::Prim), p("metric_agg", Node::str(agg), Cap::Prim),
                p("metric_value", val, Cap::Sval), p("metric_unit", Node::str("ms"), Cap::Prim), p("metric_unit", Node::str("s"), Cap::Prim),
                p("user", Node::I32(1), Cap::Prim), p("user", Node::I32(2), Cap::Prim), Prop { key: "lvl".into(), val: PV::Level(2) }] });
    }
    for ev in &evs {
        println!("=== EVENT {}", serde_json::to_string(ev).unwrap());
        sinks::with_pipeline(|pl| {
            for (name, em) in [("full_proto", &pl.full_proto), ("full_json", &pl.full_json), ("logs_proto", &pl.logs_proto), ("logs_json", &pl.logs_json)] {
                match vcore::catch(|| ev.with_event(|e| em.emit(e))) {
                    Ok(()) => {}
                    Err(f) => println!("  {name}: PANIC {} {}", f.sig, f.msg),
                }
                assert!(em.blocking_flush(sinks::FLUSH));
            }
            match vcore::catch(|| ev.with_event(|e| pl.file.emit(e))) {
                Ok(()) => {}
                Err(f) => println!("  file: PANIC {} {}", f.sig, f.msg),
            }
            assert!(pl.file.blocking_flush(sinks::FLUSH));
            println!("  FILE: {}", String::from_utf8_lossy(&pl.new_file_bytes().unwrap()));
            for r in pl.take_requests() {
                if r.content_type.contains("json") {
                    println!("  REQ {} [{}]: {}", r.path, r.content_type, String::from_utf8_lossy(&r.body));
                } else {
                    let d = if r.path.ends_with("logs") { c13::otlp::decode_logs_proto(&r.body) } else if r.path.ends_with("traces") { c13::otlp::decode_traces_proto(&r.body) } else { c13::otlp::decode_metrics_proto(&r.body) };
                    println!("  REQ {} [{}]: {:?}", r.path, r.content_type, d);
                }
            }
        });
        let t = sinks::run_term_child(ev).unwrap();
        println!("  TERM ok={} plain={:?} coloured={:?} stderr={:?}", t.status_ok, String::from_utf8_lossy(&t.plain), String::from_utf8_lossy(&t.coloured), t.stderr);
    }
    sinks::shutdown();
}

fn main() {
    let args: Vec<String> = std::env::args().collect();
    if args.get(1).map(|s| s.as_str()) == Some(sinks::TERM_CHILD_ARG) {
        sinks::term_child_main();
    }
    if args.get(1).map(|s| s.as_str()) == Some("probe") {
        probe();
        return;
    }
}
