// stub: check for C13 not built yet
fn main() {
    eprintln!("C13: check not built yet");
    std::process::exit(2);
}
