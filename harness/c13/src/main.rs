//! C13 check binary: generators + registration. Oracles live in `lib.rs`.
//!
//! Hidden sub-commands: `--c13-term-child` (the terminal-writer child process, see `sinks.rs`) and
//! `show <case-or-replay.json>` (dump what every sink produces for one case; debugging aid).

use c13::event::*;
use c13::node::{self, Node};
use c13::sinks;
use c13::{check_event, Sinks, ALL_SINKS, RESERVED, WELL_KNOWN};
use emit::Emitter;
use vcore::proptest::prelude::*;

const RULE: &str = "Each case is one event specification (module, template parts with holes, extent none/point/range, ordered property list) whose property values come from a recursive value grammar (null/unit, bool, every integer width at its extremes incl. 128-bit, f32/f64 incl. NaN/±inf/-0, text with control and non-ASCII characters, bytes, options, sequences, tuples, maps with text and non-text keys, structs, enum variants of every form, error chains) captured through from_sval / from_serde / from_display / from_debug / capture_error / plain primitives / typed emit::Level, Kind, TraceId, SpanId; generators build log, span and metric events (well-known keys as typed values and as text, valid and invalid), append duplicates of existing keys and shuffle the list. The event is driven through the real rolling-file writer, four real emit_otlp emitters (all signals x protobuf/JSON, logs-only x protobuf/JSON) against a local HTTP listener, and the real terminal writer in a child process (plain and coloured). A case is NON-TRIVIAL when a structured value has depth >= 2, or a property key is duplicated, or a map has a non-text key, or a 128-bit integer outside i64 or a non-finite float occurs.";

const ASSUMPTIONS: [&str; 12] = [
    "prost decoding with the types generated in the repository (emitter/otlp/src/data/generated) is taken as 'decodes with the official schema'; prost skips unknown fields, so fields the model does not know are only noticed through the JSON side (unknown JSON members are errors)",
    "the JSON reader is lenient exactly where DESIGN §C13 says representation is don't-care: 64-bit integers and nanosecond times as numbers or strings, bytesValue as number array or base64, non-finite doubles as null (or the proto3 strings), absent AnyValue as null / {} / missing, resource null; ids must be hex of the right length",
    "protobuf⇔JSON agreement is judged on the normalised records; non-finite doubles are compared on the protobuf side only; attribute order is not compared when keys are unique",
    "reference mapping is asserted on the documented core (null, bool, integers, floats, text, bytes, options, sequences/tuples → arrays, text-keyed maps/structs → kvlist / JSON object; integers outside i64 → decimal text in OTLP, bare number tokens in the file); enum variants and maps with non-text keys are judged on well-formedness, no-panic and protobuf⇔JSON agreement only",
    "property keys exclude the five names the macros reserve (mdl, tpl, msg, ts, ts_start), exception.* and — except where a generator places them deliberately — the well-known keys; keys inside one map value are pairwise distinct",
    "well-known properties with values outside their domain (lvl that is not a level, ids that are not ids, metric_agg that is not text …) are don't-care: only no-panic, well-formedness and protobuf⇔JSON agreement are required; an absent lvl asserts nothing about severity/status",
    "which OTLP signal an event is routed to is C14's property: the oracle applies the log / span / metric mapping to whatever record arrived and only requires exactly one record per emitter",
    "timestamps beyond 2554-07-21 do not fit OTLP's fixed64 nanoseconds: OTLP times are then don't-care (the file must still be exact)",
    "metric sums are compared with a left fold in f64/i64 (integer overflow and empty sequences are don't-care); gauge points must be one per sample with contiguous, monotone time slices inside the extent (slice width not asserted)",
    "the message is compared with the harness' reference rendering when every hole refers to a value whose Display text the harness owns (primitives, text captures, typed well-known values, errors, missing keys); otherwise only cross-sink equality of the rendered message is required (template rendering itself is C16)",
    "terminal writer: child exits 0, plain and coloured output non-empty and containing the template text and plainly rendered holes in order; local-time formatting, colours and layout are not asserted",
    "one emitter instance serves many cases sequentially (exclusive use per case, flush after every case): effects that need several events in one batch/request are C12's property",
];

// ---------------------------------------------------------------------------------------------
// strategies

fn safe_key(mut k: String) -> String {
    while RESERVED.contains(&k.as_str()) || WELL_KNOWN.contains(&k.as_str()) || k.starts_with("exception.") {
        k.push('_');
    }
    k
}

fn user_key() -> impl Strategy<Value = String> {
    prop_oneof![
        4 => "[a-z][a-z0-9_]{0,6}".prop_map(safe_key),
        2 => node::text().prop_map(safe_key),
        1 => prop::sample::select(vec!["user", "a", "k", "http.method", "Lvl", "ts ", "msg2"]).prop_map(|s| safe_key(s.to_string())),
    ]
}

fn cap() -> impl Strategy<Value = Cap> {
    prop_oneof![4 => Just(Cap::Sval), 4 => Just(Cap::Serde), 3 => Just(Cap::Prim), 1 => Just(Cap::Display), 1 => Just(Cap::Debug)]
}

fn any_node() -> impl Strategy<Value = Node> {
    prop_oneof![3 => node::node(false), 1 => node::node(true)]
}

fn chain() -> impl Strategy<Value = Vec<String>> {
    prop::collection::vec(node::text(), 1..4)
}

fn nz128() -> impl Strategy<Value = u128> {
    prop_oneof![Just(1u128), Just(u128::MAX), Just(255u128), any::<u128>().prop_map(|v| v.max(1))]
}
fn nz64() -> impl Strategy<Value = u64> {
    prop_oneof![Just(1u64), Just(u64::MAX), Just(77u64), any::<u64>().prop_map(|v| v.max(1))]
}

fn user_value() -> impl Strategy<Value = PV> {
    prop_oneof![
        16 => (any_node(), cap()).prop_map(|(node, cap)| PV::Node { node, cap }),
        1 => (0u8..4).prop_map(PV::Level),
        1 => nz128().prop_map(|v| PV::TraceId(v.to_string())),
        1 => nz64().prop_map(PV::SpanId),
        1 => chain().prop_map(PV::Error),
    ]
}

fn prim(node: Node) -> PV {
    PV::Node { node, cap: Cap::Prim }
}
fn strp(s: &str) -> PV {
    prim(Node::Str(s.to_string()))
}

fn lvl_value() -> impl Strategy<Value = PV> {
    prop_oneof![
        5 => (0u8..4).prop_map(PV::Level),
        3 => prop::sample::select(LEVELS.to_vec()).prop_map(strp),
        1 => prop::sample::select(LEVELS.to_vec()).prop_map(|s| PV::Node { node: Node::Str(s.to_string()), cap: Cap::Sval }),
        2 => prop::sample::select(vec!["WRN(3)", "Warning", "INFO", "dbg", " warn ", "err", "Error!"]).prop_map(strp),
        2 => prop_oneof![Just(prim(Node::I32(42))), Just(strp("bogus")), Just(prim(Node::Null)), Just(strp(""))],
    ]
}

fn err_value() -> impl Strategy<Value = PV> {
    prop_oneof![
        6 => chain().prop_map(PV::Error),
        2 => node::text().prop_map(|s| prim(Node::Str(s))),
        2 => (any_node(), prop_oneof![Just(Cap::Sval), Just(Cap::Serde)]).prop_map(|(node, cap)| PV::Node { node, cap }),
    ]
}

fn trace_id_value() -> impl Strategy<Value = PV> {
    prop_oneof![
        5 => nz128().prop_map(|v| PV::TraceId(v.to_string())),
        2 => nz128().prop_map(|v| strp(&format!("{v:032x}"))),
        1 => nz128().prop_map(|v| strp(&format!("{v:032X}"))),
        1 => nz128().prop_map(|v| PV::Node { node: Node::Str(format!("{v:032x}")), cap: Cap::Serde }),
        1 => nz128().prop_map(|v| prim(Node::u128(v))),
        1 => prop_oneof![Just(strp("xyz")), Just(strp("0123456789abcdef0123456789abcde")), Just(strp("00000000000000000000000000000000")), Just(prim(Node::Bool(true))), Just(strp("0123456789abcdef0123456789abcdeg"))],
    ]
}

fn span_id_value() -> impl Strategy<Value = PV> {
    prop_oneof![
        5 => nz64().prop_map(PV::SpanId),
        2 => nz64().prop_map(|v| strp(&format!("{v:016x}"))),
        1 => nz64().prop_map(|v| strp(&format!("{v:016X}"))),
        1 => nz64().prop_map(|v| PV::Node { node: Node::Str(format!("{v:016x}")), cap: Cap::Sval }),
        1 => nz64().prop_map(|v| prim(Node::U64(v))),
        1 => prop_oneof![Just(strp("")), Just(strp("0123456789abcde")), Just(strp("0000000000000000")), Just(prim(Node::f64(1.5))), Just(strp("é123456789abcde"))],
    ]
}

fn ts() -> impl Strategy<Value = Ts> {
    let secs = prop_oneof![
        2 => Just(0u64),
        4 => Just(1_700_000_000u64),
        2 => 0u64..4_102_444_800,
        1 => Just(18_446_744_073u64),
        1 => Just(18_446_744_074u64),
        1 => Just(MAX_SECS),
        2 => 0u64..=MAX_SECS,
    ];
    let nanos = prop_oneof![2 => Just(0u32), 1 => Just(1u32), 1 => Just(999_999_999u32), 1 => Just(123_000_000u32), 2 => 0u32..1_000_000_000];
    (secs, nanos).prop_map(|(s, n)| Ts(s, n))
}

fn range() -> impl Strategy<Value = Ext> {
    (ts(), ts(), prop_oneof![Just(0u64), Just(1), Just(1_000_000_000), 0u64..10_000_000_000_000, Just(u64::MAX), Just(u64::MAX - 1)]).prop_map(|(a, b, d)| {
        // start ≤ end by construction: either two ordered instants or start + a duration
        if d == u64::MAX {
            // the empty range: a span that starts and ends within one clock reading is still a range (Extent::range docs)
            Ext::Range(a, a)
        } else if d == u64::MAX - 1 {
            // an INVERTED range (the clock stepped back while a span was open): Extent::range accepts any range, and
            // "any extent" is in the statement -- no sink may panic on it
            if a.nanos() <= b.nanos() { Ext::Range(b, a) } else { Ext::Range(a, b) }
        } else if d % 2 == 0 {
            if a.nanos() <= b.nanos() { Ext::Range(a, b) } else { Ext::Range(b, a) }
        } else {
            let end = (a.nanos() + d as u128).min(MAX_SECS as u128 * 1_000_000_000 + 999_999_999);
            Ext::Range(a, Ts((end / 1_000_000_000) as u64, (end % 1_000_000_000) as u32))
        }
    })
}

fn extent(w_none: u32, w_point: u32, w_range: u32) -> impl Strategy<Value = Ext> {
    prop_oneof![w_none => Just(Ext::None), w_point => ts().prop_map(Ext::Point), w_range => range()]
}

fn mdl() -> impl Strategy<Value = Vec<String>> {
    prop::collection::vec("[a-z][a-z0-9_]{0,5}", 1..4)
}

#[derive(Clone, Debug)]
enum TplSpec {
    Text(String),
    Hole(u32),
}

fn tpl_spec() -> impl Strategy<Value = Vec<TplSpec>> {
    prop::collection::vec(
        prop_oneof![
            3 => prop_oneof![4 => "[a-zA-Z ,.!]{1,8}", 1 => node::text()].prop_map(TplSpec::Text),
            2 => any::<u32>().prop_map(TplSpec::Hole),
        ],
        0..5,
    )
}

fn user_props(max: usize) -> impl Strategy<Value = Vec<Prop>> {
    prop::collection::vec((user_key(), user_value()).prop_map(|(key, val)| Prop { key, val }), 0..max)
}

/// Assemble: well-known + user props, duplicates of existing keys, shuffle, resolve template holes.
fn assemble(
    mdl: Vec<String>,
    tpl: Vec<TplSpec>,
    extent: Ext,
    mut props: Vec<Prop>,
    dups: Vec<(u32, PV)>,
    order: Vec<u32>,
) -> Ev {
    for (i, val) in dups {
        if props.is_empty() {
            break;
        }
        let key = props[vcore::pick(i, props.len())].key.clone();
        // a duplicate of a well-known key keeps that key's value family where it matters most
        props.push(Prop { key, val });
    }
    // shuffle with generated sort keys (stable; shrinks towards the unshuffled order)
    let mut keyed: Vec<(u32, Prop)> = props.into_iter().enumerate().map(|(i, p)| (order.get(i).copied().unwrap_or(0), p)).collect();
    keyed.sort_by_key(|(k, _)| *k);
    let props: Vec<Prop> = keyed.into_iter().map(|(_, p)| p).collect();
    let tpl = tpl
        .into_iter()
        .map(|t| match t {
            TplSpec::Text(s) => TplPart::Text(s),
            TplSpec::Hole(i) => {
                let n = vcore::pick(i, props.len() + 1);
                TplPart::Hole(if n < props.len() { props[n].key.clone() } else { "missing_key".to_string() })
            }
        })
        .collect();
    Ev { mdl, tpl, extent, props, layout: Layout::default() }
}

fn dups() -> impl Strategy<Value = Vec<(u32, PV)>> {
    prop_oneof![
        5 => Just(Vec::new()),
        5 => prop::collection::vec(
            (any::<u32>(), prop_oneof![3 => user_value(), 1 => lvl_value(), 1 => prop::sample::select(vec!["s", "ms", "other"]).prop_map(strp)]),
            1..3
        ),
    ]
}

fn order() -> impl Strategy<Value = Vec<u32>> {
    prop_oneof![1 => Just(Vec::new()), 2 => prop::collection::vec(0u32..4, 0..12)]
}

fn opt<S: Strategy<Value = PV>>(key: &'static str, w_none: u32, w_some: u32, s: S) -> impl Strategy<Value = Option<Prop>> {
    prop_oneof![w_none => Just(None), w_some => s.prop_map(move |val| Some(Prop { key: key.to_string(), val }))]
}

fn log_event() -> impl Strategy<Value = Ev> {
    let wk = (
        opt("lvl", 4, 6, lvl_value()),
        opt("err", 6, 4, err_value()),
        opt("trace_id", 5, 5, trace_id_value()),
        opt("span_id", 5, 5, span_id_value()),
    );
    (mdl(), tpl_spec(), extent(1, 6, 3), wk, user_props(5), dups(), order()).prop_map(|(mdl, tpl, extent, wk, user, dups, order)| {
        let mut props: Vec<Prop> = [wk.0, wk.1, wk.2, wk.3].into_iter().flatten().collect();
        props.extend(user);
        assemble(mdl, tpl, extent, props, dups, order)
    })
}

fn span_event() -> impl Strategy<Value = Ev> {
    let kind = prop_oneof![7 => Just(PV::Kind(0)), 3 => Just(strp("span"))];
    let wk = (
        opt("span_name", 3, 7, prop_oneof![6 => node::text().prop_map(|s| prim(Node::Str(s))), 1 => any_node().prop_map(|node| PV::Node { node, cap: Cap::Display })]),
        opt("trace_id", 1, 9, trace_id_value()),
        opt("span_id", 1, 9, span_id_value()),
        opt("span_parent", 5, 5, span_id_value()),
        opt("lvl", 4, 6, lvl_value()),
        opt("err", 5, 5, err_value()),
    );
    (mdl(), tpl_spec(), extent(1, 1, 18), kind, wk, user_props(4), dups(), order()).prop_map(|(mdl, tpl, extent, kind, wk, user, dups, order)| {
        let mut props = vec![Prop { key: "evt_kind".into(), val: kind }];
        props.extend([wk.0, wk.1, wk.2, wk.3, wk.4, wk.5].into_iter().flatten());
        props.extend(user);
        assemble(mdl, tpl, extent, props, dups, order)
    })
}

fn sample() -> impl Strategy<Value = Node> {
    prop_oneof![4 => node::int_leaf(), 4 => node::float_leaf(), 1 => node::wide_leaf()]
}

fn metric_value() -> impl Strategy<Value = PV> {
    let node = prop_oneof![
        6 => sample(),
        6 => prop::collection::vec(sample(), 0..7).prop_map(Node::Seq),
        1 => prop::collection::vec(sample(), 1..4).prop_map(Node::Tuple),
        1 => sample().prop_map(|s| Node::Some(Box::new(s))),
        // not numeric / not flat
        1 => prop_oneof![Just(Node::str("12")), Just(Node::Bool(true)), Just(Node::Null), Just(Node::None), Just(Node::U64(u64::MAX))],
        1 => prop::collection::vec(prop::collection::vec(sample(), 0..3).prop_map(Node::Seq), 1..3).prop_map(Node::Seq),
        1 => prop::collection::vec(prop_oneof![sample(), Just(Node::Null), Just(Node::str("x"))], 1..4).prop_map(Node::Seq),
        1 => any_node(),
    ];
    (node, prop_oneof![Just(Cap::Sval), Just(Cap::Serde), Just(Cap::Prim)]).prop_map(|(node, cap)| PV::Node { node, cap })
}

fn metric_event() -> impl Strategy<Value = Ev> {
    let kind = prop_oneof![7 => Just(PV::Kind(1)), 3 => Just(strp("metric"))];
    let agg = prop_oneof![
        8 => prop::sample::select(vec!["sum", "count", "last", "min", "max", "p99", "Sum", ""]).prop_map(strp),
        1 => Just(prim(Node::I32(1))),
        1 => Just(PV::Node { node: Node::str("count"), cap: Cap::Serde }),
    ];
    let wk = (
        opt("metric_name", 2, 8, node::text().prop_map(|s| prim(Node::Str(s)))),
        opt("metric_agg", 1, 9, agg),
        opt("metric_value", 1, 19, metric_value()),
        opt("metric_unit", 4, 6, prop_oneof![4 => prop::sample::select(vec!["ms", "s", "By", "1", ""]).prop_map(strp), 1 => node::text().prop_map(|s| prim(Node::Str(s)))]),
        opt("lvl", 7, 3, lvl_value()),
        opt("err", 9, 1, err_value()),
        opt("trace_id", 9, 1, trace_id_value()),
    );
    (mdl(), tpl_spec(), extent(1, 4, 5), kind, wk, user_props(4), dups(), order()).prop_map(|(mdl, tpl, extent, kind, wk, user, dups, order)| {
        let mut props = vec![Prop { key: "evt_kind".into(), val: kind }];
        props.extend([wk.0, wk.1, wk.2, wk.3, wk.4, wk.5, wk.6].into_iter().flatten());
        props.extend(user);
        assemble(mdl, tpl, extent, props, dups, order)
    })
}

/// Metric time-series for the terminal sparkline: any bucket values.
fn sparkline_event() -> impl Strategy<Value = Ev> {
    let bucket = prop_oneof![6 => node::float_leaf(), 2 => node::int_leaf(), 1 => node::wide_leaf(), 1 => Just(Node::Null), 1 => Just(Node::Bool(true))];
    let value = prop_oneof![
        8 => prop::collection::vec(bucket.clone(), 0..9).prop_map(Node::Seq),
        1 => prop::collection::vec(bucket.clone(), 0..4).prop_map(Node::Tuple),
        1 => bucket,
    ];
    (mdl(), extent(1, 3, 6), value, prop_oneof![Just(Cap::Sval), Just(Cap::Serde)], opt("lvl", 5, 5, lvl_value()), opt("err", 8, 2, err_value())).prop_map(
        |(mdl, extent, node, cap, lvl, err)| {
            let mut props = vec![
                Prop { key: "evt_kind".into(), val: PV::Kind(1) },
                Prop { key: "metric_name".into(), val: strp("m") },
                Prop { key: "metric_agg".into(), val: strp("last") },
                Prop { key: "metric_value".into(), val: PV::Node { node, cap } },
            ];
            props.extend(lvl);
            props.extend(err);
            Ev { mdl, tpl: vec![TplPart::Text("series ".into()), TplPart::Hole("metric_name".into())], extent, props, layout: Layout::default() }
        },
    )
}

/// A value of the family the key belongs to (so that a shadowed well-known property is a *valid* one and
/// "which occurrence won" is visible in the dedicated field).
fn same_family(key: &str, seed: u32) -> PV {
    match key {
        "lvl" => PV::Level((seed % 4) as u8),
        "trace_id" => PV::TraceId((seed as u128 * 0x1_0000_0001 + 1).to_string()),
        "span_id" | "span_parent" => PV::SpanId(seed as u64 * 0x1_0001 + 1),
        "metric_unit" => strp(["s", "ms", "By", "1"][(seed % 4) as usize]),
        "metric_name" | "span_name" => strp(["alpha", "beta", "gamma"][(seed % 3) as usize]),
        "evt_kind" => PV::Kind((seed % 2) as u8),
        _ => prim(Node::I64(seed as i64)),
    }
}

/// Values a `ThreadLocalCtxt` frame carries without C19's buffering clause coming into play: primitives,
/// text, typed well-known values.
fn ambient_safe(pv: &PV) -> bool {
    match pv {
        PV::Node { node, cap: Cap::Prim | Cap::Display | Cap::Debug } => {
            !matches!(cap_of(pv), Cap::Prim) || matches!(node, Node::Bool(_) | Node::I8(_) | Node::I16(_) | Node::I32(_) | Node::I64(_) | Node::U8(_) | Node::U16(_) | Node::U32(_) | Node::U64(_) | Node::Str(_) | Node::F64(_))
        }
        PV::Level(_) | PV::Kind(_) | PV::TraceId(_) | PV::SpanId(_) => true,
        _ => false,
    }
}
fn cap_of(pv: &PV) -> Cap {
    match pv {
        PV::Node { cap, .. } => cap.clone(),
        _ => Cap::Prim,
    }
}

#[derive(Clone, Debug)]
struct LayoutSpec {
    groups: Vec<(u32, u8)>,
    all_unique: bool,
    frames: Vec<u32>,
    runtime: bool,
    erased: bool,
}

fn layout_spec() -> impl Strategy<Value = LayoutSpec> {
    (
        prop::collection::vec((1u32..4, 0u8..4), 1..6),
        prop::bool::weighted(0.75),
        prop_oneof![5 => Just(Vec::new()), 4 => prop::collection::vec(1u32..4, 1..2), 1 => prop::collection::vec(1u32..3, 2..3)],
        prop::bool::weighted(0.3),
        prop::bool::weighted(0.2),
    )
        .prop_map(|(groups, all_unique, frames, runtime, erased)| LayoutSpec { groups, all_unique, frames, runtime, erased })
}

/// Events whose duplicate keys straddle collections that each claim `is_unique()`: own properties as
/// tuples / `BTreeMap`s / `dedup()`ed slices concatenated with `and_props`, and events emitted through a
/// real `Runtime` whose `ThreadLocalCtxt` frame carries properties the event's own ones shadow.
fn straddle_event() -> impl Strategy<Value = Ev> {
    (
        prop_oneof![2 => log_event(), 1 => span_event(), 1 => metric_event()],
        layout_spec(),
        prop::collection::vec((any::<u32>(), any::<u32>(), any::<bool>()), 0..3),
        prop::collection::vec(any::<u32>(), 12),
    )
        .prop_map(|(mut ev, spec, extra, seeds)| {
            // extra shadowed properties, appended (= ambient / later collections), most of them well-known
            for (i, seed, well_known) in extra {
                if ev.props.is_empty() {
                    break;
                }
                let wk: Vec<usize> = ev
                    .props
                    .iter()
                    .enumerate()
                    .filter(|(_, p)| matches!(p.key.as_str(), "lvl" | "trace_id" | "span_id" | "span_parent" | "metric_unit"))
                    .map(|(i, _)| i)
                    .collect();
                let src = if well_known && !wk.is_empty() { wk[vcore::pick(i, wk.len())] } else { vcore::pick(i, ev.props.len()) };
                let key = ev.props[src].key.clone();
                let val = same_family(&key, seed);
                ev.props.push(Prop { key, val });
            }
            // give every occurrence of a repeated well-known key a valid value of its family (2 in 3)
            for i in 0..ev.props.len() {
                let key = ev.props[i].key.clone();
                let repeated = ev.props.iter().filter(|p| p.key == key).count() > 1;
                let seed = seeds[i % seeds.len()];
                if repeated && matches!(key.as_str(), "lvl" | "trace_id" | "span_id" | "span_parent" | "metric_unit") && seed % 3 != 0 {
                    ev.props[i].val = same_family(&key, seed / 3 + i as u32);
                }
            }
            // frames: only values a frame carries verbatim; keep the tail run that qualifies
            let n = ev.props.len();
            let mut frames: Vec<u32> = Vec::new();
            let mut end = n;
            for len in spec.frames.iter().rev() {
                let mut len = (*len as usize).min(end);
                while len > 0 && !ev.props[end - len..end].iter().all(|p| ambient_safe(&p.val)) {
                    len -= 1;
                }
                if len == 0 {
                    break;
                }
                frames.insert(0, len as u32);
                end -= len;
            }
            let kinds = [GKind::Tuple, GKind::Map, GKind::Dedup, GKind::Slice];
            let mut groups = Vec::new();
            let mut at = 0;
            for (len, k) in &spec.groups {
                if at >= end {
                    break;
                }
                let mut kind = kinds[*k as usize % 4];
                if spec.all_unique && kind == GKind::Slice {
                    kind = GKind::Dedup;
                }
                let len = if kind == GKind::Tuple { 1 } else { (*len as usize).min(end - at) };
                groups.push(Group { len: len as u32, kind });
                at += len;
            }
            if at < end {
                // cover the remainder so that no implicit slice spoils an all-unique layout
                groups.push(Group { len: (end - at) as u32, kind: if spec.all_unique { GKind::Map } else { GKind::Slice } });
            }
            ev.layout = Layout { groups, frames, runtime: spec.runtime, erased: spec.erased };
            ev
        })
}

// ---------------------------------------------------------------------------------------------
// `show`: dump what every sink produces for one case

fn show(path: &str) {
    let text = std::fs::read_to_string(path).expect("read case file");
    let j: serde_json::Value = serde_json::from_str(&text).expect("json");
    let case = if j.get("case").is_some() { j["case"].clone() } else { j };
    let ev: Ev = serde_json::from_value(case).expect("case does not deserialise as an event");
    c13::QUIET_CAUGHT_PANICS.store(true, std::sync::atomic::Ordering::Relaxed);
    println!("EVENT {ev:#?}");
    println!("reference msg = {:?}", ev.ref_msg());
    sinks::with_pipeline(|pl| {
        for (name, em) in [("all-signals/protobuf", &pl.full_proto), ("all-signals/json", &pl.full_json), ("logs/protobuf", &pl.logs_proto), ("logs/json", &pl.logs_json)] {
            if let Err(f) = c13::catch_emit(|| ev.emit_to(em)) {
                println!("otlp {name}: PANIC on the emitting thread: {}", f.msg);
            }
            em.blocking_flush(sinks::FLUSH);
        }
        if let Err(f) = c13::catch_emit(|| ev.emit_to(&pl.file)) {
            println!("file: PANIC on the emitting thread: {}", f.msg);
        }
        pl.file.blocking_flush(sinks::FLUSH);
        println!("FILE {}", String::from_utf8_lossy(&pl.new_file_bytes().unwrap()));
        for r in pl.take_requests() {
            if r.content_type.contains("json") {
                println!("REQUEST {} [{}]\n  {}", r.path, r.content_type, String::from_utf8_lossy(&r.body));
            } else {
                let d = if r.path.ends_with("logs") {
                    c13::otlp::decode_logs_proto(&r.body)
                } else if r.path.ends_with("traces") {
                    c13::otlp::decode_traces_proto(&r.body)
                } else {
                    c13::otlp::decode_metrics_proto(&r.body)
                };
                println!("REQUEST {} [{}]\n  {:?}", r.path, r.content_type, d);
            }
        }
    });
    match sinks::run_term_child(&ev) {
        Ok(t) => println!("TERM status={} plain={:?} coloured={:?} stderr={:?}", t.status, String::from_utf8_lossy(&t.plain), String::from_utf8_lossy(&t.coloured), t.stderr),
        Err(e) => println!("TERM child failed to start: {e}"),
    }
    sinks::shutdown();
}

fn main() {
    let args: Vec<String> = std::env::args().collect();
    match args.get(1).map(|s| s.as_str()) {
        Some(sinks::TERM_CHILD_ARG) => sinks::term_child_main(),
        Some("fuzz-smoke") => {
            // drive the libFuzzer entry with pseudo-random buffers (self-test of the E6 target, no libFuzzer needed)
            let n: u64 = args.get(2).and_then(|s| s.parse().ok()).unwrap_or(2000);
            let mut x: u64 = args.get(3).and_then(|s| s.parse().ok()).unwrap_or(1);
            for _ in 0..n {
                let mut buf = Vec::new();
                for _ in 0..(16 + (x >> 59) as usize * 24) {
                    x ^= x << 13;
                    x ^= x >> 7;
                    x ^= x << 17;
                    buf.extend_from_slice(&x.to_le_bytes());
                }
                c13::fuzz::fuzz_entry_value_to_sinks(&buf);
            }
            sinks::shutdown();
            println!("fuzz-smoke: {n} inputs, no unlisted violation");
            return;
        }
        Some("show") => {
            show(args.get(2).map(|s| s.as_str()).unwrap_or(""));
            return;
        }
        _ => {}
    }
    vcore::run("C13", vcore::Level::Exploration, RULE, &ASSUMPTIONS, |s| {
        // classes DESIGN §C13 marks as required (each ≥5 % / each sink×encoding ≥10 % of ~6k quick cases);
        // the minimum counts are ~10x below what the quick tier measures
        for (class, min) in [
            ("value-depth>=2", 250),
            ("duplicate-key", 290),
            ("non-string-map-key", 45),
            ("scalar-map-key", 30),
            ("composite-map-key", 16),
            ("128-bit-or-non-finite", 250),
            ("enum-variant", 230),
            ("error-chain", 120),
            ("extent-empty-range", 100),
            ("extent-inverted-range", 100),
            ("error-chain:three-links-holding-their-source-inline", 60),
            ("capture-serde", 400),
            ("capture-sval", 400),
            ("sink-file", 600),
            ("sink-term", 750),
            ("otlp-logs-proto", 560),
            ("otlp-logs-json", 560),
            ("otlp-traces-proto", 125),
            ("otlp-traces-json", 125),
            ("otlp-metrics-proto", 100),
            ("otlp-metrics-json", 100),
            // duplicates whose occurrences live in different collections that each claim `is_unique()`
            // (tuples / BTreeMaps / dedup()ed slices joined by and_props, own props over a ThreadLocalCtxt frame)
            ("duplicate-straddles-unique-collections", 90),
            ("straddle-well-known-key", 55),
            ("straddle-own-shadows-ambient", 40),
            ("layout-runtime-frame", 60),
        ] {
            s.require(class, min);
        }
        s.gen("log-events", s.n(2400, 160_000), log_event, |ev, cx| check_event(ev, cx, ALL_SINKS));
        s.gen("span-events", s.n(1600, 110_000), span_event, |ev, cx| check_event(ev, cx, ALL_SINKS));
        s.gen("metric-events", s.n(2000, 130_000), metric_event, |ev, cx| check_event(ev, cx, ALL_SINKS));
        s.gen("straddle-events", s.n(1600, 100_000), straddle_event, |ev, cx| check_event(ev, cx, ALL_SINKS));
        s.gen("term-sparkline", s.n(1500, 60_000), sparkline_event, |ev, cx| {
            check_event(ev, cx, Sinks { file: false, otlp: false, term: true })
        });
        // artifacts of the libFuzzer target `value_to_sinks` (engine E6) are replayed through the same entry
        s.manual("fuzz-artifact", Vec::<Vec<u8>>::new(), |bytes, cx| {
            cx.nontrivial(true);
            match c13::fuzz_entry(bytes) {
                Ok(()) => Ok(()),
                Err(f) => cx.fail(f.sig, format!("{}; decoded case: {}", f.msg, vcore::serde_json::to_string(&c13::fuzz_decode(bytes)).unwrap_or_default())),
            }
        });
        sinks::shutdown();
    })
}
