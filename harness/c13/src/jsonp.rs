//! A small strict JSON reader (RFC 8259) that keeps objects as ordered key/value lists — so that
//! duplicate keys stay visible — and numbers as their source tokens — so that 128-bit integers and
//! float round-trips can be judged exactly. Hand written on purpose: `serde_json::Value` silently
//! drops duplicate keys and rounds numbers.

#[derive(Clone, Debug, PartialEq)]
pub enum JV {
    Null,
    Bool(bool),
    /// the number token exactly as written
    Num(String),
    Str(String),
    Arr(Vec<JV>),
    Obj(Vec<(String, JV)>),
}

impl JV {
    pub fn get(&self, key: &str) -> Option<&JV> {
        match self {
            JV::Obj(kv) => kv.iter().find(|(k, _)| k == key).map(|(_, v)| v),
            _ => None,
        }
    }
    pub fn count(&self, key: &str) -> usize {
        match self {
            JV::Obj(kv) => kv.iter().filter(|(k, _)| k == key).count(),
            _ => 0,
        }
    }
    pub fn as_str(&self) -> Option<&str> {
        match self {
            JV::Str(s) => Some(s),
            _ => None,
        }
    }
    pub fn as_arr(&self) -> Option<&[JV]> {
        match self {
            JV::Arr(a) => Some(a),
            _ => None,
        }
    }
    pub fn as_obj(&self) -> Option<&[(String, JV)]> {
        match self {
            JV::Obj(a) => Some(a),
            _ => None,
        }
    }
    pub fn is_null(&self) -> bool {
        matches!(self, JV::Null)
    }
    /// Short rendering for failure messages.
    pub fn brief(&self) -> String {
        let s = format!("{self:?}");
        if s.len() > 400 {
            let mut e = 400;
            while !s.is_char_boundary(e) {
                e -= 1;
            }
            format!("{}…", &s[..e])
        } else {
            s
        }
    }
}

pub fn parse(text: &str) -> Result<JV, String> {
    let mut p = P { b: text.as_bytes(), i: 0, depth: 0 };
    p.ws();
    let v = p.value()?;
    p.ws();
    if p.i != p.b.len() {
        return Err(format!("trailing characters at byte {}", p.i));
    }
    Ok(v)
}

struct P<'a> {
    b: &'a [u8],
    i: usize,
    depth: u32,
}

impl<'a> P<'a> {
    fn ws(&mut self) {
        while let Some(c) = self.b.get(self.i) {
            if matches!(c, b' ' | b'\t' | b'\n' | b'\r') {
                self.i += 1;
            } else {
                break;
            }
        }
    }
    fn err<T>(&self, what: &str) -> Result<T, String> {
        Err(format!("{what} at byte {}", self.i))
    }
    fn value(&mut self) -> Result<JV, String> {
        self.depth += 1;
        if self.depth > 256 {
            return self.err("nesting too deep");
        }
        let r = match self.b.get(self.i) {
            None => self.err("unexpected end of input"),
            Some(b'{') => self.object(),
            Some(b'[') => self.array(),
            Some(b'"') => self.string().map(JV::Str),
            Some(b't') => self.lit("true", JV::Bool(true)),
            Some(b'f') => self.lit("false", JV::Bool(false)),
            Some(b'n') => self.lit("null", JV::Null),
            Some(c) if *c == b'-' || c.is_ascii_digit() => self.number(),
            Some(_) => self.err("unexpected character"),
        };
        self.depth -= 1;
        r
    }
    fn lit(&mut self, word: &str, v: JV) -> Result<JV, String> {
        if self.b[self.i..].starts_with(word.as_bytes()) {
            self.i += word.len();
            Ok(v)
        } else {
            self.err("bad literal")
        }
    }
    fn number(&mut self) -> Result<JV, String> {
        let start = self.i;
        if self.b.get(self.i) == Some(&b'-') {
            self.i += 1;
        }
        match self.b.get(self.i) {
            Some(b'0') => self.i += 1,
            Some(c) if c.is_ascii_digit() => {
                while self.b.get(self.i).is_some_and(|c| c.is_ascii_digit()) {
                    self.i += 1;
                }
            }
            _ => return self.err("bad number"),
        }
        if self.b.get(self.i) == Some(&b'.') {
            self.i += 1;
            if !self.b.get(self.i).is_some_and(|c| c.is_ascii_digit()) {
                return self.err("bad fraction");
            }
            while self.b.get(self.i).is_some_and(|c| c.is_ascii_digit()) {
                self.i += 1;
            }
        }
        if matches!(self.b.get(self.i), Some(b'e') | Some(b'E')) {
            self.i += 1;
            if matches!(self.b.get(self.i), Some(b'+') | Some(b'-')) {
                self.i += 1;
            }
            if !self.b.get(self.i).is_some_and(|c| c.is_ascii_digit()) {
                return self.err("bad exponent");
            }
            while self.b.get(self.i).is_some_and(|c| c.is_ascii_digit()) {
                self.i += 1;
            }
        }
        Ok(JV::Num(String::from_utf8_lossy(&self.b[start..self.i]).into_owned()))
    }
    fn hex4(&mut self) -> Result<u32, String> {
        if self.i + 4 > self.b.len() {
            return self.err("short \\u escape");
        }
        let s = std::str::from_utf8(&self.b[self.i..self.i + 4]).map_err(|_| "bad \\u escape".to_string())?;
        if !s.bytes().all(|c| c.is_ascii_hexdigit()) {
            return self.err("bad \\u escape");
        }
        self.i += 4;
        Ok(u32::from_str_radix(s, 16).unwrap())
    }
    fn string(&mut self) -> Result<String, String> {
        // at the opening quote
        self.i += 1;
        let mut out: Vec<u8> = Vec::new();
        loop {
            let Some(&c) = self.b.get(self.i) else { return self.err("unterminated string") };
            match c {
                b'"' => {
                    self.i += 1;
                    break;
                }
                b'\\' => {
                    self.i += 1;
                    let Some(&e) = self.b.get(self.i) else { return self.err("unterminated escape") };
                    self.i += 1;
                    match e {
                        b'"' => out.push(b'"'),
                        b'\\' => out.push(b'\\'),
                        b'/' => out.push(b'/'),
                        b'b' => out.push(8),
                        b'f' => out.push(12),
                        b'n' => out.push(b'\n'),
                        b'r' => out.push(b'\r'),
                        b't' => out.push(b'\t'),
                        b'u' => {
                            let hi = self.hex4()?;
                            let cp = if (0xD800..0xDC00).contains(&hi) {
                                if self.b.get(self.i) == Some(&b'\\') && self.b.get(self.i + 1) == Some(&b'u') {
                                    self.i += 2;
                                    let lo = self.hex4()?;
                                    if !(0xDC00..0xE000).contains(&lo) {
                                        return self.err("unpaired surrogate");
                                    }
                                    0x10000 + ((hi - 0xD800) << 10) + (lo - 0xDC00)
                                } else {
                                    return self.err("unpaired surrogate");
                                }
                            } else if (0xDC00..0xE000).contains(&hi) {
                                return self.err("unpaired surrogate");
                            } else {
                                hi
                            };
                            let Some(ch) = char::from_u32(cp) else { return self.err("bad code point") };
                            let mut buf = [0; 4];
                            out.extend_from_slice(ch.encode_utf8(&mut buf).as_bytes());
                        }
                        _ => return self.err("bad escape"),
                    }
                }
                c if c < 0x20 => return self.err("raw control character in string"),
                c => {
                    out.push(c);
                    self.i += 1;
                }
            }
        }
        String::from_utf8(out).map_err(|_| format!("invalid UTF-8 in string ending at byte {}", self.i))
    }
    fn array(&mut self) -> Result<JV, String> {
        self.i += 1;
        let mut items = Vec::new();
        self.ws();
        if self.b.get(self.i) == Some(&b']') {
            self.i += 1;
            return Ok(JV::Arr(items));
        }
        loop {
            self.ws();
            items.push(self.value()?);
            self.ws();
            match self.b.get(self.i) {
                Some(b',') => self.i += 1,
                Some(b']') => {
                    self.i += 1;
                    return Ok(JV::Arr(items));
                }
                _ => return self.err("expected , or ]"),
            }
        }
    }
    fn object(&mut self) -> Result<JV, String> {
        self.i += 1;
        let mut items = Vec::new();
        self.ws();
        if self.b.get(self.i) == Some(&b'}') {
            self.i += 1;
            return Ok(JV::Obj(items));
        }
        loop {
            self.ws();
            if self.b.get(self.i) != Some(&b'"') {
                return self.err("expected string key");
            }
            let k = self.string()?;
            self.ws();
            if self.b.get(self.i) != Some(&b':') {
                return self.err("expected :");
            }
            self.i += 1;
            self.ws();
            let v = self.value()?;
            items.push((k, v));
            self.ws();
            match self.b.get(self.i) {
                Some(b',') => self.i += 1,
                Some(b'}') => {
                    self.i += 1;
                    return Ok(JV::Obj(items));
                }
                _ => return self.err("expected , or }"),
            }
        }
    }
}

#[cfg(test)]
mod tests {
    use super::*;
    #[test]
    fn basics() {
        assert_eq!(parse("{\"a\":1,\"a\":2}").unwrap().count("a"), 2);
        assert!(parse("{\"a\":{\"}").is_err());
        assert!(parse("[1,]").is_err());
        assert!(parse("01").is_err());
        assert_eq!(parse("\"\\ud83d\\ude00\"").unwrap(), JV::Str("😀".into()));
        assert_eq!(parse("340282366920938463463374607431768211455").unwrap(), JV::Num("340282366920938463463374607431768211455".into()));
    }
}
