//! The event specification (the replay unit), how it becomes a real `emit::Event`, and the harness'
//! own reference model of it: first-value-wins property view, reference rendering of the message,
//! reference JSON / AnyValue shape of each value on the documented core.

use crate::node::{self, AsSerde, AsText, KeyClass, Node, VBody};
use serde::{Deserialize, Serialize};

#[derive(Clone, Debug, PartialEq, Eq, Serialize, Deserialize)]
pub enum Cap {
    /// `Value::from_sval(&node)`
    Sval,
    /// `Value::from_serde(&node)`
    Serde,
    /// `Value::from_display(..)`: the sink sees text
    Display,
    /// `Value::from_debug(..)`: the sink sees text
    Debug,
    /// `Value::from(primitive)` where the node is a primitive emit has a `From` impl for, else as Sval
    Prim,
}

#[derive(Clone, Debug, PartialEq, Eq, Serialize, Deserialize)]
pub enum PV {
    Node { node: Node, cap: Cap },
    /// typed `emit::Level`: 0 debug, 1 info, 2 warn, 3 error
    Level(u8),
    /// typed `emit::Kind`: 0 span, 1 metric
    Kind(u8),
    /// typed `emit::TraceId` (decimal text of a non-zero u128)
    TraceId(String),
    /// typed `emit::SpanId` (non-zero)
    SpanId(u64),
    /// an error chain captured with `Value::capture_error`: [top, its source, that one's source …]
    Error(Vec<String>),
}

#[derive(Clone, Debug, PartialEq, Eq, Serialize, Deserialize)]
pub struct Prop {
    pub key: String,
    pub val: PV,
}

#[derive(Clone, Debug, PartialEq, Eq, Serialize, Deserialize)]
pub enum TplPart {
    Text(String),
    Hole(String),
}

/// Unix time as (seconds, nanoseconds)
#[derive(Clone, Copy, Debug, PartialEq, Eq, Serialize, Deserialize)]
pub struct Ts(pub u64, pub u32);

impl Ts {
    pub fn nanos(&self) -> u128 {
        self.0 as u128 * 1_000_000_000 + self.1 as u128
    }
}

#[derive(Clone, Debug, PartialEq, Eq, Serialize, Deserialize)]
pub enum Ext {
    None,
    Point(Ts),
    /// start ≤ end by construction
    Range(Ts, Ts),
}

#[derive(Clone, Debug, PartialEq, Eq, Serialize, Deserialize)]
pub struct Ev {
    pub mdl: Vec<String>,
    pub tpl: Vec<TplPart>,
    pub extent: Ext,
    /// in enumeration order: own properties first, then the ambient ones (see `layout`)
    pub props: Vec<Prop>,
    /// how the property list is physically assembled (default: one slice, emitted directly)
    #[serde(default)]
    pub layout: Layout,
}

/// The collection kinds a run of consecutive properties can be built as. All but `Slice` claim
/// `Props::is_unique()`.
#[derive(Clone, Copy, Debug, PartialEq, Eq, Serialize, Deserialize)]
pub enum GKind {
    /// `&[(&str, Value)]` — may hold duplicates, `is_unique() == false`
    Slice,
    /// one `(&str, Value)` tuple (takes exactly one property)
    Tuple,
    /// `BTreeMap<&str, Value>` (first occurrence of a key inside the run is inserted)
    Map,
    /// `slice.dedup()`
    Dedup,
}

#[derive(Clone, Debug, PartialEq, Eq, Serialize, Deserialize)]
pub struct Group {
    pub len: u32,
    pub kind: GKind,
}

/// Physical assembly of `Ev::props`: the trailing `frames` runs are pushed as `ThreadLocalCtxt` frames
/// (last run = outermost frame) and the event is emitted through a real `emit::runtime::Runtime`,
/// which appends the ambient properties with `and_props`; the remaining (own) properties are cut into
/// `groups`, each built as its own collection and concatenated with `and_props` (a remainder not
/// covered by `groups` becomes a final slice). Enumeration order — and therefore "first value wins" —
/// is the order of `Ev::props` in every layout.
#[derive(Clone, Debug, Default, PartialEq, Eq, Serialize, Deserialize)]
pub struct Layout {
    pub groups: Vec<Group>,
    pub frames: Vec<u32>,
    /// emit through a `Runtime` even without frames (ambient = the empty frame)
    pub runtime: bool,
    /// hand the own properties to the event as `&dyn ErasedProps`
    pub erased: bool,
}

/// The resolved layout: index ranges into `Ev::props`.
#[derive(Clone, Debug, PartialEq, Eq)]
pub struct Plan {
    pub own: Vec<(std::ops::Range<usize>, GKind)>,
    /// innermost first (= enumeration order); pushed in reverse
    pub frames: Vec<std::ops::Range<usize>>,
    pub runtime: bool,
}

pub const LEVELS: [&str; 4] = ["debug", "info", "warn", "error"];
/// latest instant `emit::Timestamp` can hold: 9999-12-31T23:59:59.999999999Z
pub const MAX_SECS: u64 = 253_402_300_799;

// ---------------------------------------------------------------------------------------------
// Building the real event

/// An error chain [top, its source, that one's source ...] as REAL `std::error::Error` values. How a link holds its
/// source is part of the shape space ("errors with sources"): boxed behind a pointer, or INLINE as the first field of
/// the link (a newtype-style wrapper: the link and its source then share one address). The layout is derived from the
/// case data (total text length modulo 2), so it replays and shrinks with the case.
#[derive(Debug)]
pub enum ChainErr {
    Boxed(BoxedErr),
    Inline1(Inline0),
    Inline2(Inline1),
    Inline3(Inline2),
}

#[derive(Debug)]
pub struct BoxedErr {
    msg: String,
    source: Option<Box<BoxedErr>>,
}

/// innermost inline link: no source
#[derive(Debug)]
#[repr(C)]
pub struct Inline0 {
    msg: String,
}
/// a link holding its source inline at offset 0
#[derive(Debug)]
#[repr(C)]
pub struct Inline1 {
    inner: Inline0,
    msg: String,
}
#[derive(Debug)]
#[repr(C)]
pub struct Inline2 {
    inner: Inline1,
    msg: String,
}

impl ChainErr {
    pub fn new(chain: &[String]) -> ChainErr {
        let inline = chain.len() <= 3 && chain.iter().map(|m| m.len()).sum::<usize>() % 2 == 1;
        if inline {
            let m = |i: usize| chain.get(i).cloned().unwrap_or_default();
            return match chain.len() {
                0 | 1 => ChainErr::Inline1(Inline0 { msg: m(0) }),
                2 => ChainErr::Inline2(Inline1 { inner: Inline0 { msg: m(1) }, msg: m(0) }),
                _ => ChainErr::Inline3(Inline2 { inner: Inline1 { inner: Inline0 { msg: m(2) }, msg: m(1) }, msg: m(0) }),
            };
        }
        let mut it = chain.iter().rev();
        let mut cur = BoxedErr { msg: it.next().cloned().unwrap_or_default(), source: None };
        for m in it {
            cur = BoxedErr { msg: m.clone(), source: Some(Box::new(cur)) };
        }
        ChainErr::Boxed(cur)
    }

    pub fn is_inline(&self) -> bool {
        !matches!(self, ChainErr::Boxed(_))
    }

    pub fn value(&self) -> emit::Value<'_> {
        match self {
            ChainErr::Boxed(e) => emit::Value::capture_error(e),
            ChainErr::Inline1(e) => emit::Value::capture_error(e),
            ChainErr::Inline2(e) => emit::Value::capture_error(e),
            ChainErr::Inline3(e) => emit::Value::capture_error(e),
        }
    }
}

macro_rules! display_msg {
    ($($t:ty),*) => {$(
        impl std::fmt::Display for $t {
            fn fmt(&self, f: &mut std::fmt::Formatter<'_>) -> std::fmt::Result {
                f.write_str(&self.msg)
            }
        }
    )*};
}
display_msg!(BoxedErr, Inline0, Inline1, Inline2);

impl std::error::Error for BoxedErr {
    fn source(&self) -> Option<&(dyn std::error::Error + 'static)> {
        self.source.as_ref().map(|s| &**s as &(dyn std::error::Error + 'static))
    }
}
impl std::error::Error for Inline0 {}
impl std::error::Error for Inline1 {
    fn source(&self) -> Option<&(dyn std::error::Error + 'static)> {
        Some(&self.inner)
    }
}
impl std::error::Error for Inline2 {
    fn source(&self) -> Option<&(dyn std::error::Error + 'static)> {
        Some(&self.inner)
    }
}

enum Held<'a> {
    Sval(&'a Node),
    Serde(AsSerde<'a>),
    Text(AsText<'a>, bool),
    Prim(&'a Node),
    Level(emit::Level),
    Kind(emit::Kind),
    Trace(emit::TraceId),
    Span(emit::SpanId),
    Err(ChainErr),
}

impl<'a> Held<'a> {
    fn new(pv: &'a PV) -> Held<'a> {
        match pv {
            PV::Node { node, cap } => match cap {
                Cap::Sval => Held::Sval(node),
                Cap::Serde => Held::Serde(AsSerde(node)),
                Cap::Display => Held::Text(AsText(node), false),
                Cap::Debug => Held::Text(AsText(node), true),
                Cap::Prim => Held::Prim(node),
            },
            PV::Level(l) => Held::Level(match l % 4 {
                0 => emit::Level::Debug,
                1 => emit::Level::Info,
                2 => emit::Level::Warn,
                _ => emit::Level::Error,
            }),
            PV::Kind(k) => Held::Kind(if k % 2 == 0 { emit::Kind::Span } else { emit::Kind::Metric }),
            PV::TraceId(t) => Held::Trace(emit::TraceId::from_u128(t.parse::<u128>().unwrap_or(1).max(1)).unwrap()),
            PV::SpanId(s) => Held::Span(emit::SpanId::from_u64((*s).max(1)).unwrap()),
            PV::Error(chain) => Held::Err(ChainErr::new(chain)),
        }
    }

    fn value(&'a self) -> emit::Value<'a> {
        use emit::value::ToValue;
        match self {
            Held::Sval(n) => emit::Value::from_sval(*n),
            Held::Serde(w) => emit::Value::from_serde(w),
            Held::Text(w, false) => emit::Value::from_display(w),
            Held::Text(w, true) => emit::Value::from_debug(w),
            Held::Prim(n) => match n {
                Node::Null => emit::Value::null(),
                Node::Bool(v) => emit::Value::from(*v),
                Node::I8(v) => emit::Value::from(*v),
                Node::I16(v) => emit::Value::from(*v),
                Node::I32(v) => emit::Value::from(*v),
                Node::I64(v) => emit::Value::from(*v),
                Node::I128(v) => emit::Value::from(v.parse::<i128>().unwrap_or(0)),
                Node::U8(v) => emit::Value::from(*v),
                Node::U16(v) => emit::Value::from(*v),
                Node::U32(v) => emit::Value::from(*v),
                Node::U64(v) => emit::Value::from(*v),
                Node::U128(v) => emit::Value::from(v.parse::<u128>().unwrap_or(0)),
                Node::F64(b) => emit::Value::from(f64::from_bits(*b)),
                Node::Str(s) => emit::Value::from(&**s),
                other => emit::Value::from_sval(*other),
            },
            Held::Level(l) => l.to_value(),
            Held::Kind(k) => k.to_value(),
            Held::Trace(t) => t.to_value(),
            Held::Span(s) => s.to_value(),
            Held::Err(e) => e.value(),
        }
    }
}

fn ts(t: &Ts) -> emit::Timestamp {
    emit::Timestamp::from_unix(std::time::Duration::new(t.0.min(MAX_SECS), t.1.min(999_999_999)))
        .expect("timestamp in range")
}

pub type EvtProps<'a> = &'a [(&'a str, emit::Value<'a>)];

type Kv<'a> = (&'a str, emit::Value<'a>);

/// A property collection chosen at run time. Every variant HOLDS AND DELEGATES TO the real emit type
/// (`And` is emit's own `And<DynProps, DynProps>`, `Dedup` is what `Props::dedup` returns …), so
/// `for_each` / `get` / `is_unique` are answered by the code under test.
pub enum DynProps<'a> {
    Slice(&'a [Kv<'a>]),
    Tuple(Kv<'a>),
    Map(std::collections::BTreeMap<&'a str, emit::Value<'a>>),
    Dedup(&'a [Kv<'a>]),
    And(Box<emit::and::And<DynProps<'a>, DynProps<'a>>>),
    Erased(Box<DynProps<'a>>),
}

impl<'a> emit::Props for DynProps<'a> {
    fn for_each<'kv, F: FnMut(emit::Str<'kv>, emit::Value<'kv>) -> std::ops::ControlFlow<()>>(
        &'kv self,
        for_each: F,
    ) -> std::ops::ControlFlow<()> {
        match self {
            DynProps::Slice(s) => s.for_each(for_each),
            DynProps::Tuple(t) => t.for_each(for_each),
            DynProps::Map(m) => m.for_each(for_each),
            DynProps::Dedup(s) => s.dedup().for_each(for_each),
            DynProps::And(a) => {
                // (type-erase the callback: `And` wraps it in `&mut` on every level of the tree)
                let mut f = for_each;
                let f: &mut dyn FnMut(emit::Str<'kv>, emit::Value<'kv>) -> std::ops::ControlFlow<()> = &mut f;
                // deref the box: `Box<P>` is itself `Props` but does not forward `is_unique`/`get`
                (**a).for_each(f)
            }
            DynProps::Erased(p) => (&**p as &dyn emit::props::ErasedProps).for_each(for_each),
        }
    }

    fn get<'v, K: emit::str::ToStr>(&'v self, key: K) -> Option<emit::Value<'v>> {
        // (normalise the key type: `And::get` adds a reference on every level of the tree)
        let key = key.to_str();
        match self {
            DynProps::Slice(s) => s.get(key),
            DynProps::Tuple(t) => t.get(key),
            DynProps::Map(m) => emit::Props::get(m, key),
            DynProps::Dedup(s) => s.dedup().get(key),
            DynProps::And(a) => (**a).get(key),
            DynProps::Erased(p) => (&**p as &dyn emit::props::ErasedProps).get(key),
        }
    }

    fn is_unique(&self) -> bool {
        match self {
            DynProps::Slice(s) => s.is_unique(),
            DynProps::Tuple(t) => t.is_unique(),
            DynProps::Map(m) => m.is_unique(),
            DynProps::Dedup(s) => s.dedup().is_unique(),
            DynProps::And(a) => (**a).is_unique(),
            DynProps::Erased(p) => (&**p as &dyn emit::props::ErasedProps).is_unique(),
        }
    }
}

thread_local! {
    /// one isolated ambient store per thread (frames are always popped before a case ends)
    static CTXT: emit::platform::thread_local_ctxt::ThreadLocalCtxt = emit::platform::thread_local_ctxt::ThreadLocalCtxt::new();
}

fn first_occurrences<'a>(kvs: &[Kv<'a>]) -> Vec<Kv<'a>> {
    let mut out: Vec<Kv<'a>> = Vec::new();
    for (k, v) in kvs {
        if !out.iter().any(|(k2, _)| k2 == k) {
            out.push((*k, v.clone()));
        }
    }
    out
}

impl Ev {
    pub fn mdl_text(&self) -> String {
        self.mdl.join("::")
    }

    /// Resolve `layout` against the actual number of properties (total for any layout values, so a
    /// shrunk or hand-written case is always meaningful).
    pub fn plan(&self) -> Plan {
        let n = self.props.len();
        // frames from the tail, the last one outermost
        let mut end = n;
        let mut frames_rev = Vec::new();
        for len in self.layout.frames.iter().rev() {
            let len = (*len as usize).min(end);
            if len == 0 {
                continue;
            }
            frames_rev.push(end - len..end);
            end -= len;
        }
        frames_rev.reverse();
        let own_n = end;
        let mut own = Vec::new();
        let mut at = 0;
        for g in &self.layout.groups {
            let want = if g.kind == GKind::Tuple { 1 } else { g.len as usize };
            let len = want.min(own_n - at);
            if len == 0 {
                continue;
            }
            own.push((at..at + len, g.kind));
            at += len;
        }
        if at < own_n || own.is_empty() {
            own.push((at..own_n, GKind::Slice));
        }
        Plan { own, frames: frames_rev, runtime: self.layout.runtime || !self.layout.frames.is_empty() }
    }

    /// Build the real `emit::Event` for this spec and emit it to `em`: directly, or — when the layout
    /// says so — through a real `Runtime` with `ThreadLocalCtxt` frames pushed.
    pub fn emit_to<E: emit::Emitter>(&self, em: &E) {
        use emit::Props as _;
        let held: Vec<Held> = self.props.iter().map(|p| Held::new(&p.val)).collect();
        let kvs: Vec<Kv> = self.props.iter().zip(&held).map(|(p, h)| (p.key.as_str(), h.value())).collect();
        let parts: Vec<emit::template::Part> = self
            .tpl
            .iter()
            .map(|p| match p {
                TplPart::Text(t) => emit::template::Part::text_ref(t),
                TplPart::Hole(l) => emit::template::Part::hole_ref(l),
            })
            .collect();
        let mdl = self.mdl_text();
        let extent = match &self.extent {
            Ext::None => None,
            Ext::Point(t) => Some(emit::Extent::point(ts(t))),
            Ext::Range(a, b) => Some(emit::Extent::range(ts(a)..ts(b))),
        };
        if self.layout == Layout::default() {
            // the plain path: one slice, handed to the emitter directly
            let evt = emit::Event::new(emit::Path::new_ref_raw(&mdl), emit::Template::new_ref(&parts), extent, &kvs[..]);
            em.emit(&evt);
            return;
        }
        let plan = self.plan();
        let mut own: Option<DynProps> = None;
        for (range, kind) in &plan.own {
            let run = &kvs[range.clone()];
            let next = match kind {
                GKind::Slice => DynProps::Slice(run),
                GKind::Tuple => DynProps::Tuple(run[0].clone()),
                GKind::Map => DynProps::Map(first_occurrences(run).into_iter().collect()),
                GKind::Dedup => DynProps::Dedup(run),
            };
            own = Some(match own {
                None => next,
                Some(prev) => DynProps::And(Box::new(prev.and_props(next))),
            });
        }
        let mut own = own.unwrap_or(DynProps::Slice(&[]));
        if self.layout.erased {
            own = DynProps::Erased(Box::new(own));
        }
        let evt = emit::Event::new(emit::Path::new_ref_raw(&mdl), emit::Template::new_ref(&parts), extent, own);
        if !plan.runtime {
            em.emit(&evt);
            return;
        }
        // a pushed set whose keys repeat would keep its LAST value (the frame is a map that is inserted
        // into): within one frame only the first occurrence is pushed, so the reference stays "first wins"
        let frames: Vec<Vec<Kv>> = plan.frames.iter().map(|r| first_occurrences(&kvs[r.clone()])).collect();
        let ctxt = CTXT.with(|c| *c);
        let rt = emit::runtime::Runtime::new().with_emitter(em).with_ctxt(ctxt);
        fn with_frames<'a>(
            ctxt: emit::platform::thread_local_ctxt::ThreadLocalCtxt,
            outer_first: &[&Vec<Kv<'a>>],
            f: &mut dyn FnMut(),
        ) {
            match outer_first.split_first() {
                None => f(),
                Some((first, rest)) => emit::Frame::push(ctxt, &first[..]).call(|| with_frames(ctxt, rest, f)),
            }
        }
        let outer_first: Vec<&Vec<Kv>> = frames.iter().rev().collect();
        with_frames(ctxt, &outer_first, &mut || rt.emit(&evt));
    }

    // -----------------------------------------------------------------------------------------
    // Reference view

    /// First value under `key` (enumeration order = slice order; first wins).
    pub fn first(&self, key: &str) -> Option<&PV> {
        self.props.iter().find(|p| p.key == key).map(|p| &p.val)
    }

    /// The de-duplicated property view: first occurrence of each key, in order of first occurrence.
    pub fn dedup(&self) -> Vec<(&str, &PV)> {
        let mut out: Vec<(&str, &PV)> = Vec::new();
        for p in &self.props {
            if !out.iter().any(|(k, _)| *k == p.key) {
                out.push((&p.key, &p.val));
            }
        }
        out
    }

    pub fn has_duplicate_keys(&self) -> bool {
        self.dedup().len() != self.props.len()
    }

    /// Reference rendering of the message; `None` when a hole refers to a value whose `Display` text
    /// the harness does not own (then only cross-sink equality is asserted).
    pub fn ref_msg(&self) -> Option<String> {
        let mut out = String::new();
        for p in &self.tpl {
            match p {
                TplPart::Text(t) => out.push_str(t),
                TplPart::Hole(l) => match self.first(l) {
                    None => {
                        out.push('{');
                        out.push_str(l);
                        out.push('}');
                    }
                    Some(pv) => out.push_str(&display_text(pv)?),
                },
            }
        }
        Some(out)
    }

    /// Reference text of the template; `None` when a text part contains braces (escaping rules are
    /// C16's business).
    pub fn ref_tpl(&self) -> Option<String> {
        let mut out = String::new();
        for p in &self.tpl {
            match p {
                TplPart::Text(t) => {
                    if t.contains(['{', '}']) {
                        return None;
                    }
                    out.push_str(t);
                }
                TplPart::Hole(l) => {
                    if l.contains(['{', '}']) {
                        return None;
                    }
                    out.push('{');
                    out.push_str(l);
                    out.push('}');
                }
            }
        }
        Some(out)
    }
}

/// `Display` text of a property value where the harness owns it: primitives given through
/// `Value::from`, text captured through Display/Debug, typed well-known values, errors.
pub fn display_text(pv: &PV) -> Option<String> {
    match pv {
        PV::Node { node, cap: Cap::Display } => Some(AsText(node).to_string()),
        PV::Node { node, cap: Cap::Debug } => Some(format!("{:?}", AsText(node))),
        PV::Node { node, cap: Cap::Prim } => match node {
            Node::Bool(v) => Some(v.to_string()),
            Node::I8(v) => Some(v.to_string()),
            Node::I16(v) => Some(v.to_string()),
            Node::I32(v) => Some(v.to_string()),
            Node::I64(v) => Some(v.to_string()),
            Node::U8(v) => Some(v.to_string()),
            Node::U16(v) => Some(v.to_string()),
            Node::U32(v) => Some(v.to_string()),
            Node::U64(v) => Some(v.to_string()),
            Node::I128(v) | Node::U128(v) => Some(v.clone()),
            Node::Str(s) => Some(s.clone()),
            _ => None,
        },
        PV::Node { .. } => None,
        PV::Level(l) => Some(LEVELS[(*l % 4) as usize].to_string()),
        PV::Kind(k) => Some(if k % 2 == 0 { "span" } else { "metric" }.to_string()),
        PV::TraceId(t) => Some(format!("{:032x}", t.parse::<u128>().unwrap_or(1).max(1))),
        PV::SpanId(s) => Some(format!("{:016x}", (*s).max(1))),
        // an error with a source renders as "top (source …)" under Display: not owned by the harness
        PV::Error(chain) if chain.len() == 1 => Some(chain[0].clone()),
        PV::Error(_) => None,
    }
}

/// The text of a value that is a plain string for every sink (used for well-known string-valued
/// properties: names, units, aggregations, levels and ids given as text).
pub fn plain_text(pv: &PV) -> Option<String> {
    match pv {
        // text captured through sval/serde renders quoted under `Display` (value-bag), which is how
        // emit reads names and ids: outside the asserted domain
        PV::Node { node: Node::Str(s), cap: Cap::Prim } => Some(s.clone()),
        PV::Node { cap: Cap::Display | Cap::Debug, .. } => display_text(pv),
        PV::Level(_) | PV::Kind(_) | PV::TraceId(_) | PV::SpanId(_) => display_text(pv),
        _ => None,
    }
}

// ---------------------------------------------------------------------------------------------
// Reference value shapes

#[derive(Clone, Debug, PartialEq)]
pub enum RV {
    Null,
    Bool(bool),
    /// any integer, as decimal text
    Int(String),
    F32(u32),
    F64(u64),
    Str(String),
    Bytes(Vec<u8>),
    Seq(Vec<RV>),
    Map(Vec<(String, RV)>),
    /// outside the documented core (enum variants, maps with non-text keys): well-formedness and
    /// proto⇔JSON agreement only
    Any,
}

pub fn ref_node(n: &Node) -> RV {
    match n {
        Node::Null | Node::Unit | Node::None => RV::Null,
        Node::Bool(b) => RV::Bool(*b),
        Node::I8(v) => RV::Int(v.to_string()),
        Node::I16(v) => RV::Int(v.to_string()),
        Node::I32(v) => RV::Int(v.to_string()),
        Node::I64(v) => RV::Int(v.to_string()),
        Node::U8(v) => RV::Int(v.to_string()),
        Node::U16(v) => RV::Int(v.to_string()),
        Node::U32(v) => RV::Int(v.to_string()),
        Node::U64(v) => RV::Int(v.to_string()),
        Node::I128(v) | Node::U128(v) => RV::Int(v.clone()),
        Node::F32(b) => RV::F32(*b),
        Node::F64(b) => RV::F64(*b),
        Node::Str(s) => RV::Str(s.clone()),
        Node::Char(c) => RV::Str(c.to_string()),
        Node::Bytes(b) => RV::Bytes(b.clone()),
        Node::Some(v) => ref_node(v),
        Node::Seq(items) | Node::Tuple(items) => RV::Seq(items.iter().map(ref_node).collect()),
        Node::Map(entries) => {
            if entries.iter().all(|(k, _)| node::key_class(k) == KeyClass::Text) {
                RV::Map(
                    entries
                        .iter()
                        .map(|(k, v)| {
                            let Node::Str(k) = k else { unreachable!() };
                            (k.clone(), ref_node(v))
                        })
                        .collect(),
                )
            } else {
                RV::Any
            }
        }
        Node::Struct { first, fields, .. } => RV::Map(
            fields.iter().enumerate().map(|(i, f)| (node::field_name(*first, i).to_string(), ref_node(f))).collect(),
        ),
        Node::Variant { .. } => RV::Any,
    }
}

pub fn ref_value(pv: &PV) -> RV {
    match pv {
        PV::Node { node, cap: Cap::Sval | Cap::Serde | Cap::Prim } => ref_node(node),
        // structured sinks see the top-level message of an error
        PV::Error(chain) => RV::Str(chain.first().cloned().unwrap_or_default()),
        other => match display_text(other) {
            Some(t) => RV::Str(t),
            None => RV::Any,
        },
    }
}

/// Does the value contain an enum variant anywhere (its body is judged by agreement only)?
pub fn has_variant(n: &Node) -> bool {
    match n {
        Node::Variant { .. } => true,
        Node::Some(v) => has_variant(v),
        Node::Seq(i) | Node::Tuple(i) => i.iter().any(has_variant),
        Node::Map(e) => e.iter().any(|(k, v)| has_variant(k) || has_variant(v)),
        Node::Struct { fields, .. } => fields.iter().any(has_variant),
        _ => false,
    }
}

#[allow(dead_code)]
pub fn variant_body(b: &VBody) -> Vec<&Node> {
    match b {
        VBody::Unit => vec![],
        VBody::Newtype(v) => vec![v],
        VBody::Tuple(v) => v.iter().collect(),
        VBody::Struct { fields, .. } => fields.iter().collect(),
    }
}

// ---------------------------------------------------------------------------------------------
// Well-known views

pub fn valid_level(pv: &PV) -> Option<usize> {
    match pv {
        PV::Level(l) => Some((*l % 4) as usize),
        other => {
            let t = plain_text(other)?;
            LEVELS.iter().position(|l| *l == t)
        }
    }
}

/// 16 bytes of a trace id given as typed value or as 32 hex digits (either case); `None` = outside
/// the asserted domain.
pub fn valid_trace_id(pv: &PV) -> Option<Vec<u8>> {
    match pv {
        PV::TraceId(t) => Some(t.parse::<u128>().unwrap_or(1).max(1).to_be_bytes().to_vec()),
        other => {
            let t = plain_text(other)?;
            if t.len() == 32 && t.bytes().all(|c| c.is_ascii_hexdigit()) {
                let v = u128::from_str_radix(&t, 16).ok()?;
                if v != 0 {
                    return Some(v.to_be_bytes().to_vec());
                }
            }
            None
        }
    }
}

pub fn valid_span_id(pv: &PV) -> Option<Vec<u8>> {
    match pv {
        PV::SpanId(s) => Some((*s).max(1).to_be_bytes().to_vec()),
        other => {
            let t = plain_text(other)?;
            if t.len() == 16 && t.bytes().all(|c| c.is_ascii_hexdigit()) {
                let v = u64::from_str_radix(&t, 16).ok()?;
                if v != 0 {
                    return Some(v.to_be_bytes().to_vec());
                }
            }
            None
        }
    }
}

/// A metric sample the harness can model: scalar or flat sequence of i64-range integers and floats.
#[derive(Clone, Debug, PartialEq)]
pub enum Num {
    Int(i64),
    Dbl(u64),
}

pub fn metric_samples(pv: &PV) -> Option<(Vec<Num>, bool)> {
    fn scalar(n: &Node) -> Option<Num> {
        match ref_node(n) {
            RV::Int(t) => t.parse::<i64>().ok().map(Num::Int),
            RV::F64(b) => Some(Num::Dbl(b)),
            RV::F32(b) => Some(Num::Dbl((f32::from_bits(b) as f64).to_bits())),
            _ => None,
        }
    }
    let PV::Node { node, cap: Cap::Sval | Cap::Serde | Cap::Prim } = pv else { return None };
    match node {
        Node::Seq(items) | Node::Tuple(items) => {
            // a wrapped scalar (Some(1)) inside a sequence is still a scalar sample
            let mut out = Vec::new();
            for it in items {
                if matches!(it, Node::Seq(_) | Node::Tuple(_) | Node::Bytes(_)) {
                    return None;
                }
                out.push(scalar(it)?);
            }
            Some((out, true))
        }
        n => scalar(n).map(|s| (vec![s], false)),
    }
}
