//! Engine E6 entry point: the same grammar and the same oracle, driven by fuzzer bytes.
//!
//! `emit_otlp`'s encoders are `pub(crate)`, so there is no socket-free in-process encode path: the
//! target reuses the loopback pipeline of the PBT check (real emitters + ack-everything listener in
//! the same process, file writer in the scratch directory). The terminal writer is left out (it needs
//! a child process per case). Known findings are stepped over exactly as in the check
//! (`vcore::with_cx` reads known-findings.txt / VERIF_KNOWN_EXTRA).

use crate::event::{Cap, Ev, Ext, Prop, TplPart, Ts, MAX_SECS, PV};
use crate::node::{self, Node, VBody};
use crate::{check_event, Sinks, RESERVED, WELL_KNOWN};
use arbitrary::{Result, Unstructured};

fn text(u: &mut Unstructured) -> Result<String> {
    const ALPHABET: [char; 24] = [
        'a', 'b', 'Z', '0', ' ', '_', '.', '{', '}', '"', '\\', '\0', '\n', '\t', '\u{1b}', '\u{7f}', 'é', '漢', '😀',
        '\u{2028}', '\u{fffd}', '\u{10ffff}', ':', '/',
    ];
    let n = u.int_in_range(0..=6)?;
    let mut s = String::new();
    for _ in 0..n {
        s.push(if u.ratio(1, 8)? { u.arbitrary::<char>()? } else { *u.choose(&ALPHABET)? });
    }
    Ok(s)
}

fn leaf(u: &mut Unstructured) -> Result<Node> {
    Ok(match u.int_in_range(0..=19)? {
        0 => Node::Null,
        1 => Node::Unit,
        2 => Node::None,
        3 => Node::Bool(u.arbitrary()?),
        4 => Node::I8(u.arbitrary()?),
        5 => Node::I16(u.arbitrary()?),
        6 => Node::I32(u.arbitrary()?),
        7 => Node::I64(*u.choose(&[i64::MIN, i64::MAX, 0, -1])?),
        8 => Node::I64(u.arbitrary()?),
        9 => Node::U64(*u.choose(&[u64::MAX, i64::MAX as u64, i64::MAX as u64 + 1, 0])?),
        10 => Node::U64(u.arbitrary()?),
        11 => Node::i128(*u.choose(&[i128::MIN, i128::MAX, i64::MIN as i128 - 1, i64::MAX as i128 + 1])?),
        12 => Node::u128(u.arbitrary()?),
        13 => Node::F64(*u.choose(&[f64::NAN.to_bits(), f64::INFINITY.to_bits(), f64::NEG_INFINITY.to_bits(), (-0.0f64).to_bits(), f64::MAX.to_bits(), 5e-324f64.to_bits()])?),
        14 => Node::F64(u.arbitrary()?),
        15 => Node::F32(u.arbitrary()?),
        16 => Node::Char(u.arbitrary()?),
        17 => Node::Bytes(u.arbitrary::<Vec<u8>>()?.into_iter().take(6).collect()),
        18 => Node::Variant { name: u.int_in_range(0..=3)?, variant: u.int_in_range(0..=4)?, body: VBody::Unit },
        _ => Node::Str(text(u)?),
    })
}

fn nodes(u: &mut Unstructured, depth: u32, max: usize) -> Result<Vec<Node>> {
    let n = u.int_in_range(0..=max)?;
    (0..n).map(|_| value(u, depth)).collect()
}

pub fn value(u: &mut Unstructured, depth: u32) -> Result<Node> {
    if depth == 0 || u.ratio(2, 5)? {
        return leaf(u);
    }
    let d = depth - 1;
    Ok(match u.int_in_range(0..=8)? {
        0 | 1 => Node::Seq(nodes(u, d, 3)?),
        2 => Node::Tuple(nodes(u, d, 3)?),
        3 | 4 => {
            let n = u.int_in_range(0..=3)?;
            let mut entries = Vec::new();
            for _ in 0..n {
                let k = if u.ratio(3, 4)? { Node::Str(text(u)?) } else { value(u, d.min(1))? };
                entries.push((k, value(u, d)?));
            }
            Node::Map(node::fix_keys(entries))
        }
        5 => Node::Struct { name: u.int_in_range(0..=3)?, first: u.int_in_range(0..=9)?, fields: nodes(u, d, 3)? },
        6 => Node::Some(Box::new(value(u, d)?)),
        7 => Node::Variant { name: u.int_in_range(0..=3)?, variant: u.int_in_range(0..=4)?, body: VBody::Newtype(Box::new(value(u, d)?)) },
        _ => {
            let body = if u.arbitrary()? { VBody::Tuple(nodes(u, d, 2)?) } else { VBody::Struct { first: u.int_in_range(0..=9)?, fields: nodes(u, d, 2)? } };
            Node::Variant { name: u.int_in_range(0..=3)?, variant: u.int_in_range(0..=4)?, body }
        }
    })
}

fn ts(u: &mut Unstructured) -> Result<Ts> {
    let secs = if u.ratio(1, 3)? { *u.choose(&[0, 1_700_000_000, 18_446_744_073, 18_446_744_074, MAX_SECS])? } else { u.int_in_range(0..=MAX_SECS)? };
    Ok(Ts(secs, u.int_in_range(0..=999_999_999)?))
}

fn prop_value(u: &mut Unstructured) -> Result<PV> {
    Ok(match u.int_in_range(0..=11)? {
        0 => PV::Level(u.int_in_range(0..=3)?),
        1 => PV::Kind(u.int_in_range(0..=1)?),
        2 => PV::TraceId(u.arbitrary::<u128>()?.max(1).to_string()),
        3 => PV::SpanId(u.arbitrary::<u64>()?.max(1)),
        4 => {
            let n = u.int_in_range(1..=3)?;
            PV::Error((0..n).map(|_| text(u)).collect::<Result<Vec<_>>>()?)
        }
        _ => PV::Node {
            node: value(u, 3)?,
            cap: u.choose(&[Cap::Sval, Cap::Serde, Cap::Sval, Cap::Serde, Cap::Prim, Cap::Display, Cap::Debug])?.clone(),
        },
    })
}

pub fn event(u: &mut Unstructured) -> Result<Ev> {
    const KEYS: [&str; 16] = [
        "a", "b", "user", "k", "evt_kind", "lvl", "err", "span_name", "trace_id", "span_id", "span_parent", "metric_name",
        "metric_agg", "metric_value", "metric_unit", "http.method",
    ];
    let n = u.int_in_range(0..=7)?;
    let mut props = Vec::new();
    for _ in 0..n {
        let mut key = if u.ratio(3, 4)? { u.choose(&KEYS)?.to_string() } else { text(u)? };
        // keys real callers never produce (see ASSUMPTIONS of the check)
        while RESERVED.contains(&key.as_str()) || key.starts_with("exception.") {
            key.push('_');
        }
        // well-known keys get values from their own family most of the time, so the mapping code is reached
        let val = match key.as_str() {
            "evt_kind" if u.ratio(4, 5)? => PV::Kind(u.int_in_range(0..=1)?),
            "metric_agg" if u.ratio(4, 5)? => PV::Node { node: Node::str(u.choose(&["sum", "count", "last", "min"])?), cap: Cap::Prim },
            "metric_value" if u.ratio(4, 5)? => {
                let n = u.int_in_range(0..=5)?;
                let mut items = Vec::new();
                for _ in 0..n {
                    items.push(if u.arbitrary()? { Node::I64(u.arbitrary()?) } else { Node::F64(u.arbitrary()?) });
                }
                PV::Node { node: if n == 1 { items.remove(0) } else { Node::Seq(items) }, cap: Cap::Sval }
            }
            "lvl" if u.ratio(3, 5)? => PV::Level(u.int_in_range(0..=3)?),
            "trace_id" if u.ratio(3, 5)? => PV::TraceId(u.arbitrary::<u128>()?.max(1).to_string()),
            "span_id" | "span_parent" if u.ratio(3, 5)? => PV::SpanId(u.arbitrary::<u64>()?.max(1)),
            _ => prop_value(u)?,
        };
        props.push(Prop { key, val });
    }
    let _ = WELL_KNOWN;
    let extent = match u.int_in_range(0..=2)? {
        0 => Ext::None,
        1 => Ext::Point(ts(u)?),
        _ => {
            let (a, b) = (ts(u)?, ts(u)?);
            if a.nanos() <= b.nanos() { Ext::Range(a, b) } else { Ext::Range(b, a) }
        }
    };
    let n = u.int_in_range(0..=3)?;
    let mut tpl = Vec::new();
    for _ in 0..n {
        tpl.push(if u.arbitrary()? || props.is_empty() {
            TplPart::Text(text(u)?)
        } else {
            TplPart::Hole(props[u.choose_index(props.len())?].key.clone())
        });
    }
    let segs = u.int_in_range(1..=3)?;
    let mdl = (0..segs).map(|_| Ok(u.choose(&["app", "db", "http", "x1", "m_2"])?.to_string())).collect::<Result<Vec<_>>>()?;
    Ok(Ev { mdl, tpl, extent, props, layout: Default::default() })
}

/// libFuzzer entry: decode, run the file + OTLP oracles, abort (panic) on a violation that is not a
/// listed known finding.
pub fn fuzz_entry_value_to_sinks(data: &[u8]) {
    crate::QUIET_CAUGHT_PANICS.store(true, std::sync::atomic::Ordering::Relaxed);
    let mut u = Unstructured::new(data);
    let Ok(ev) = event(&mut u) else { return };
    let r = vcore::with_cx("C13", |cx| check_event(&ev, cx, Sinks { file: true, otlp: true, term: false }));
    if let Err(f) = r {
        panic!("C13 violation {}: {}\ncase: {}", f.sig, f.msg, serde_json::to_string(&ev).unwrap_or_default());
    }
}
