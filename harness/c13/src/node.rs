//! The value-shape grammar of C13: a recursive `Node` with HAND-WRITTEN `sval::Value` and
//! `serde::Serialize` implementations (so that every streaming call a real user type could make is
//! reachable: records, tuples, enum variants, maps with arbitrary keys, tagged options, bytes …),
//! plus its proptest strategies and the structural classifiers the oracle needs.

use serde::{Deserialize, Serialize};
use vcore::proptest::prelude::*;

/// Static name pools: serde needs `&'static str` for struct / variant / field names.
/// (all valid Rust identifiers: labels produced by derives are identifiers, and sval_json relies on it)
pub const FIELD_NAMES: [&str; 10] = ["a", "b", "id", "name", "value", "héllo", "r#type", "x_1", "Z", "kq"];
pub const TYPE_NAMES: [&str; 4] = ["Point", "Wrapper", "Shape", "E"];
pub const VARIANT_NAMES: [&str; 5] = ["A", "Circle", "Some", "none", "Variant2"];

/// One value of the grammar. Floats are stored as bit patterns and 128-bit integers as decimal text
/// so that a case survives the JSON replay file unchanged (JSON has neither NaN nor 128-bit numbers).
#[derive(Clone, Debug, PartialEq, Eq, Serialize, Deserialize)]
pub enum Node {
    /// `Stream::null`
    Null,
    /// `()`
    Unit,
    Bool(bool),
    I8(i8),
    I16(i16),
    I32(i32),
    I64(i64),
    /// decimal text of an `i128`
    I128(String),
    U8(u8),
    U16(u16),
    U32(u32),
    U64(u64),
    /// decimal text of a `u128`
    U128(String),
    /// bits of an `f32`
    F32(u32),
    /// bits of an `f64`
    F64(u64),
    Str(String),
    Char(char),
    Bytes(Vec<u8>),
    /// `Option::None`
    None,
    /// `Option::Some`
    Some(Box<Node>),
    Seq(Vec<Node>),
    Tuple(Vec<Node>),
    /// keys are arbitrary nodes (string keys and every other shape)
    Map(Vec<(Node, Node)>),
    /// `name`: index into TYPE_NAMES; field i is called FIELD_NAMES[(first + i) % len]
    Struct { name: u8, first: u8, fields: Vec<Node> },
    Variant { name: u8, variant: u8, body: VBody },
}

#[derive(Clone, Debug, PartialEq, Eq, Serialize, Deserialize)]
pub enum VBody {
    Unit,
    Newtype(Box<Node>),
    Tuple(Vec<Node>),
    /// field i is called FIELD_NAMES[(first + i) % len]
    Struct { first: u8, fields: Vec<Node> },
}

pub fn field_name(first: u8, i: usize) -> &'static str {
    FIELD_NAMES[(first as usize + i) % FIELD_NAMES.len()]
}
pub fn type_name(i: u8) -> &'static str {
    TYPE_NAMES[i as usize % TYPE_NAMES.len()]
}
pub fn variant_name(i: u8) -> &'static str {
    VARIANT_NAMES[i as usize % VARIANT_NAMES.len()]
}

impl Node {
    pub fn i128(v: i128) -> Node {
        Node::I128(v.to_string())
    }
    pub fn u128(v: u128) -> Node {
        Node::U128(v.to_string())
    }
    pub fn f64(v: f64) -> Node {
        Node::F64(v.to_bits())
    }
    pub fn f32(v: f32) -> Node {
        Node::F32(v.to_bits())
    }
    pub fn str(s: &str) -> Node {
        Node::Str(s.to_string())
    }
}

fn p128i(s: &str) -> i128 {
    s.parse().unwrap_or(0)
}
fn p128u(s: &str) -> u128 {
    s.parse().unwrap_or(0)
}

// ---------------------------------------------------------------------------------------------
// sval

impl sval::Value for Node {
    fn stream<'sval, S: sval::Stream<'sval> + ?Sized>(&'sval self, s: &mut S) -> sval::Result {
        use sval::{Index, Label};
        match self {
            Node::Null => s.null(),
            Node::Unit => s.tag(Some(&sval::tags::RUST_UNIT), None, None),
            Node::Bool(v) => s.bool(*v),
            Node::I8(v) => s.i8(*v),
            Node::I16(v) => s.i16(*v),
            Node::I32(v) => s.i32(*v),
            Node::I64(v) => s.i64(*v),
            Node::I128(v) => s.i128(p128i(v)),
            Node::U8(v) => s.u8(*v),
            Node::U16(v) => s.u16(*v),
            Node::U32(v) => s.u32(*v),
            Node::U64(v) => s.u64(*v),
            Node::U128(v) => s.u128(p128u(v)),
            Node::F32(b) => s.f32(f32::from_bits(*b)),
            Node::F64(b) => s.f64(f64::from_bits(*b)),
            Node::Str(v) => {
                s.text_begin(Some(v.len()))?;
                s.text_fragment(v)?;
                s.text_end()
            }
            Node::Char(c) => {
                let mut buf = [0; 4];
                let v = &*c.encode_utf8(&mut buf);
                s.text_begin(Some(v.len()))?;
                s.text_fragment_computed(v)?;
                s.text_end()
            }
            Node::Bytes(v) => {
                s.binary_begin(Some(v.len()))?;
                s.binary_fragment(v)?;
                s.binary_end()
            }
            Node::None => s.tag(
                Some(&sval::tags::RUST_OPTION_NONE),
                Some(&Label::new("None").with_tag(&sval::tags::VALUE_IDENT)),
                Some(&Index::new(0).with_tag(&sval::tags::VALUE_OFFSET)),
            ),
            Node::Some(v) => {
                let l = Label::new("Some").with_tag(&sval::tags::VALUE_IDENT);
                let i = Index::new(1).with_tag(&sval::tags::VALUE_OFFSET);
                s.tagged_begin(Some(&sval::tags::RUST_OPTION_SOME), Some(&l), Some(&i))?;
                s.value(&**v)?;
                s.tagged_end(Some(&sval::tags::RUST_OPTION_SOME), Some(&l), Some(&i))
            }
            Node::Seq(items) => {
                s.seq_begin(Some(items.len()))?;
                for it in items {
                    s.seq_value_begin()?;
                    s.value(it)?;
                    s.seq_value_end()?;
                }
                s.seq_end()
            }
            Node::Tuple(items) => {
                s.tuple_begin(None, None, None, Some(items.len()))?;
                for (i, it) in items.iter().enumerate() {
                    let idx = Index::new(i);
                    s.tuple_value_begin(None, &idx)?;
                    s.value(it)?;
                    s.tuple_value_end(None, &idx)?;
                }
                s.tuple_end(None, None, None)
            }
            Node::Map(entries) => {
                s.map_begin(Some(entries.len()))?;
                for (k, v) in entries {
                    s.map_key_begin()?;
                    s.value(k)?;
                    s.map_key_end()?;
                    s.map_value_begin()?;
                    s.value(v)?;
                    s.map_value_end()?;
                }
                s.map_end()
            }
            Node::Struct { name, first, fields } => {
                let l = Label::new(type_name(*name));
                s.record_begin(None, Some(&l), None, Some(fields.len()))?;
                for (i, f) in fields.iter().enumerate() {
                    let fl = Label::new(field_name(*first, i)).with_tag(&sval::tags::VALUE_IDENT);
                    s.record_value_begin(None, &fl)?;
                    s.value(f)?;
                    s.record_value_end(None, &fl)?;
                }
                s.record_end(None, Some(&l), None)
            }
            Node::Variant { name, variant, body } => {
                let el = Label::new(type_name(*name));
                let vl = Label::new(variant_name(*variant)).with_tag(&sval::tags::VALUE_IDENT);
                let vi = Index::new(*variant as usize).with_tag(&sval::tags::VALUE_OFFSET);
                s.enum_begin(None, Some(&el), None)?;
                match body {
                    VBody::Unit => s.tag(None, Some(&vl), Some(&vi))?,
                    VBody::Newtype(v) => {
                        s.tagged_begin(None, Some(&vl), Some(&vi))?;
                        s.value(&**v)?;
                        s.tagged_end(None, Some(&vl), Some(&vi))?;
                    }
                    VBody::Tuple(items) => {
                        s.tuple_begin(None, Some(&vl), Some(&vi), Some(items.len()))?;
                        for (i, it) in items.iter().enumerate() {
                            let idx = Index::new(i);
                            s.tuple_value_begin(None, &idx)?;
                            s.value(it)?;
                            s.tuple_value_end(None, &idx)?;
                        }
                        s.tuple_end(None, Some(&vl), Some(&vi))?;
                    }
                    VBody::Struct { first, fields } => {
                        s.record_begin(None, Some(&vl), Some(&vi), Some(fields.len()))?;
                        for (i, f) in fields.iter().enumerate() {
                            let fl = Label::new(field_name(*first, i)).with_tag(&sval::tags::VALUE_IDENT);
                            s.record_value_begin(None, &fl)?;
                            s.value(f)?;
                            s.record_value_end(None, &fl)?;
                        }
                        s.record_end(None, Some(&vl), Some(&vi))?;
                    }
                }
                s.enum_end(None, Some(&el), None)
            }
        }
    }
}

// ---------------------------------------------------------------------------------------------
// serde

/// `Node` derives `serde::Serialize` for the replay file (its *case* encoding). The encoding that is
/// handed to emit as a *captured value* is this hand-written one, behind a wrapper.
pub struct AsSerde<'a>(pub &'a Node);

impl<'a> serde::Serialize for AsSerde<'a> {
    fn serialize<S: serde::Serializer>(&self, s: S) -> Result<S::Ok, S::Error> {
        use serde::ser::{
            SerializeMap, SerializeSeq, SerializeStruct, SerializeStructVariant, SerializeTuple,
            SerializeTupleVariant,
        };
        match self.0 {
            Node::Null | Node::Unit => s.serialize_unit(),
            Node::Bool(v) => s.serialize_bool(*v),
            Node::I8(v) => s.serialize_i8(*v),
            Node::I16(v) => s.serialize_i16(*v),
            Node::I32(v) => s.serialize_i32(*v),
            Node::I64(v) => s.serialize_i64(*v),
            Node::I128(v) => s.serialize_i128(p128i(v)),
            Node::U8(v) => s.serialize_u8(*v),
            Node::U16(v) => s.serialize_u16(*v),
            Node::U32(v) => s.serialize_u32(*v),
            Node::U64(v) => s.serialize_u64(*v),
            Node::U128(v) => s.serialize_u128(p128u(v)),
            Node::F32(b) => s.serialize_f32(f32::from_bits(*b)),
            Node::F64(b) => s.serialize_f64(f64::from_bits(*b)),
            Node::Str(v) => s.serialize_str(v),
            Node::Char(c) => s.serialize_char(*c),
            Node::Bytes(v) => s.serialize_bytes(v),
            Node::None => s.serialize_none(),
            Node::Some(v) => s.serialize_some(&AsSerde(v)),
            Node::Seq(items) => {
                let mut q = s.serialize_seq(Some(items.len()))?;
                for it in items {
                    q.serialize_element(&AsSerde(it))?;
                }
                q.end()
            }
            Node::Tuple(items) => {
                let mut q = s.serialize_tuple(items.len())?;
                for it in items {
                    q.serialize_element(&AsSerde(it))?;
                }
                q.end()
            }
            Node::Map(entries) => {
                let mut m = s.serialize_map(Some(entries.len()))?;
                for (k, v) in entries {
                    m.serialize_entry(&AsSerde(k), &AsSerde(v))?;
                }
                m.end()
            }
            Node::Struct { name, first, fields } => {
                let mut st = s.serialize_struct(type_name(*name), fields.len())?;
                for (i, f) in fields.iter().enumerate() {
                    st.serialize_field(field_name(*first, i), &AsSerde(f))?;
                }
                st.end()
            }
            Node::Variant { name, variant, body } => {
                let (n, vi, vn) = (type_name(*name), *variant as u32, variant_name(*variant));
                match body {
                    VBody::Unit => s.serialize_unit_variant(n, vi, vn),
                    VBody::Newtype(v) => s.serialize_newtype_variant(n, vi, vn, &AsSerde(v)),
                    VBody::Tuple(items) => {
                        let mut t = s.serialize_tuple_variant(n, vi, vn, items.len())?;
                        for it in items {
                            t.serialize_field(&AsSerde(it))?;
                        }
                        t.end()
                    }
                    VBody::Struct { first, fields } => {
                        let mut t = s.serialize_struct_variant(n, vi, vn, fields.len())?;
                        for (i, f) in fields.iter().enumerate() {
                            t.serialize_field(field_name(*first, i), &AsSerde(f))?;
                        }
                        t.end()
                    }
                }
            }
        }
    }
}

// ---------------------------------------------------------------------------------------------
// Display / Debug text of a node (for values captured through `from_display` / `from_debug`): the
// harness owns this rendering, so the expected sink output is exactly this text as a string.

pub struct AsText<'a>(pub &'a Node);

impl<'a> std::fmt::Display for AsText<'a> {
    fn fmt(&self, f: &mut std::fmt::Formatter<'_>) -> std::fmt::Result {
        write_text(self.0, f)
    }
}
impl<'a> std::fmt::Debug for AsText<'a> {
    fn fmt(&self, f: &mut std::fmt::Formatter<'_>) -> std::fmt::Result {
        f.write_str("dbg:")?;
        write_text(self.0, f)
    }
}

fn write_text(n: &Node, f: &mut std::fmt::Formatter<'_>) -> std::fmt::Result {
    match n {
        Node::Null => f.write_str("null"),
        Node::Unit => f.write_str("()"),
        Node::Bool(v) => write!(f, "{v}"),
        Node::I8(v) => write!(f, "{v}"),
        Node::I16(v) => write!(f, "{v}"),
        Node::I32(v) => write!(f, "{v}"),
        Node::I64(v) => write!(f, "{v}"),
        Node::I128(v) | Node::U128(v) => f.write_str(v),
        Node::U8(v) => write!(f, "{v}"),
        Node::U16(v) => write!(f, "{v}"),
        Node::U32(v) => write!(f, "{v}"),
        Node::U64(v) => write!(f, "{v}"),
        Node::F32(b) => write!(f, "f32#{b:x}"),
        Node::F64(b) => write!(f, "f64#{b:x}"),
        Node::Str(v) => f.write_str(v),
        Node::Char(c) => write!(f, "{c}"),
        Node::Bytes(v) => write!(f, "bytes#{}", v.len()),
        Node::None => f.write_str("None"),
        Node::Some(v) => {
            f.write_str("Some(")?;
            write_text(v, f)?;
            f.write_str(")")
        }
        Node::Seq(items) | Node::Tuple(items) => {
            f.write_str("[")?;
            for (i, it) in items.iter().enumerate() {
                if i > 0 {
                    f.write_str(", ")?;
                }
                write_text(it, f)?;
            }
            f.write_str("]")
        }
        Node::Map(entries) => {
            f.write_str("{")?;
            for (i, (k, v)) in entries.iter().enumerate() {
                if i > 0 {
                    f.write_str(", ")?;
                }
                write_text(k, f)?;
                f.write_str(": ")?;
                write_text(v, f)?;
            }
            f.write_str("}")
        }
        Node::Struct { name, fields, .. } => write!(f, "{}#{}", type_name(*name), fields.len()),
        Node::Variant { name, variant, .. } => {
            write!(f, "{}::{}", type_name(*name), variant_name(*variant))
        }
    }
}

// ---------------------------------------------------------------------------------------------
// Classifiers

#[derive(Default, Debug, Clone, Copy)]
pub struct Shape {
    pub depth: u32,
    /// a map key that is not text (nor an option/newtype of text)
    pub scalar_key: bool,
    /// a map key that is a sequence, tuple, map, struct, bytes (or wraps one)
    pub composite_key: bool,
    /// a map key that is null/unit/None, a 128-bit number outside i64, a unit variant or a char:
    /// not a string in the source but not one of the shapes D10 is about
    pub odd_key: bool,
    /// a map key that is an option (`Some`) or an enum variant of any form: sval_json loses track of
    /// its internal-tagging state after such a key
    pub tagged_key: bool,
    /// a map key sval_json refuses (`invalid key`): sequence, tuple, map, struct, bytes, or an enum
    /// variant that carries data
    pub json_bad_key: bool,
    /// a tagged key (see `tagged_key`) whose VALUE opens with a label or index — a struct, an enum
    /// variant, `Some(..)`: the exact shape that makes sval_json 2.22 write unbalanced braces
    pub tagged_key_labelled_value: bool,
    pub wide_int: bool,
    pub non_finite: bool,
    pub exotic: bool,
    pub bytes: bool,
    pub nodes: u32,
}

impl Shape {
    pub fn merge(&mut self, o: Shape) {
        self.depth = self.depth.max(o.depth);
        self.scalar_key |= o.scalar_key;
        self.composite_key |= o.composite_key;
        self.odd_key |= o.odd_key;
        self.tagged_key |= o.tagged_key;
        self.json_bad_key |= o.json_bad_key;
        self.tagged_key_labelled_value |= o.tagged_key_labelled_value;
        self.wide_int |= o.wide_int;
        self.non_finite |= o.non_finite;
        self.exotic |= o.exotic;
        self.bytes |= o.bytes;
        self.nodes += o.nodes;
    }
    pub fn non_string_key(&self) -> bool {
        self.scalar_key || self.composite_key || self.odd_key
    }
}

#[derive(Clone, Copy, PartialEq, Eq, Debug)]
pub enum KeyClass {
    Text,
    Scalar,
    Composite,
    Odd,
}

/// How a node behaves in map-key position.
pub fn key_class(k: &Node) -> KeyClass {
    match k {
        Node::Str(_) => KeyClass::Text,
        Node::Char(_) => KeyClass::Odd,
        Node::Null | Node::Unit | Node::None => KeyClass::Odd,
        Node::Bool(_) => KeyClass::Scalar,
        Node::I8(_) | Node::I16(_) | Node::I32(_) | Node::I64(_) => KeyClass::Scalar,
        Node::U8(_) | Node::U16(_) | Node::U32(_) => KeyClass::Scalar,
        Node::U64(v) => {
            if *v > i64::MAX as u64 {
                KeyClass::Odd
            } else {
                KeyClass::Scalar
            }
        }
        Node::I128(v) => {
            if i64::try_from(p128i(v)).is_ok() {
                KeyClass::Scalar
            } else {
                KeyClass::Odd
            }
        }
        Node::U128(v) => {
            if i64::try_from(p128u(v)).is_ok() {
                KeyClass::Scalar
            } else {
                KeyClass::Odd
            }
        }
        Node::F32(_) | Node::F64(_) => KeyClass::Scalar,
        Node::Bytes(_) | Node::Seq(_) | Node::Tuple(_) | Node::Map(_) | Node::Struct { .. } => {
            KeyClass::Composite
        }
        Node::Some(v) => match key_class(v) {
            KeyClass::Text => KeyClass::Odd,
            c => c,
        },
        Node::Variant { body, .. } => match body {
            VBody::Unit => KeyClass::Odd,
            VBody::Newtype(v) => match key_class(v) {
                KeyClass::Text => KeyClass::Odd,
                c => c,
            },
            VBody::Tuple(_) | VBody::Struct { .. } => KeyClass::Composite,
        },
    }
}

/// Would sval_json refuse this node in map-key position?
pub fn json_bad_key(k: &Node) -> bool {
    match k {
        Node::Bytes(_) | Node::Seq(_) | Node::Tuple(_) | Node::Map(_) | Node::Struct { .. } => true,
        Node::Some(v) => json_bad_key(v),
        Node::Variant { body, .. } => !matches!(body, VBody::Unit),
        _ => false,
    }
}

pub fn shape(n: &Node) -> Shape {
    let mut s = Shape { nodes: 1, ..Shape::default() };
    let mut kids = Shape::default();
    let mut has_kids = false;
    let child = |c: &Node, kids: &mut Shape| {
        kids.merge(shape(c));
    };
    match n {
        Node::I128(v) => s.wide_int = i64::try_from(p128i(v)).is_err(),
        Node::U128(v) => s.wide_int = i64::try_from(p128u(v)).is_err(),
        Node::F32(b) => s.non_finite = !f32::from_bits(*b).is_finite(),
        Node::F64(b) => s.non_finite = !f64::from_bits(*b).is_finite(),
        Node::Bytes(_) => s.bytes = true,
        Node::Some(v) => {
            // an option adds no structural depth
            let inner = shape(v);
            let d = inner.depth;
            s.merge(inner);
            s.depth = d;
            return s;
        }
        Node::Seq(items) | Node::Tuple(items) => {
            has_kids = true;
            for it in items {
                child(it, &mut kids);
            }
        }
        Node::Map(entries) => {
            has_kids = true;
            for (k, v) in entries {
                match key_class(k) {
                    KeyClass::Text => {}
                    KeyClass::Scalar => s.scalar_key = true,
                    KeyClass::Composite => s.composite_key = true,
                    KeyClass::Odd => s.odd_key = true,
                }
                if matches!(k, Node::Some(_) | Node::Variant { .. }) {
                    s.tagged_key = true;
                    if matches!(v, Node::Struct { .. } | Node::Variant { .. } | Node::Some(_)) {
                        s.tagged_key_labelled_value = true;
                    }
                }
                if json_bad_key(k) {
                    s.json_bad_key = true;
                }
                child(k, &mut kids);
                child(v, &mut kids);
            }
        }
        Node::Struct { fields, .. } => {
            has_kids = true;
            for f in fields {
                child(f, &mut kids);
            }
        }
        Node::Variant { body, .. } => {
            s.exotic = true;
            has_kids = true;
            match body {
                VBody::Unit => {}
                VBody::Newtype(v) => child(v, &mut kids),
                VBody::Tuple(items) => {
                    for it in items {
                        child(it, &mut kids);
                    }
                }
                VBody::Struct { fields, .. } => {
                    for f in fields {
                        child(f, &mut kids);
                    }
                }
            }
        }
        _ => {}
    }
    let kd = kids.depth;
    s.merge(kids);
    s.depth = if has_kids { 1 + kd } else { 0 };
    s
}

// ---------------------------------------------------------------------------------------------
// Strategies

pub fn text() -> impl Strategy<Value = String> {
    let ch = prop_oneof![
        6 => prop::sample::select(vec!['a', 'b', 'Z', '0', '9', ' ', '_', '-', '.', ':', '{', '}', '/', '%']),
        2 => prop::sample::select(vec!['"', '\\', '\'', '<', '&']),
        2 => prop::sample::select(vec!['\0', '\n', '\r', '\t', '\u{1b}', '\u{7f}', '\u{8}', '\u{c}', '\u{1f}']),
        3 => prop::sample::select(vec!['é', 'ß', '漢', '😀', '\u{2028}', '\u{fffd}', '\u{80}', '\u{ffff}', '\u{10ffff}', 'Ω']),
        1 => any::<char>(),
    ];
    prop::collection::vec(ch, 0..8).prop_map(|v| v.into_iter().collect())
}

fn f64_bits() -> impl Strategy<Value = u64> {
    prop_oneof![
        3 => prop::sample::select(vec![
            0.0f64.to_bits(), (-0.0f64).to_bits(), 1.0f64.to_bits(), (-1.5f64).to_bits(), 0.1f64.to_bits(),
            f64::MAX.to_bits(), f64::MIN.to_bits(), f64::MIN_POSITIVE.to_bits(), f64::EPSILON.to_bits(),
            1e300f64.to_bits(), 5e-324f64.to_bits(), 9007199254740993.0f64.to_bits(), 1e21f64.to_bits(),
        ]),
        2 => prop::sample::select(vec![
            f64::NAN.to_bits(), (-f64::NAN).to_bits(), f64::INFINITY.to_bits(), f64::NEG_INFINITY.to_bits(),
            0x7ff0_0000_0000_0001u64,
        ]),
        2 => any::<f64>().prop_map(|f| f.to_bits()),
        1 => any::<u64>(),
    ]
}

fn f32_bits() -> impl Strategy<Value = u32> {
    prop_oneof![
        3 => prop::sample::select(vec![
            0.0f32.to_bits(), (-0.0f32).to_bits(), 1.0f32.to_bits(), 0.1f32.to_bits(), f32::MAX.to_bits(),
            f32::MIN.to_bits(), f32::MIN_POSITIVE.to_bits(), 1e-45f32.to_bits(), 16777217.0f32.to_bits(),
        ]),
        2 => prop::sample::select(vec![
            f32::NAN.to_bits(), f32::INFINITY.to_bits(), f32::NEG_INFINITY.to_bits(), 0xffc0_0001u32,
        ]),
        2 => any::<f32>().prop_map(|f| f.to_bits()),
    ]
}

pub fn int_leaf() -> impl Strategy<Value = Node> {
    prop_oneof![
        prop_oneof![Just(i8::MIN), Just(i8::MAX), Just(0), any::<i8>()].prop_map(Node::I8),
        prop_oneof![Just(i16::MIN), Just(i16::MAX), any::<i16>()].prop_map(Node::I16),
        prop_oneof![Just(i32::MIN), Just(i32::MAX), Just(-1), any::<i32>()].prop_map(Node::I32),
        prop_oneof![Just(i64::MIN), Just(i64::MAX), Just(0), Just(-1), Just(1 << 53), any::<i64>()].prop_map(Node::I64),
        prop_oneof![Just(u8::MAX), any::<u8>()].prop_map(Node::U8),
        prop_oneof![Just(u16::MAX), any::<u16>()].prop_map(Node::U16),
        prop_oneof![Just(u32::MAX), any::<u32>()].prop_map(Node::U32),
        prop_oneof![Just(u64::MAX), Just(i64::MAX as u64), Just(i64::MAX as u64 + 1), Just(0), any::<u64>()].prop_map(Node::U64),
    ]
}

pub fn wide_leaf() -> impl Strategy<Value = Node> {
    prop_oneof![
        prop_oneof![
            Just(i128::MIN), Just(i128::MAX), Just(i64::MIN as i128 - 1), Just(i64::MAX as i128 + 1),
            Just(i64::MIN as i128), Just(i64::MAX as i128), Just(0i128), Just(u64::MAX as i128), any::<i128>(),
        ].prop_map(Node::i128),
        prop_oneof![
            Just(u128::MAX), Just(u64::MAX as u128 + 1), Just(u64::MAX as u128), Just(i64::MAX as u128 + 1),
            Just(i64::MAX as u128), Just(0u128), any::<u128>(),
        ].prop_map(Node::u128),
    ]
}

pub fn float_leaf() -> impl Strategy<Value = Node> {
    prop_oneof![f64_bits().prop_map(Node::F64), f32_bits().prop_map(Node::F32)]
}

pub fn leaf() -> impl Strategy<Value = Node> {
    prop_oneof![
        1 => Just(Node::Null),
        1 => Just(Node::Unit),
        1 => Just(Node::None),
        2 => any::<bool>().prop_map(Node::Bool),
        5 => int_leaf(),
        3 => wide_leaf(),
        4 => float_leaf(),
        5 => text().prop_map(Node::Str),
        1 => any::<char>().prop_map(Node::Char),
        2 => prop::collection::vec(any::<u8>(), 0..6).prop_map(Node::Bytes),
        1 => (0u8..4, 0u8..5).prop_map(|(name, variant)| Node::Variant { name, variant, body: VBody::Unit }),
    ]
}

/// Map keys: mostly text (unique by construction: a per-entry suffix is added on collision in
/// `fix_keys`), sometimes every other shape.
fn map_entries(inner: impl Strategy<Value = Node> + Clone, non_string_keys: bool) -> impl Strategy<Value = Vec<(Node, Node)>> {
    let key = if non_string_keys {
        prop_oneof![
            8 => text().prop_map(Node::Str),
            2 => any::<bool>().prop_map(Node::Bool),
            3 => int_leaf(),
            2 => float_leaf(),
            1 => wide_leaf(),
            1 => prop_oneof![Just(Node::Null), Just(Node::Unit), Just(Node::None)],
            1 => any::<char>().prop_map(Node::Char),
            1 => prop::collection::vec(any::<u8>(), 0..3).prop_map(Node::Bytes),
            1 => prop::collection::vec(int_leaf(), 0..3).prop_map(Node::Seq),
            1 => prop::collection::vec(int_leaf(), 0..3).prop_map(Node::Tuple),
            1 => prop::collection::vec((text().prop_map(Node::Str), int_leaf()), 0..2).prop_map(Node::Map),
            1 => text().prop_map(|s| Node::Some(Box::new(Node::Str(s)))),
            1 => (0u8..4, 0u8..5).prop_map(|(name, variant)| Node::Variant { name, variant, body: VBody::Unit }),
            1 => (0u8..4, 0u8..5, int_leaf()).prop_map(|(name, variant, v)| Node::Variant { name, variant, body: VBody::Newtype(Box::new(v)) }),
        ]
        .boxed()
    } else {
        text().prop_map(Node::Str).boxed()
    };
    prop::collection::vec((key, inner), 0..4).prop_map(fix_keys)
}

/// Make text keys of one map pairwise distinct (constructively; no rejection) and drop repeated
/// non-text keys — a map with two equal keys is outside the quantifier (the property's duplicate
/// keys are duplicate *event properties*).
pub fn fix_keys(mut entries: Vec<(Node, Node)>) -> Vec<(Node, Node)> {
    let mut seen: Vec<String> = Vec::new();
    let mut out = Vec::new();
    for (i, (k, v)) in entries.drain(..).enumerate() {
        // the text this key stringifies to in JSON-like sinks
        let mut t = AsText(&k).to_string();
        let k = if seen.contains(&t) {
            match k {
                Node::Str(s) => {
                    let s2 = format!("{s}#{i}");
                    t = s2.clone();
                    Node::Str(s2)
                }
                _ => continue,
            }
        } else {
            k
        };
        seen.push(t);
        out.push((k, v));
    }
    out
}

/// The full recursive grammar. `non_string_keys`: whether maps may have non-text keys.
pub fn node(non_string_keys: bool) -> impl Strategy<Value = Node> {
    leaf().prop_recursive(4, 24, 4, move |inner| {
        prop_oneof![
            3 => prop::collection::vec(inner.clone(), 0..4).prop_map(Node::Seq),
            1 => prop::collection::vec(inner.clone(), 0..4).prop_map(Node::Tuple),
            4 => map_entries(inner.clone(), non_string_keys).prop_map(Node::Map),
            2 => (0u8..4, 0u8..10, prop::collection::vec(inner.clone(), 0..4))
                .prop_map(|(name, first, fields)| Node::Struct { name, first, fields }),
            2 => inner.clone().prop_map(|v| Node::Some(Box::new(v))),
            1 => (0u8..4, 0u8..5, inner.clone())
                .prop_map(|(name, variant, v)| Node::Variant { name, variant, body: VBody::Newtype(Box::new(v)) }),
            1 => (0u8..4, 0u8..5, prop::collection::vec(inner.clone(), 0..3))
                .prop_map(|(name, variant, v)| Node::Variant { name, variant, body: VBody::Tuple(v) }),
            1 => (0u8..4, 0u8..5, 0u8..10, prop::collection::vec(inner.clone(), 0..3))
                .prop_map(|(name, variant, first, fields)| Node::Variant { name, variant, body: VBody::Struct { first, fields } }),
        ]
    })
}
