//! The real emitters under test, wired to harness-owned observation points:
//! * four `emit_otlp` instances (all three signals × {protobuf, JSON}; logs only × {protobuf, JSON})
//!   pointed at one ack-everything HTTP/1.1 listener,
//! * one `emit_file` rolling file set in a scratch directory,
//! * `emit_term` in a child process (re-exec of this binary with a hidden sub-command).
//! A `Pipeline` is used by one case at a time (taken from a pool), so everything captured between
//! "emit" and "flush returned" belongs to that case.

use crate::event::Ev;
use crate::http::{Collector, Req};
use emit::Emitter;
use std::collections::HashMap;
use std::io::{Read, Seek, SeekFrom, Write};
use std::path::PathBuf;
use std::sync::atomic::{AtomicU64, Ordering};
use std::sync::Mutex;
use std::time::Duration;

pub const FLUSH: Duration = Duration::from_secs(60);

pub struct Pipeline {
    pub collector: Collector,
    pub full_proto: emit_otlp::Otlp,
    pub full_json: emit_otlp::Otlp,
    pub logs_proto: emit_otlp::Otlp,
    pub logs_json: emit_otlp::Otlp,
    pub file: emit_file::FileSet,
    pub dir: PathBuf,
    offsets: HashMap<PathBuf, u64>,
}

static NEXT_DIR: AtomicU64 = AtomicU64::new(0);
static POOL: Mutex<Vec<Pipeline>> = Mutex::new(Vec::new());

pub fn scratch_root() -> PathBuf {
    let base = std::env::var("VERIF_DIR").unwrap_or_else(|_| "/verif".into());
    PathBuf::from(base).join("harness").join("target").join("c13-files").join(std::process::id().to_string())
}

fn http(c: &Collector, path: &str) -> emit_otlp::OtlpTransportBuilder {
    emit_otlp::http(c.url(path)).allow_compression(false)
}

impl Pipeline {
    pub fn new() -> Pipeline {
        let collector = Collector::start().expect("loopback listener");
        let c = &collector;
        let full_proto = emit_otlp::new()
            .logs(emit_otlp::logs_proto(http(c, "fp/v1/logs")))
            .traces(emit_otlp::traces_proto(http(c, "fp/v1/traces")))
            .metrics(emit_otlp::metrics_proto(http(c, "fp/v1/metrics")))
            .spawn();
        let full_json = emit_otlp::new()
            .logs(emit_otlp::logs_json(http(c, "fj/v1/logs")))
            .traces(emit_otlp::traces_json(http(c, "fj/v1/traces")))
            .metrics(emit_otlp::metrics_json(http(c, "fj/v1/metrics")))
            .spawn();
        let logs_proto = emit_otlp::new().logs(emit_otlp::logs_proto(http(c, "lp/v1/logs"))).spawn();
        let logs_json = emit_otlp::new().logs(emit_otlp::logs_json(http(c, "lj/v1/logs"))).spawn();
        let dir = scratch_root().join(format!("p{}", NEXT_DIR.fetch_add(1, Ordering::SeqCst)));
        std::fs::create_dir_all(&dir).expect("scratch dir");
        let file = emit_file::set(dir.join("log.txt")).spawn();
        Pipeline { collector, full_proto, full_json, logs_proto, logs_json, file, dir, offsets: HashMap::new() }
    }

    /// Bytes appended to the file set since the last call (files in name order).
    pub fn new_file_bytes(&mut self) -> std::io::Result<Vec<u8>> {
        let mut names: Vec<PathBuf> = std::fs::read_dir(&self.dir)?.filter_map(|e| e.ok()).map(|e| e.path()).collect();
        names.sort();
        let mut out = Vec::new();
        for n in names {
            let off = self.offsets.get(&n).copied().unwrap_or(0);
            let mut f = std::fs::File::open(&n)?;
            let len = f.metadata()?.len();
            if len > off {
                f.seek(SeekFrom::Start(off))?;
                f.read_to_end(&mut out)?;
                self.offsets.insert(n, len);
            }
        }
        Ok(out)
    }

    pub fn take_requests(&self) -> Vec<Req> {
        self.collector.take()
    }
}

/// Module path of the warm-up events (cannot collide with generated modules: segments there have ≤ 6 characters).
pub const WARMUP_MDL: &str = "c13_warmup";

/// The batcher's receivers poll with an idle back-off (1 ms doubling up to 500 ms, reset by every
/// non-empty batch). With three signals per emitter, a signal that has not seen an event for a few
/// cases makes the next flush wait for its whole back-off. One throw-away event per signal per case
/// keeps every receiver at the short end; the oracle drops records whose scope is `WARMUP_MDL`.
pub fn warm_up(em: &emit_otlp::Otlp) {
    let ts = |s: u64| emit::Timestamp::from_unix(Duration::from_secs(s)).unwrap();
    let mdl = emit::Path::new_raw(WARMUP_MDL);
    let tpl = emit::Template::literal("w");
    em.emit(emit::Event::new(mdl.clone(), tpl.clone(), emit::Empty, emit::Empty));
    let span_props = [
        ("evt_kind", emit::Value::from("span")),
        ("trace_id", emit::Value::from("00000000000000000000000000000001")),
        ("span_id", emit::Value::from("0000000000000001")),
    ];
    em.emit(emit::Event::new(mdl.clone(), tpl.clone(), ts(1)..ts(2), &span_props[..]));
    let metric_props = [
        ("evt_kind", emit::Value::from("metric")),
        ("metric_agg", emit::Value::from("count")),
        ("metric_value", emit::Value::from(1)),
    ];
    em.emit(emit::Event::new(mdl, tpl, ts(1), &metric_props[..]));
}

/// Run `f` with exclusive use of a pipeline.
pub fn with_pipeline<R>(f: impl FnOnce(&mut Pipeline) -> R) -> R {
    let p = POOL.lock().unwrap().pop();
    let mut p = p.unwrap_or_else(Pipeline::new);
    // leftovers of an aborted case (a case that failed returns before its flush) must not be attributed
    // to this one: drain every queue first (immediate when empty), then forget what arrived
    let _ = p.file.blocking_flush(FLUSH);
    for em in [&p.full_proto, &p.full_json, &p.logs_proto, &p.logs_json] {
        let _ = em.blocking_flush(FLUSH);
    }
    let _ = p.take_requests();
    let _ = p.new_file_bytes();
    let r = f(&mut p);
    POOL.lock().unwrap().push(p);
    r
}

/// Drop every pipeline and remove the scratch directory.
pub fn shutdown() {
    let all: Vec<Pipeline> = std::mem::take(&mut *POOL.lock().unwrap());
    for p in &all {
        let _ = p.file.blocking_flush(Duration::from_secs(5));
    }
    drop(all);
    let _ = std::fs::remove_dir_all(scratch_root());
    // remove the parent if it is empty now
    if let Some(parent) = scratch_root().parent() {
        let _ = std::fs::remove_dir(parent);
    }
}

// ---------------------------------------------------------------------------------------------
// Terminal writer in a child process

pub const TERM_CHILD_ARG: &str = "--c13-term-child";
pub const TERM_SEP: &str = "\u{1e}C13-TERM-SEPARATOR\u{1e}\n";

pub struct TermOut {
    pub status_ok: bool,
    pub status: String,
    pub plain: Vec<u8>,
    pub coloured: Vec<u8>,
    pub stderr: String,
}

/// Child side: read one case (JSON) from stdin, write it plain, a separator, then coloured.
pub fn term_child_main() -> ! {
    let mut input = String::new();
    let _ = std::io::stdin().read_to_string(&mut input);
    let ev: Ev = match serde_json::from_str(&input) {
        Ok(e) => e,
        Err(e) => {
            eprintln!("c13 term child: bad case: {e}");
            std::process::exit(3);
        }
    };
    let plain = emit_term::stdout().colored(false);
    let coloured = emit_term::stdout().colored(true);
    ev.emit_to(&plain);
    {
        let mut so = std::io::stdout().lock();
        let _ = so.write_all(TERM_SEP.as_bytes());
        let _ = so.flush();
    }
    // emit_term caches its buffer (and with it the colour mode) per thread: use a fresh thread
    let ev2 = ev.clone();
    let t = std::thread::spawn(move || ev2.emit_to(&coloured));
    if t.join().is_err() {
        std::process::exit(101);
    }
    let _ = std::io::stdout().flush();
    std::process::exit(0);
}

pub fn run_term_child(ev: &Ev) -> std::io::Result<TermOut> {
    use std::process::{Command, Stdio};
    let exe = std::env::current_exe()?;
    // a transient EAGAIN under load must not look like a finding: retry a few times
    let mut attempt = 0;
    let mut child = loop {
        match Command::new(&exe)
            .arg(TERM_CHILD_ARG)
            .env_remove("NO_COLOR")
            .env("RUST_BACKTRACE", "0")
            .stdin(Stdio::piped())
            .stdout(Stdio::piped())
            .stderr(Stdio::piped())
            .spawn()
        {
            Ok(c) => break c,
            Err(e) if attempt >= 8 => return Err(e),
            Err(_) => {
                attempt += 1;
                std::thread::sleep(Duration::from_millis(100 * attempt));
            }
        }
    };
    {
        let mut stdin = child.stdin.take().unwrap();
        let _ = stdin.write_all(serde_json::to_string(ev).unwrap().as_bytes());
    }
    let out = child.wait_with_output()?;
    let sep = TERM_SEP.as_bytes();
    let (plain, coloured) = match out.stdout.windows(sep.len()).position(|w| w == sep) {
        Some(p) => (out.stdout[..p].to_vec(), out.stdout[p + sep.len()..].to_vec()),
        None => (out.stdout.clone(), Vec::new()),
    };
    Ok(TermOut {
        status_ok: out.status.success(),
        status: format!("{}", out.status),
        plain,
        coloured,
        stderr: String::from_utf8_lossy(&out.stderr).into_owned(),
    })
}
