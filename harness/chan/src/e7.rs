//! E7 — OS-thread stress harness for the channel (DESIGN §2).
//!
//! Real sender threads, the real `sync::spawn` / `tokio::spawn` receivers, the real condvar / oneshot
//! wake-up paths. The schedule is whatever the OS produces under barrier-maximised contention (this
//! SAMPLES interleavings; E2 is the engine that owns the schedule). Every observable step takes a ticket
//! from one global atomic sequence, and the oracles are history invariants that hold for EVERY
//! interleaving, so no knowledge of the schedule is needed to judge a run. Wall-clock time is never a
//! verdict except for the 30 s deadlock watchdogs (a call still blocked that long while the harness holds
//! the only latch that could legitimately block it).

use std::collections::{HashMap, HashSet};
use std::sync::atomic::{AtomicBool, AtomicU64, AtomicUsize, Ordering};
use std::sync::{Arc, Barrier, Condvar, Mutex};
use std::time::{Duration, Instant};

use emit_batcher::{BatchError, Sender};
use serde::{Deserialize, Serialize};
use vcore::proptest::prelude::*;
use vcore::{Cx, Fail};

use crate::e2::Prop;

type Ch = Vec<u64>;

#[derive(Serialize, Deserialize, Debug, Clone, PartialEq)]
pub enum SOp {
    Send,
    TrySend,
    BlockingSend { ms: u16, tokio_entry: bool },
    Flush { ms: u16, tokio_entry: bool },
    Spin(u16),
    Yield,
}

#[derive(Serialize, Deserialize, Debug, Clone, Copy, PartialEq)]
pub enum POut {
    Ok,
    Err,
    Panic,
    Slow(u16),
    /// ask for the whole batch to be retried (needs hook H1 to shorten the back-off)
    RetrySame,
    /// ask for all but the first item to be retried
    RetryTail,
}

#[derive(Serialize, Deserialize, Debug, Clone)]
pub struct Workload {
    pub cap: u8,
    pub tokio_recv: bool,
    pub senders: Vec<Vec<SOp>>,
    pub outcomes: Vec<POut>,
    /// hold the processor on a latch in its first batch until every sender thread has finished
    pub stall: bool,
}

#[derive(Debug, Clone)]
struct SendRec {
    item: u64,
    accepted: bool,
    handed_back: Option<Option<u64>>,
    ticket_ret: u64,
    plain: bool,
}

#[derive(Debug, Clone)]
struct FlushRec {
    ticket_call: u64,
    ticket_ret: u64,
    ok: bool,
}

#[derive(Debug, Clone)]
struct BatchRec {
    items: Vec<u64>,
    ticket_ret: u64,
    /// false for a re-delivery of exactly the remainder the processor returned
    first: bool,
    /// items whose final attempt this was (everything not in a remainder that will be retried)
    finals: Vec<u64>,
}

struct Latch {
    open: Mutex<bool>,
    cv: Condvar,
}

fn payload_msg(p: &Box<dyn std::any::Any + Send>) -> String {
    if let Some(s) = p.downcast_ref::<&str>() {
        s.to_string()
    } else if let Some(s) = p.downcast_ref::<String>() {
        s.clone()
    } else {
        "<non-string panic payload>".to_string()
    }
}

fn spin(n: u16) {
    for _ in 0..n {
        std::hint::spin_loop();
    }
}

pub struct Outcome7 {
    pub fails: Vec<(Prop, Fail)>,
    pub truncated: usize,
    pub batches: usize,
    pub flush_true: usize,
    pub handed_back: usize,
    pub delivered: usize,
    pub accepted: usize,
    pub multi_item_batches: usize,
    pub retries: usize,
}

fn sample(sender: &Sender<Ch>) -> crate::e2::M {
    use emit::metric::Source;
    struct S(std::cell::RefCell<crate::e2::M>);
    impl emit::metric::sampler::Sampler for S {
        fn metric<P: emit::Props>(&self, metric: emit::metric::Metric<P>) {
            let v = metric.value().by_ref().cast::<usize>().unwrap_or(usize::MAX);
            let mut m = self.0.borrow_mut();
            match metric.name().get() {
                "queue_length" => m.queue_length = v,
                "queue_full_truncated" => m.truncated = v,
                "queue_full_blocked" => m.blocked = v,
                _ => {}
            }
        }
    }
    let s = S(Default::default());
    sender.metric_source().sample_metrics(&s);
    s.0.into_inner()
}

/// join with a watchdog; returns false if the thread is still running after `limit`
fn join_within<T>(h: std::thread::JoinHandle<T>, limit: Duration) -> Option<std::thread::Result<T>> {
    let t0 = Instant::now();
    while !h.is_finished() {
        if t0.elapsed() > limit {
            return None;
        }
        std::thread::sleep(Duration::from_micros(200));
    }
    Some(h.join())
}

pub fn run(w: &Workload) -> Outcome7 {
    let cap = (w.cap as usize).max(1);
    let (sender, receiver) = emit_batcher::bounded::<Ch>(cap);
    let sender = Arc::new(sender);
    let seq = Arc::new(AtomicU64::new(1));
    let batches: Arc<Mutex<Vec<BatchRec>>> = Arc::new(Mutex::new(Vec::new()));
    let latch = Arc::new(Latch { open: Mutex::new(!w.stall), cv: Condvar::new() });
    let calls = Arc::new(AtomicUsize::new(0));
    let mut fails: Vec<(Prop, Fail)> = Vec::new();

    // hook H1: divide the 700 ms … 10 s back-off (and the idle delay) so retries cost microseconds
    emit_batcher::verif::set_delay_divisor(4000);
    let retry_fails: Arc<Mutex<Vec<Fail>>> = Arc::new(Mutex::new(Vec::new()));
    let process = {
        let (seq, batches, latch, calls, retry_fails) = (seq.clone(), batches.clone(), latch.clone(), calls.clone(), retry_fails.clone());
        let mut outcomes = if w.outcomes.is_empty() { vec![POut::Ok] } else { w.outcomes.clone() };
        if outcomes.iter().all(|o| matches!(o, POut::RetrySame | POut::RetryTail)) {
            // keep every batch within its retry budget: the script must contain a terminal outcome
            outcomes.push(POut::Ok);
        }
        // never ask for more than two consecutive retries of one batch (cyclically), so the workload stays
        // inside any sensible retry budget and "within its retry budget" below is beyond doubt
        {
            let n = outcomes.len();
            let mut run = 0;
            for i in 0..2 * n {
                let o = &mut outcomes[i % n];
                if matches!(o, POut::RetrySame | POut::RetryTail) {
                    run += 1;
                    if run > 2 {
                        *o = POut::Ok;
                        run = 0;
                    }
                } else {
                    run = 0;
                }
            }
        }
        let mut expected: Option<Vec<u64>> = None;
        move |batch: Ch| -> Result<(), BatchError<Ch>> {
            let n = calls.fetch_add(1, Ordering::SeqCst);
            {
                let mut open = latch.open.lock().unwrap();
                while !*open {
                    open = latch.cv.wait(open).unwrap();
                }
            }
            let first = match expected.take() {
                Some(e) if e == batch => false,
                Some(e) => {
                    if batch.iter().any(|x| e.contains(x)) {
                        retry_fails.lock().unwrap().push(Fail::new(
                            "C06/retry-is-not-the-remainder",
                            format!("processor returned remainder {e:?} but was re-invoked with {batch:?}"),
                        ));
                    } else {
                        retry_fails.lock().unwrap().push(Fail::new(
                            "C06/remainder-never-redelivered",
                            format!("processor returned remainder {e:?} within its retry budget but the next batch is {batch:?}"),
                        ));
                    }
                    true
                }
                None => true,
            };
            let out = outcomes[n % outcomes.len()];
            if let POut::Slow(k) = out {
                spin(k);
            }
            let rem: Option<Vec<u64>> = match out {
                POut::RetrySame => Some(batch.clone()),
                POut::RetryTail => Some(batch[1.min(batch.len())..].to_vec()),
                _ => None,
            };
            let rem = rem.filter(|r| !r.is_empty());
            let finals: Vec<u64> = match &rem {
                Some(r) => batch.iter().filter(|x| !r.contains(x)).copied().collect(),
                None => batch.clone(),
            };
            let t = seq.fetch_add(1, Ordering::SeqCst);
            batches.lock().unwrap().push(BatchRec { items: batch, ticket_ret: t, first, finals });
            match out {
                POut::Ok | POut::Slow(_) => Ok(()),
                POut::Err => Err(BatchError::no_retry(std::io::Error::new(std::io::ErrorKind::Other, "scripted"))),
                POut::Panic => panic!("scripted processor panic"),
                POut::RetrySame | POut::RetryTail => match rem {
                    Some(r) => {
                        expected = Some(r.clone());
                        Err(BatchError::retry(std::io::Error::new(std::io::ErrorKind::Other, "scripted retry"), r))
                    }
                    None => Err(BatchError::no_retry(std::io::Error::new(std::io::ErrorKind::Other, "scripted"))),
                },
            }
        }
    };
    let recv_handle = if w.tokio_recv {
        let mut process = process;
        emit_batcher::tokio::spawn("verif-e7-tokio", receiver, move |b| {
            let r = process(b);
            async move { r }
        })
    } else {
        emit_batcher::sync::spawn("verif-e7-sync", receiver, process)
    }
    .expect("spawn receiver");

    let barrier = Arc::new(Barrier::new(w.senders.len() + 1));
    let max_q = Arc::new(AtomicUsize::new(0));
    let stop_monitor = Arc::new(AtomicBool::new(false));
    let monitor = {
        let (sender, max_q, stop) = (sender.clone(), max_q.clone(), stop_monitor.clone());
        std::thread::spawn(move || {
            while !stop.load(Ordering::Relaxed) {
                let q = sample(&sender).queue_length;
                max_q.fetch_max(q, Ordering::Relaxed);
                std::thread::yield_now();
            }
        })
    };

    let mut handles = Vec::new();
    for (si, ops) in w.senders.iter().enumerate() {
        let (sender, seq, barrier, ops) = (sender.clone(), seq.clone(), barrier.clone(), ops.clone());
        handles.push(std::thread::spawn(move || {
            let mut sends: Vec<SendRec> = Vec::new();
            let mut flushes: Vec<FlushRec> = Vec::new();
            let mut n = 0u64;
            let mut next = || {
                n += 1;
                ((si as u64) << 32) | n
            };
            barrier.wait();
            for op in &ops {
                match op {
                    SOp::Send => {
                        let item = next();
                        sender.send(item);
                        let t = seq.fetch_add(1, Ordering::SeqCst);
                        sends.push(SendRec { item, accepted: true, handed_back: None, ticket_ret: t, plain: true });
                    }
                    SOp::TrySend => {
                        let item = next();
                        let r = sender.try_send(item);
                        let t = seq.fetch_add(1, Ordering::SeqCst);
                        match r {
                            Ok(()) => sends.push(SendRec { item, accepted: true, handed_back: None, ticket_ret: t, plain: false }),
                            Err(e) => sends.push(SendRec { item, accepted: false, handed_back: Some(e.into_retryable()), ticket_ret: t, plain: false }),
                        }
                    }
                    SOp::BlockingSend { ms, tokio_entry } => {
                        let item = next();
                        let d = Duration::from_millis(*ms as u64);
                        let r = if *tokio_entry {
                            emit_batcher::tokio::blocking_send(&sender, item, d)
                        } else {
                            emit_batcher::sync::blocking_send(&sender, item, d)
                        };
                        let t = seq.fetch_add(1, Ordering::SeqCst);
                        match r {
                            Ok(()) => sends.push(SendRec { item, accepted: true, handed_back: None, ticket_ret: t, plain: false }),
                            Err(e) => sends.push(SendRec { item, accepted: false, handed_back: Some(e.into_retryable()), ticket_ret: t, plain: false }),
                        }
                    }
                    SOp::Flush { ms, tokio_entry } => {
                        let d = Duration::from_millis(*ms as u64);
                        let tc = seq.fetch_add(1, Ordering::SeqCst);
                        let ok = if *tokio_entry {
                            emit_batcher::tokio::blocking_flush(&sender, d)
                        } else {
                            emit_batcher::sync::blocking_flush(&sender, d)
                        };
                        let tr = seq.fetch_add(1, Ordering::SeqCst);
                        flushes.push(FlushRec { ticket_call: tc, ticket_ret: tr, ok });
                    }
                    SOp::Spin(k) => spin(*k),
                    SOp::Yield => std::thread::yield_now(),
                }
            }
            (sends, flushes)
        }));
    }
    barrier.wait();

    let mut sends: Vec<SendRec> = Vec::new();
    let mut flushes: Vec<FlushRec> = Vec::new();
    let mut blocked_sender = false;
    for h in handles {
        match join_within(h, Duration::from_secs(30)) {
            Some(Ok((s, f))) => {
                sends.extend(s);
                flushes.extend(f);
            }
            Some(Err(payload)) => {
                let msg = payload_msg(&payload);
                fails.push((
                    Prop::C08,
                    Fail::new("C08/sender-side-call-panicked", format!("a sender thread panicked inside a channel call: {msg}")),
                ));
            }
            None => {
                blocked_sender = true;
            }
        }
    }
    if blocked_sender {
        let which = if w.stall { Prop::C09 } else { Prop::C08 };
        fails.push((
            which,
            Fail::new(
                if w.stall { "C09/sender-blocked-on-stalled-worker" } else { "C08/sender-call-never-returned" },
                "a sender thread was still inside a channel call 30 s after start (all its calls have timeouts <= 1 s)".to_string(),
            ),
        ));
    }
    // release the worker
    {
        *latch.open.lock().unwrap() = true;
        latch.cv.notify_all();
    }
    stop_monitor.store(true, Ordering::Relaxed);
    let _ = monitor.join();
    let m = sample(&sender);
    max_q.fetch_max(m.queue_length, Ordering::Relaxed);

    // drop the last sender: the receiver must deliver what is queued and terminate
    let sender = match Arc::try_unwrap(sender) {
        Ok(s) => Some(s),
        Err(_) => None, // a blocked sender thread still holds a clone
    };
    let mut joined = false;
    if let Some(s) = sender {
        drop(s);
        match join_within(recv_handle, Duration::from_secs(30)) {
            Some(_) => joined = true,
            None => fails.push((
                Prop::C08,
                Fail::new("C08/worker-did-not-terminate", "receiver thread still running 30 s after the last sender was dropped".to_string()),
            )),
        }
    }

    let batches = batches.lock().unwrap().clone();
    let truncated = m.truncated;

    // ---- oracles -----------------------------------------------------------------------------
    let accepted: HashMap<u64, &SendRec> = sends.iter().filter(|s| s.accepted).map(|s| (s.item, s)).collect();
    let mut seen: HashSet<u64> = HashSet::new();
    let mut ret_ticket: HashMap<u64, u64> = HashMap::new();
    let mut last_per_sender: HashMap<u64, u64> = HashMap::new();
    for f in retry_fails.lock().unwrap().drain(..) {
        fails.push((Prop::C06, f));
    }
    for b in &batches {
        for x in &b.finals {
            ret_ticket.insert(*x, b.ticket_ret);
        }
        if !b.first {
            continue;
        }
        if b.items.len() > cap {
            fails.push((
                Prop::C09,
                Fail::new("C09/batch-larger-than-capacity", format!("the processor was handed {} items at once although at most {cap} can be pending", b.items.len())),
            ));
        }
        if b.items.is_empty() {
            fails.push((Prop::C06, Fail::new("C06/empty-batch", "processor invoked with an empty batch".to_string())));
        }
        for x in &b.items {
            if !seen.insert(*x) {
                fails.push((Prop::C06, Fail::new("C06/item-delivered-twice", format!("item {x:#x} appears in two batches"))));
            }
            if !accepted.contains_key(x) {
                fails.push((Prop::C06, Fail::new("C06/item-never-accepted", format!("item {x:#x} delivered but its send did not report acceptance"))));
            }
            let (s, n) = (x >> 32, x & 0xffff_ffff);
            let last = last_per_sender.entry(s).or_insert(0);
            if n <= *last {
                fails.push((Prop::C06, Fail::new("C06/per-sender-order-violated", format!("sender {s}: item {n} delivered after item {last}"))));
            }
            *last = n;
        }
    }
    if joined {
        let lost = accepted.len() - seen.iter().filter(|x| accepted.contains_key(x)).count();
        if truncated == 0 && lost > 0 {
            let ex = accepted.keys().find(|x| !seen.contains(x)).unwrap();
            fails.push((
                Prop::C06,
                Fail::new("C06/item-lost", format!("{lost} accepted items (e.g. {ex:#x}) were never delivered although no truncation was counted and the receiver ran to completion")),
            ));
        } else if lost > truncated * cap {
            fails.push((
                Prop::C06,
                Fail::new("C06/more-lost-than-truncated", format!("{lost} accepted items never delivered but only {truncated} truncations of at most {cap} items were counted")),
            ));
            fails.push((
                Prop::C09,
                Fail::new("C09/discarded-without-counted-truncation", format!("{lost} accepted items never delivered but only {truncated} truncations of at most {cap} items were counted")),
            ));
        }
        // no plain send anywhere: nothing may be truncated, so every item a fallible/blocking send reported
        // as enqueued must arrive ("they either enqueue the item or hand it back")
        let any_plain = w.senders.iter().flatten().any(|o| matches!(o, SOp::Send));
        if !any_plain && (lost > 0 || truncated > 0) {
            fails.push((
                Prop::C09,
                Fail::new(
                    "C09/fallible-send-silently-discarded",
                    format!("no plain send in the workload, yet {lost} items reported as enqueued never arrived ({truncated} truncations counted)"),
                ),
            ));
        }
    }
    for f in flushes.iter().filter(|f| f.ok) {
        for s in sends.iter().filter(|s| s.accepted && s.ticket_ret < f.ticket_call) {
            // delivered items are certainly not truncated: they must have been finalised before the flush returned
            if let Some(rt) = ret_ticket.get(&s.item) {
                if *rt > f.ticket_ret {
                    fails.push((
                        Prop::C07,
                        Fail::new(
                            "C07/flush-returned-before-item-processed",
                            format!("item {:#x}: send returned at ticket {} < flush call {}, flush returned true at {} but its batch finished at {}", s.item, s.ticket_ret, f.ticket_call, f.ticket_ret, rt),
                        ),
                    ));
                }
            }
        }
    }
    let mut handed_back = 0;
    for s in &sends {
        if let Some(got) = &s.handed_back {
            handed_back += 1;
            if *got != Some(s.item) {
                fails.push((Prop::C09, Fail::new("C09/handed-back-item-differs", format!("send of {:#x} failed and handed back {got:?}", s.item))));
            }
            if seen.contains(&s.item) {
                fails.push((Prop::C09, Fail::new("C09/handed-back-but-delivered", format!("item {:#x} was handed back to the caller and also delivered", s.item))));
            }
        }
    }
    if max_q.load(Ordering::Relaxed) > cap {
        fails.push((Prop::C09, Fail::new("C09/pending-exceeds-capacity", format!("queue_length reached {} with capacity {cap}", max_q.load(Ordering::Relaxed)))));
    }
    let plain_sends = sends.iter().filter(|s| s.plain).count();
    let _ = plain_sends;
    Outcome7 {
        fails,
        truncated,
        batches: batches.iter().filter(|b| b.first).count(),
        retries: batches.iter().filter(|b| !b.first).count(),
        flush_true: flushes.iter().filter(|f| f.ok).count(),
        handed_back,
        delivered: seen.len(),
        accepted: accepted.len(),
        multi_item_batches: batches.iter().filter(|b| b.items.len() > 1).count(),
    }
}

pub fn sop(stall: bool) -> impl Strategy<Value = SOp> {
    let max_ms: u16 = if stall { 30 } else { 200 };
    prop_oneof![
        10 => Just(SOp::Send),
        3 => Just(SOp::TrySend),
        2 => (prop_oneof![Just(0u16), 1u16..=max_ms], any::<bool>()).prop_map(|(ms, tokio_entry)| SOp::BlockingSend { ms, tokio_entry }),
        2 => (prop_oneof![Just(0u16), 1u16..=max_ms], any::<bool>()).prop_map(|(ms, tokio_entry)| SOp::Flush { ms, tokio_entry }),
        3 => (0u16..2000).prop_map(SOp::Spin),
        1 => Just(SOp::Yield),
    ]
}

pub fn workload(stall_weight: u32) -> impl Strategy<Value = Workload> {
    (prop_oneof![10 => Just(false), stall_weight => Just(true)], prop_oneof![3 => Just(false), 1 => Just(true)]).prop_flat_map(|(stall, no_plain)| {
        workload_inner(stall).prop_map(move |mut w| {
            if no_plain {
                for ops in w.senders.iter_mut() {
                    for o in ops.iter_mut() {
                        if matches!(o, SOp::Send) {
                            *o = SOp::TrySend;
                        }
                    }
                }
            }
            w
        })
    })
}

fn workload_inner(stall: bool) -> impl Strategy<Value = Workload> {
    Just(stall).prop_flat_map(|stall| {
        (
            prop_oneof![1u8..=4, 1u8..=64],
            any::<bool>(),
            prop::collection::vec(prop::collection::vec(sop(stall), 1..40), 1..=6),
            prop::collection::vec(
                prop_oneof![6 => Just(POut::Ok), 2 => Just(POut::Err), 1 => Just(POut::Panic), 2 => (0u16..5000).prop_map(POut::Slow), 2 => Just(POut::RetrySame), 1 => Just(POut::RetryTail)],
                1..5,
            ),
        )
            .prop_map(move |(cap, tokio_recv, senders, outcomes)| Workload { cap, tokio_recv, senders, outcomes, stall })
    })
}

pub fn check(w: &Workload, which: Prop, cx: &mut Cx) -> vcore::Res {
    let out = run(w);
    cx.class_if(out.truncated > 0, "e7:truncation");
    cx.class_if(out.flush_true > 0, "e7:flush-true");
    cx.class_if(out.handed_back > 0, "e7:handed-back");
    cx.class_if(w.stall, "e7:stalled-worker");
    cx.class_if(w.tokio_recv, "e7:tokio-receiver");
    cx.class_if(!w.tokio_recv, "e7:sync-receiver");
    cx.class_if(w.senders.len() >= 2, "e7:senders>=2");
    cx.class_if(out.multi_item_batches > 0, "e7:multi-item-batch");
    cx.class_if(w.outcomes.iter().any(|o| matches!(o, POut::Panic | POut::Err)), "e7:failing-processor");
    cx.class_if(out.retries > 0, "e7:retry");
    cx.class_if(!w.senders.iter().flatten().any(|o| matches!(o, SOp::Send)), "e7:no-plain-send");
    cx.nontrivial(match which {
        Prop::C06 => w.senders.len() >= 2 && out.batches >= 2,
        Prop::C07 => out.flush_true > 0 && out.batches >= 1,
        Prop::C08 => w.outcomes.iter().any(|o| matches!(o, POut::Panic | POut::Err)) || w.stall,
        Prop::C09 => out.truncated > 0 || out.handed_back > 0 || w.stall,
    });
    let mut others = 0;
    for (p, f) in out.fails {
        if p == which {
            cx.fail(f.sig, f.msg)?;
        } else {
            others += 1;
        }
    }
    cx.class_if(others > 0, "other-property-oracle-failed");
    Ok(())
}

// ---------------------------------------------------------------------------------------------
// C08: blocking entry points from every calling context

#[derive(Serialize, Deserialize, Debug, Clone, Copy, PartialEq)]
pub enum Ctx {
    PlainThread,
    /// inside a task spawned on a multi-thread runtime (a worker thread)
    TokioMultiThread,
    TokioCurrentThread,
    /// in the ROOT future of a multi-thread runtime's `block_on`: an ordinary thread that is inside the runtime now
    /// and may be inside another one (or none) later
    TokioMultiThreadRoot,
}

impl Ctx {
    pub fn name(self) -> &'static str {
        match self {
            Ctx::PlainThread => "plain-thread",
            Ctx::TokioMultiThread => "tokio-multi-thread",
            Ctx::TokioCurrentThread => "tokio-current-thread",
            Ctx::TokioMultiThreadRoot => "tokio-multi-thread-root",
        }
    }

    /// Run `f` on the calling thread in this context.
    pub fn run<R: Send + 'static>(self, f: impl FnOnce() -> R + Send + 'static) -> R {
        match self {
            Ctx::PlainThread => f(),
            Ctx::TokioMultiThread => {
                let rt = tokio::runtime::Builder::new_multi_thread().worker_threads(2).enable_all().build().unwrap();
                rt.block_on(async move { tokio::spawn(async move { f() }).await.unwrap_or_else(|e| std::panic::resume_unwind(e.into_panic())) })
            }
            Ctx::TokioCurrentThread => {
                let rt = tokio::runtime::Builder::new_current_thread().enable_all().build().unwrap();
                rt.block_on(async move { f() })
            }
            Ctx::TokioMultiThreadRoot => {
                let rt = tokio::runtime::Builder::new_multi_thread().worker_threads(1).enable_all().build().unwrap();
                rt.block_on(async move { f() })
            }
        }
    }
}

#[derive(Serialize, Deserialize, Debug, Clone, Copy, PartialEq)]
pub enum RecvState {
    Live,
    Stalled,
    NeverStarted,
    Dropped,
}

#[derive(Serialize, Deserialize, Debug, Clone)]
pub struct BlockingCase {
    pub ctx: Ctx,
    pub recv: RecvState,
    pub flush: bool,
    pub tokio_entry: bool,
    pub ms: u16,
    pub cap: u8,
    pub prefill: u8,
    /// a timeout at the far end of `Duration` instead of `ms` (only against a live receiver, where the call
    /// completes on its own): 1 = Duration::MAX, 2 = u64::MAX seconds, 3 = i64::MAX seconds, 4 = 2^62 seconds
    #[serde(default)]
    pub huge: u8,
    /// the calling contexts the SAME thread made a (trivial, zero-timeout) blocking call from before the judged one,
    /// in order: "from any calling context" includes a thread that was inside another runtime a moment ago
    #[serde(default)]
    pub before: Vec<Ctx>,
}

fn any_ctx() -> impl Strategy<Value = Ctx> {
    prop_oneof![Just(Ctx::PlainThread), Just(Ctx::TokioMultiThread), Just(Ctx::TokioCurrentThread), Just(Ctx::TokioMultiThreadRoot)]
}

pub fn blocking_case() -> impl Strategy<Value = BlockingCase> {
    (
        prop_oneof![3 => Just(Ctx::PlainThread), 3 => Just(Ctx::TokioMultiThread), 3 => Just(Ctx::TokioCurrentThread), 2 => Just(Ctx::TokioMultiThreadRoot)],
        prop_oneof![3 => Just(RecvState::Live), 2 => Just(RecvState::Stalled), 1 => Just(RecvState::NeverStarted), 1 => Just(RecvState::Dropped)],
        any::<bool>(),
        prop_oneof![4 => Just(true), 1 => Just(false)],
        prop_oneof![Just(0u16), 1u16..40, Just(300u16)],
        1u8..4,
        0u8..6,
        prop_oneof![3 => Just(0u8), 2 => 1u8..5],
        prop_oneof![3 => Just(Vec::new()), 2 => prop::collection::vec(any_ctx(), 1..3)],
    )
        .prop_map(|(ctx, recv, flush, tokio_entry, ms, cap, prefill, huge, before)| BlockingCase { ctx, recv, flush, tokio_entry, ms, cap, prefill, huge: if recv == RecvState::Live { huge } else { 0 }, before })
}

/// The call must return (no panic, no deadlock): `true`/`Ok` when the work completed, `false`/`Err(item)`
/// on expiry. Timing is only ever used by the 30 s deadlock watchdog.
pub fn check_blocking(c: &BlockingCase, cx: &mut Cx) -> vcore::Res {
    let cap = c.cap.max(1) as usize;
    let (sender, receiver) = emit_batcher::bounded::<Ch>(cap);
    let sender = Arc::new(sender);
    for i in 0..c.prefill.min(c.cap) {
        let _ = sender.try_send(1000 + i as u64);
    }
    let latch = Arc::new(Latch { open: Mutex::new(c.recv != RecvState::Stalled), cv: Condvar::new() });
    let mut recv_handle = None;
    let mut parked_receiver = None;
    match c.recv {
        RecvState::Live | RecvState::Stalled => {
            let latch = latch.clone();
            recv_handle = Some(
                emit_batcher::sync::spawn("verif-e7-blocking", receiver, move |_b: Ch| {
                    let mut open = latch.open.lock().unwrap();
                    while !*open {
                        open = latch.cv.wait(open).unwrap();
                    }
                    Ok(())
                })
                .unwrap(),
            );
        }
        RecvState::NeverStarted => parked_receiver = Some(receiver),
        RecvState::Dropped => drop(receiver),
    }
    cx.class(match c.ctx {
        Ctx::PlainThread => "ctx:plain-thread",
        Ctx::TokioMultiThread => "ctx:tokio-multi-thread",
        Ctx::TokioCurrentThread => "ctx:tokio-current-thread",
        Ctx::TokioMultiThreadRoot => "ctx:tokio-multi-thread-root",
    });
    cx.class_if(!c.before.is_empty(), "ctx:same-thread-called-from-another-context-before");
    cx.class_if(c.before.iter().any(|b| *b != c.ctx && *b != Ctx::PlainThread) && c.ctx != Ctx::PlainThread, "ctx:same-thread-was-inside-a-different-runtime-before");
    cx.class_if(c.before.contains(&Ctx::TokioMultiThreadRoot) && c.ctx == Ctx::TokioCurrentThread, "ctx:multi-thread-root-then-current-thread-on-one-thread");
    cx.class(match c.recv {
        RecvState::Live => "recv:live",
        RecvState::Stalled => "recv:stalled",
        RecvState::NeverStarted => "recv:never-started",
        RecvState::Dropped => "recv:dropped",
    });
    cx.nontrivial(c.ctx != Ctx::PlainThread || c.recv != RecvState::Live);
    let huge = c.recv == RecvState::Live && c.huge != 0;
    cx.class_if(huge, "timeout:far-end-of-duration");
    cx.class_if(huge && !c.flush && c.prefill >= c.cap, "timeout:far-end-of-duration/blocking-send-on-full-channel");
    cx.class_if(!c.flush && c.prefill >= c.cap && c.recv != RecvState::Live && c.recv != RecvState::Dropped, &format!("blocking-send-on-full-channel-that-stays-full/{}", c.ctx.name()));

    let call = {
        let sender = sender.clone();
        let (flush, tokio_entry, ms, huge) = (c.flush, c.tokio_entry, c.ms, if c.recv == RecvState::Live { c.huge } else { 0 });
        move || -> Result<bool, Option<u64>> {
            let d = match huge {
                0 => Duration::from_millis(ms as u64),
                1 => Duration::MAX,
                2 => Duration::from_secs(u64::MAX),
                3 => Duration::from_secs(i64::MAX as u64),
                _ => Duration::from_secs(1 << 62),
            };
            if flush {
                Ok(if tokio_entry { emit_batcher::tokio::blocking_flush(&sender, d) } else { emit_batcher::sync::blocking_flush(&sender, d) })
            } else {
                let r = if tokio_entry { emit_batcher::tokio::blocking_send(&sender, 7, d) } else { emit_batcher::sync::blocking_send(&sender, 7, d) };
                r.map(|()| true).map_err(|e| e.into_retryable())
            }
        }
    };
    let ctx = c.ctx;
    let before = c.before.clone();
    let h = std::thread::spawn(move || {
        // earlier calls of the same thread from other contexts: a trivial flush of an idle channel of its own
        for b in before {
            b.run(|| {
                let (s, _r) = emit_batcher::bounded::<Ch>(1);
                let _ = emit_batcher::tokio::blocking_flush(&s, Duration::ZERO);
                let _ = emit_batcher::tokio::blocking_send(&s, 1, Duration::ZERO);
            });
        }
        ctx.run(call)
    });
    let res = join_within(h, Duration::from_secs(30));
    // "blocking variants never discard anything silently; they enqueue or hand the item back": every item of this case
    // went in through try_send (prefill) or the blocking send, so the truncation counter must not have moved
    let truncated = sample(&sender).truncated;
    // release everything
    {
        *latch.open.lock().unwrap() = true;
        latch.cv.notify_all();
    }
    drop(parked_receiver);
    let verdict = match res {
        Some(Ok(_)) if truncated > 0 && c.recv != RecvState::Dropped => Err(Fail::new(
            "C09/blocking-send-discarded-queued-items",
            format!("{c:?}: only try_send and the blocking call were used, yet queue_full_truncated = {truncated}: a blocking call cleared the pending queue"),
        )),
        None => Err(Fail::new(
            "C08/blocking-call-deadlocked",
            format!("{c:?}: call still blocked 30 s after it was made (timeout {} ms)", c.ms),
        )),
        Some(Err(payload)) => {
            let msg = payload_msg(&payload);
            let ctx_name = c.ctx.name();
            if c.flush {
                Err(Fail::new(format!("C08/blocking-call-panicked/{ctx_name}"), format!("{c:?}: the call panicked: {msg}")))
            } else {
                // the panic unwinds through the call that owns the item: it is neither enqueued nor handed back
                Err(Fail::new(format!("C09/blocking-send-panicked-item-lost/{ctx_name}"), format!("{c:?}: the blocking send panicked, so the item was neither enqueued nor handed back: {msg}")))
            }
        }
        Some(Ok(Err(got))) => {
            if c.recv == RecvState::Dropped {
                // a channel whose receiver is gone reports an error without the item; the property's
                // domain is a receiver that is slow, stalled or never runs, not one that was torn down
                cx.dont_care();
                Ok(())
            } else if got != Some(7) {
                Err(Fail::new("C09/handed-back-item-differs", format!("{c:?}: blocking send failed and handed back {got:?}")))
            } else {
                Ok(())
            }
        }
        Some(Ok(Ok(done))) => {
            if huge && !done {
                Err(Fail::new("C08/unbounded-flush-gave-up", format!("{c:?}: a flush with a practically unbounded timeout against a live receiver returned false")))
            } else {
                Ok(())
            }
        }
    };
    if let Ok(s) = Arc::try_unwrap(sender) {
        drop(s);
        if let Some(h) = recv_handle {
            if join_within(h, Duration::from_secs(30)).is_none() {
                return cx.fail("C08/worker-did-not-terminate", format!("{c:?}: receiver thread still running 30 s after the sender was dropped"));
            }
        }
    }
    match verdict {
        Ok(()) => Ok(()),
        Err(f) => cx.fail(f.sig, f.msg),
    }
}

// ---------------------------------------------------------------------------------------------------
// C09: "the fallible and blocking send variants … hand it back to the caller when the timeout expires" --
// also when the waiting sender is woken in between and finds the queue full again (a lost wake-up).
//
// This is the one place where wall-clock time is part of the property itself. The scenario is built so that
// the two behaviours differ by seconds (give up at T versus at wake + T), the allowance is large against
// scheduling noise, and an overrun is only reported after it repeated twice more with nothing else running.

#[derive(Serialize, Deserialize, Debug, Clone)]
pub struct DeadlineCase {
    /// the blocking send's timeout
    pub timeout_ms: u16,
    /// when (in percent of the timeout) the receiver takes the queue -- and a callback refills it at once
    pub wake_pct: u8,
    pub tokio_entry: bool,
}

pub fn deadline_case() -> impl Strategy<Value = DeadlineCase> {
    (2500u16..4000, 60u8..90, any::<bool>()).prop_map(|(timeout_ms, wake_pct, tokio_entry)| DeadlineCase { timeout_ms, wake_pct, tokio_entry })
}

const DEADLINE_SLACK: Duration = Duration::from_millis(1200);

struct Permits {
    n: Mutex<u32>,
    cv: Condvar,
    in_processor: AtomicUsize,
}

/// One run: Ok(Some(elapsed)) = the send handed the item back after `elapsed`; Ok(None) = it got in (no claim).
fn run_deadline(c: &DeadlineCase) -> Result<Option<Duration>, Fail> {
    let (sender, receiver) = emit_batcher::bounded::<Ch>(1);
    let sender = Arc::new(sender);
    let permits = Arc::new(Permits { n: Mutex::new(0), cv: Condvar::new(), in_processor: AtomicUsize::new(0) });
    let recv = {
        let permits = permits.clone();
        emit_batcher::sync::spawn("verif-e7-deadline", receiver, move |_b: Ch| {
            permits.in_processor.fetch_add(1, Ordering::SeqCst);
            let mut n = permits.n.lock().unwrap();
            while *n == 0 {
                n = permits.cv.wait(n).unwrap();
            }
            *n -= 1;
            Ok(())
        })
        .map_err(|e| Fail::new("harness/spawn", e.to_string()))?
    };
    // batch [1] is in the processor, [2] fills the queue
    sender.send(1);
    let t0 = Instant::now();
    while permits.in_processor.load(Ordering::SeqCst) == 0 {
        if t0.elapsed() > Duration::from_secs(20) {
            return Err(Fail::new("harness/receiver-did-not-start", "the receiver never took the first item"));
        }
        std::thread::sleep(Duration::from_millis(1));
    }
    sender.send(2);
    // registered BEFORE the blocking send, so it runs first when [2] is taken: the queue is full again by the time
    // the waiting sender looks
    {
        let s = sender.clone();
        sender.when_empty(move || {
            let _ = s.try_send(3);
        });
    }
    let timeout = Duration::from_millis(c.timeout_ms as u64);
    let h = {
        let (sender, tokio_entry) = (sender.clone(), c.tokio_entry);
        std::thread::spawn(move || {
            let t = Instant::now();
            let r = if tokio_entry { emit_batcher::tokio::blocking_send(&sender, 4, timeout) } else { emit_batcher::sync::blocking_send(&sender, 4, timeout) };
            (t.elapsed(), r.map_err(|e| e.into_retryable()))
        })
    };
    std::thread::sleep(timeout * c.wake_pct as u32 / 100);
    {
        *permits.n.lock().unwrap() += 1;
        permits.cv.notify_all();
    }
    let res = join_within(h, timeout * 3 + Duration::from_secs(10));
    // let everything end
    {
        *permits.n.lock().unwrap() += 1_000;
        permits.cv.notify_all();
    }
    let out = match res {
        None => Err(Fail::new("C09/blocking-send-never-gave-up", format!("{c:?}: the call had not returned after three times its timeout + 10 s"))),
        Some(Err(p)) => Err(Fail::new("C08/blocking-call-panicked/plain-thread", format!("{c:?}: the call panicked: {}", payload_msg(&p)))),
        Some(Ok((_, Ok(())))) => Ok(None),
        Some(Ok((elapsed, Err(got)))) => {
            if got != Some(4) {
                Err(Fail::new("C09/handed-back-item-differs", format!("{c:?}: blocking send failed and handed back {got:?}")))
            } else {
                Ok(Some(elapsed))
            }
        }
    };
    if let Ok(s) = Arc::try_unwrap(sender) {
        drop(s);
        let _ = join_within(recv, Duration::from_secs(30));
    }
    out
}

/// The cases of a batch sleep for seconds, so they run side by side; confirmations run one at a time.
pub fn deadline_batch() -> impl Strategy<Value = Vec<DeadlineCase>> {
    prop::collection::vec(deadline_case(), 16..=16)
}

pub fn check_deadline(batch: &Vec<DeadlineCase>, cx: &mut Cx) -> vcore::Res {
    static CONFIRM: Mutex<()> = Mutex::new(());
    // every evaluation costs seconds (a failing one three times over): once a failure was found in this process
    // shrink candidates are reported as passing, so the batch that failed is kept as it is
    static FAILED: AtomicBool = AtomicBool::new(false);
    if cx.replaying && FAILED.load(Ordering::SeqCst) {
        return Ok(());
    }
    cx.nontrivial(true);
    let firsts: Vec<Result<Option<Duration>, Fail>> = std::thread::scope(|sc| {
        let hs: Vec<_> = batch.iter().map(|c| sc.spawn(move || run_deadline(c))).collect();
        hs.into_iter().map(|h| h.join().unwrap_or_else(|_| Err(Fail::new("harness/deadline-thread-panicked", "the scenario thread panicked")))).collect()
    });
    for (c, first) in batch.iter().zip(firsts) {
        cx.class("deadline:blocking-send-woken-and-refilled");
        let timeout = Duration::from_millis(c.timeout_ms as u64);
        let first = match first {
            Ok(v) => v,
            Err(f) => {
                // a verdict that needs no confirmation; shrinking a batch of multi-second cases would take hours
                FAILED.store(true, Ordering::SeqCst);
                return cx.fail(f.sig, f.msg);
            }
        };
        let Some(elapsed) = first else {
            cx.class("dontcare:blocking-send-got-in");
            cx.dont_care();
            continue;
        };
        if elapsed <= timeout + DEADLINE_SLACK {
            cx.class("deadline:handed-back-on-time");
            continue;
        }
        // an overrun: only believed if it repeats with nothing else of this kind running
        let _alone = CONFIRM.lock().unwrap();
        let mut seen = vec![elapsed];
        let mut repeated = true;
        for _ in 0..2 {
            match run_deadline(c) {
                Ok(Some(e)) if e > timeout + DEADLINE_SLACK => seen.push(e),
                Ok(_) => {
                    repeated = false;
                    break;
                }
                Err(f) => return cx.fail(f.sig, f.msg),
            }
        }
        if !repeated {
            cx.class("dontcare:deadline-overrun-did-not-repeat");
            cx.dont_care();
            continue;
        }
        FAILED.store(true, Ordering::SeqCst);
        cx.fail(
            "C09/blocking-send-overran-its-timeout",
            format!("{c:?}: a blocking send that was woken at {} % of its timeout and found the queue full again handed the item back after {seen:?} (three runs) although its timeout is {timeout:?}", c.wake_pct),
        )?;
    }
    Ok(())
}

// ---------------------------------------------------------------------------------------------------
// C09: the ASYNC fallible send (`emit_batcher::tokio::send`) with finite, non-zero timeouts.
//
// E2 polls the async send under a paused runtime whose timers never fire, so there it only ever sees the
// timeouts 0 and "never". Here the future runs on real tokio runtimes (current-thread, multi-thread, and a
// current-thread runtime with a paused, auto-advancing clock) against a receiver that is live but slow, whose
// processor never returns (held on a harness gate), or that was never started; the receiver runs on its own
// `sync::spawn` thread, its own `tokio::spawn` thread, or as a task on the SAME runtime as the senders. Several
// tasks send concurrently. `tokio::flush` and `try_send` ride along (flush is judged by the C07 ticket rule and
// reported under C07/C08, not C09).
//
// Oracle (schedule-independent): every call returns; an `Err` carries exactly the item that was submitted; once
// the gate is opened / the receiver is started and the last sender is dropped, every item whose send reported
// `Ok` is delivered exactly once, no handed-back item is delivered, no truncation is counted (there is no plain
// send in these workloads), no batch and no queue_length sample exceeds the capacity. Time decides nothing
// except the 30 s "returns at all" watchdog.

#[derive(Serialize, Deserialize, Debug, Clone, Copy, PartialEq)]
pub enum ARt {
    CurrentThread,
    MultiThread,
    /// current-thread runtime built with `start_paused(true)`: timers fire by auto-advance as soon as the
    /// runtime is idle, while emit_batcher measures the send's own deadline on the real clock
    PausedClock,
}

#[derive(Serialize, Deserialize, Debug, Clone, Copy, PartialEq)]
pub enum ARecv {
    /// running; every batch takes `slow_ms`
    Live,
    /// running, but the processor does not return until the harness opens the gate (after all calls returned)
    Stalled,
    /// not started until all calls have returned
    NeverStarted,
}

#[derive(Serialize, Deserialize, Debug, Clone, Copy, PartialEq)]
pub enum APlace {
    SyncThread,
    TokioThread,
    /// `Receiver::exec` spawned as a task on the runtime that also runs the sending tasks
    SameRuntime,
}

#[derive(Serialize, Deserialize, Debug, Clone, Copy, PartialEq)]
pub enum AOp {
    /// `emit_batcher::tokio::send(.., ms)`; `huge` != 0 (only honoured against a live receiver on a real clock)
    /// replaces the timeout by one at the far end of `Duration` (same table as `BlockingCase::huge`)
    Send { ms: u16, huge: u8 },
    TrySend,
    /// `emit_batcher::tokio::flush(.., ms)`
    Flush { ms: u16 },
    Sleep(u8),
    Yield,
}

#[derive(Serialize, Deserialize, Debug, Clone)]
pub struct AsyncCase {
    pub rt: ARt,
    pub recv: ARecv,
    pub place: APlace,
    pub cap: u8,
    /// items pushed (try_send) before the tasks start
    pub prefill: u8,
    /// send one item first and wait until the processor was entered with it (so a stalled processor already
    /// holds a batch and `prefill` fills the queue behind it)
    pub primed: bool,
    pub slow_ms: u8,
    /// every inner vector runs as one tokio task
    pub tasks: Vec<Vec<AOp>>,
}

pub fn async_case() -> impl Strategy<Value = AsyncCase> {
    let op = prop_oneof![
        9 => (prop_oneof![1 => Just(0u16), 4 => 1u16..=6, 3 => 6u16..=30], prop_oneof![7 => Just(0u8), 1 => 1u8..5]).prop_map(|(ms, huge)| AOp::Send { ms, huge }),
        2 => Just(AOp::TrySend),
        2 => prop_oneof![1 => Just(0u16), 3 => 1u16..=20].prop_map(|ms| AOp::Flush { ms }),
        1 => (0u8..4).prop_map(AOp::Sleep),
        1 => Just(AOp::Yield),
    ];
    (
        prop_oneof![3 => Just(ARt::CurrentThread), 3 => Just(ARt::MultiThread), 1 => Just(ARt::PausedClock)],
        prop_oneof![2 => Just(ARecv::Live), 3 => Just(ARecv::Stalled), 2 => Just(ARecv::NeverStarted)],
        prop_oneof![Just(APlace::SyncThread), Just(APlace::TokioThread), Just(APlace::SameRuntime)],
        1u8..=4,
        0u8..=5,
        any::<bool>(),
        prop_oneof![2 => Just(0u8), 3 => 1u8..=20],
        prop::collection::vec(prop::collection::vec(op, 1..=5), 1..=4),
    )
        .prop_map(|(rt, recv, place, cap, prefill, primed, slow_ms, tasks)| AsyncCase { rt, recv, place, cap, prefill, primed, slow_ms, tasks })
}

struct AShared {
    seq: AtomicU64,
    /// (items, ticket at which the processor finished with them)
    batches: Mutex<Vec<(Vec<u64>, u64)>>,
    entered: AtomicUsize,
    latch: Latch,
    gate: tokio::sync::watch::Sender<bool>,
    /// 0 = setting up, 1 = the tasks are running, 2 = all calls returned, tearing down
    phase: AtomicUsize,
    /// per task: index of the op it is in (usize::MAX = finished)
    cur: Vec<AtomicUsize>,
}

impl AShared {
    fn open_gate(&self) {
        *self.latch.open.lock().unwrap() = true;
        self.latch.cv.notify_all();
        self.gate.send_replace(true);
    }

    fn finish(&self, batch: Vec<u64>) {
        let t = self.seq.fetch_add(1, Ordering::SeqCst);
        self.batches.lock().unwrap().push((batch, t));
    }
}

#[derive(Debug)]
struct ASend {
    item: u64,
    /// 0 for try_send and the set-up sends
    ms: u16,
    kind: &'static str,
    /// Ok(()) = accepted, Err(x) = the error's `into_retryable()`
    res: Result<(), Option<u64>>,
    ticket_ret: u64,
    queue_after: usize,
}

#[derive(Default)]
struct ADriven {
    sends: Vec<ASend>,
    flushes: Vec<(u16, FlushRec)>,
    panics: Vec<(usize, String)>,
    truncated: usize,
    blocked: usize,
    /// SameRuntime only: did the receiver task end within 30 s (runtime clock) of the last sender being dropped
    same_rt_terminated: Option<bool>,
    harness: Option<Fail>,
}

fn far_end(huge: u8, ms: u16) -> Duration {
    match huge {
        0 => Duration::from_millis(ms as u64),
        1 => Duration::MAX,
        2 => Duration::from_secs(u64::MAX),
        3 => Duration::from_secs(i64::MAX as u64),
        _ => Duration::from_secs(1 << 62),
    }
}

fn sync_processor(sh: Arc<AShared>, slow: Duration) -> impl FnMut(Ch) -> Result<(), BatchError<Ch>> + Send + 'static {
    move |batch: Ch| {
        sh.entered.fetch_add(1, Ordering::SeqCst);
        {
            let mut open = sh.latch.open.lock().unwrap();
            while !*open {
                open = sh.latch.cv.wait(open).unwrap();
            }
        }
        if !slow.is_zero() {
            std::thread::sleep(slow);
        }
        sh.finish(batch);
        Ok(())
    }
}

fn async_processor(sh: Arc<AShared>, slow: Duration) -> impl FnMut(Ch) -> std::pin::Pin<Box<dyn std::future::Future<Output = Result<(), BatchError<Ch>>> + Send>> + Send + 'static {
    move |batch: Ch| {
        let sh = sh.clone();
        let mut gate = sh.gate.subscribe();
        Box::pin(async move {
            sh.entered.fetch_add(1, Ordering::SeqCst);
            // a processor that "never returns": pending until the harness opens the gate
            let _ = gate.wait_for(|open| *open).await.map(|_| ());
            if !slow.is_zero() {
                tokio::time::sleep(slow).await;
            }
            sh.finish(batch);
            Ok(())
        })
    }
}

async fn drive_async(c: AsyncCase, sender: Sender<Ch>, mut same_rt_receiver: Option<emit_batcher::Receiver<Ch>>, sh: Arc<AShared>) -> ADriven {
    let mut out = ADriven::default();
    let cap = c.cap.max(1) as usize;
    let slow = Duration::from_millis(c.slow_ms as u64);
    let sender = Arc::new(sender);
    let mut recv_task = None;
    if c.recv != ARecv::NeverStarted {
        if let Some(r) = same_rt_receiver.take() {
            recv_task = Some(tokio::spawn(r.exec(|d| tokio::time::sleep(d), async_processor(sh.clone(), slow))));
        }
    }
    let setup_send = |item: u64, out: &mut ADriven| {
        let res = sender.try_send(item).map_err(|e| e.into_retryable());
        let t = sh.seq.fetch_add(1, Ordering::SeqCst);
        out.sends.push(ASend { item, ms: 0, kind: "try_send (set-up)", res, ticket_ret: t, queue_after: sample(&sender).queue_length });
    };
    if c.primed && c.recv != ARecv::NeverStarted {
        setup_send((0xfffe << 32) | 1, &mut out);
        let t0 = Instant::now();
        while sh.entered.load(Ordering::SeqCst) == 0 {
            if t0.elapsed() > Duration::from_secs(20) {
                out.harness = Some(Fail::new("harness/receiver-did-not-start", format!("{c:?}: the receiver never took the priming item")));
                sh.open_gate();
                return out;
            }
            if c.place == APlace::SameRuntime {
                tokio::task::yield_now().await;
            } else {
                tokio::time::sleep(Duration::from_millis(1)).await;
            }
        }
    }
    for i in 0..c.prefill.min(cap as u8) {
        setup_send((0xffff << 32) | (i as u64 + 1), &mut out);
    }

    sh.phase.store(1, Ordering::SeqCst);
    let mut handles = Vec::new();
    for (ti, ops) in c.tasks.iter().enumerate() {
        let (sender, sh, ops) = (sender.clone(), sh.clone(), ops.clone());
        let far_end_ok = c.recv == ARecv::Live && c.rt != ARt::PausedClock;
        handles.push(tokio::spawn(async move {
            let mut sends: Vec<ASend> = Vec::new();
            let mut flushes: Vec<(u16, FlushRec)> = Vec::new();
            let mut n = 0u64;
            for (oi, op) in ops.iter().enumerate() {
                sh.cur[ti].store(oi, Ordering::SeqCst);
                match *op {
                    AOp::Send { ms, huge } => {
                        n += 1;
                        let item = ((ti as u64) << 32) | n;
                        let d = far_end(if far_end_ok { huge } else { 0 }, ms);
                        let res = emit_batcher::tokio::send(&sender, item, d).await.map_err(|e| e.into_retryable());
                        let t = sh.seq.fetch_add(1, Ordering::SeqCst);
                        sends.push(ASend { item, ms, kind: "tokio::send", res, ticket_ret: t, queue_after: sample(&sender).queue_length });
                    }
                    AOp::TrySend => {
                        n += 1;
                        let item = ((ti as u64) << 32) | n;
                        let res = sender.try_send(item).map_err(|e| e.into_retryable());
                        let t = sh.seq.fetch_add(1, Ordering::SeqCst);
                        sends.push(ASend { item, ms: 0, kind: "try_send", res, ticket_ret: t, queue_after: sample(&sender).queue_length });
                    }
                    AOp::Flush { ms } => {
                        let tc = sh.seq.fetch_add(1, Ordering::SeqCst);
                        let ok = emit_batcher::tokio::flush(&sender, Duration::from_millis(ms as u64)).await;
                        let tr = sh.seq.fetch_add(1, Ordering::SeqCst);
                        flushes.push((ms, FlushRec { ticket_call: tc, ticket_ret: tr, ok }));
                    }
                    AOp::Sleep(ms) => tokio::time::sleep(Duration::from_millis(ms as u64)).await,
                    AOp::Yield => tokio::task::yield_now().await,
                }
            }
            sh.cur[ti].store(usize::MAX, Ordering::SeqCst);
            (sends, flushes)
        }));
    }
    for (ti, h) in handles.into_iter().enumerate() {
        match h.await {
            Ok((s, f)) => {
                out.sends.extend(s);
                out.flushes.extend(f);
            }
            Err(e) => {
                let msg = if e.is_panic() { payload_msg(&e.into_panic()) } else { "task cancelled".to_string() };
                out.panics.push((ti, msg));
            }
        }
    }
    sh.phase.store(2, Ordering::SeqCst);

    // every call has returned: let the destination run again, then drop the last sender
    sh.open_gate();
    let m = sample(&sender);
    out.truncated = m.truncated;
    out.blocked = m.blocked;
    if let Some(r) = same_rt_receiver.take() {
        // the receiver that was never started: start it now
        recv_task = Some(tokio::spawn(r.exec(|d| tokio::time::sleep(d), async_processor(sh.clone(), Duration::ZERO))));
    }
    match Arc::try_unwrap(sender) {
        Ok(s) => drop(s),
        Err(_) => {
            // only a panicked task can have leaked a clone; its failure is reported from `panics`
        }
    }
    if let Some(t) = recv_task {
        out.same_rt_terminated = Some(tokio::time::timeout(Duration::from_secs(30), t).await.is_ok());
    }
    out
}

pub struct AOutcome {
    pub fails: Vec<(Prop, Fail)>,
    pub timed_out_handed_back: usize,
    pub zero_timeout_handed_back: usize,
    pub try_send_handed_back: usize,
    pub accepted_by_async_send: usize,
    pub flush_true: usize,
    pub flush_expired: usize,
    pub delivered: usize,
    pub blocked: usize,
    pub far_end: usize,
}

pub fn run_async(c: &AsyncCase) -> AOutcome {
    let cap = c.cap.max(1) as usize;
    let slow = Duration::from_millis(c.slow_ms as u64);
    let mut o = AOutcome { fails: Vec::new(), timed_out_handed_back: 0, zero_timeout_handed_back: 0, try_send_handed_back: 0, accepted_by_async_send: 0, flush_true: 0, flush_expired: 0, delivered: 0, blocked: 0, far_end: 0 };
    emit_batcher::verif::set_delay_divisor(4000);
    let (sender, receiver) = emit_batcher::bounded::<Ch>(cap);
    let (gate, _) = tokio::sync::watch::channel(c.recv != ARecv::Stalled);
    let sh = Arc::new(AShared {
        seq: AtomicU64::new(1),
        batches: Mutex::new(Vec::new()),
        entered: AtomicUsize::new(0),
        latch: Latch { open: Mutex::new(c.recv != ARecv::Stalled), cv: Condvar::new() },
        gate,
        phase: AtomicUsize::new(0),
        cur: c.tasks.iter().map(|_| AtomicUsize::new(usize::MAX)).collect(),
    });
    let mut os_recv: Option<std::thread::JoinHandle<()>> = None;
    let mut parked: Option<emit_batcher::Receiver<Ch>> = None;
    let mut same_rt: Option<emit_batcher::Receiver<Ch>> = None;
    match (c.place, c.recv) {
        (APlace::SameRuntime, _) => same_rt = Some(receiver),
        (_, ARecv::NeverStarted) => parked = Some(receiver),
        (APlace::SyncThread, _) => os_recv = Some(emit_batcher::sync::spawn("verif-e7-async-sync", receiver, sync_processor(sh.clone(), slow)).expect("spawn receiver")),
        (APlace::TokioThread, _) => os_recv = Some(emit_batcher::tokio::spawn("verif-e7-async-tokio", receiver, async_processor(sh.clone(), slow)).expect("spawn receiver")),
    }

    let h = {
        let (c, sh) = (c.clone(), sh.clone());
        std::thread::spawn(move || {
            let rt = match c.rt {
                ARt::CurrentThread => tokio::runtime::Builder::new_current_thread().enable_all().build(),
                ARt::PausedClock => tokio::runtime::Builder::new_current_thread().enable_all().start_paused(true).build(),
                ARt::MultiThread => tokio::runtime::Builder::new_multi_thread().worker_threads(2).enable_all().build(),
            }
            .expect("build runtime");
            rt.block_on(drive_async(c, sender, same_rt, sh))
        })
    };
    // "returns at all": 30 s for the calls (their finite timeouts add up to well under a second; a far-end
    // timeout only runs against a live receiver), then 45 s more for the tear-down inside the runtime
    let t0 = Instant::now();
    let mut t_phase2: Option<Instant> = None;
    let driven = loop {
        if h.is_finished() {
            break Some(h.join());
        }
        let phase = sh.phase.load(Ordering::SeqCst);
        if phase >= 2 && t_phase2.is_none() {
            t_phase2 = Some(Instant::now());
        }
        let over = match t_phase2 {
            None => t0.elapsed() > Duration::from_secs(30),
            Some(t) => t.elapsed() > Duration::from_secs(45),
        };
        if over {
            break None;
        }
        std::thread::sleep(Duration::from_micros(200));
    };
    let d = match driven {
        None => {
            let phase = sh.phase.load(Ordering::SeqCst);
            let stuck: Vec<(usize, AOp)> = sh.cur.iter().enumerate().filter_map(|(ti, i)| c.tasks[ti].get(i.load(Ordering::SeqCst)).map(|op| (ti, *op))).collect();
            sh.open_gate();
            drop(parked);
            if phase >= 2 {
                o.fails.push((Prop::C08, Fail::new("C08/worker-did-not-terminate", format!("{c:?}: the runtime was still tearing down 45 s after every call had returned"))));
            } else if phase == 0 {
                o.fails.push((Prop::C08, Fail::new("harness/async-setup-stuck", format!("{c:?}: the set-up did not finish within 30 s"))));
            } else if stuck.iter().any(|(_, op)| matches!(op, AOp::Send { huge, .. } if *huge != 0 && c.recv == ARecv::Live && c.rt != ARt::PausedClock)) {
                o.fails.push((Prop::C08, Fail::new("C08/async-call-never-returned", format!("{c:?}: still inside {stuck:?} (task, op) 30 s after the tasks started, against a live receiver"))));
            } else if stuck.iter().any(|(_, op)| matches!(op, AOp::Send { .. })) {
                o.fails.push((Prop::C09, Fail::new("C09/async-send-never-gave-up", format!("{c:?}: still inside {stuck:?} (task, op) 30 s after the tasks started although every timeout is at most 30 ms"))));
            } else {
                o.fails.push((Prop::C08, Fail::new("C08/async-call-never-returned", format!("{c:?}: still inside {stuck:?} (task, op) 30 s after the tasks started"))));
            }
            return o;
        }
        Some(Err(p)) => {
            sh.open_gate();
            o.fails.push((Prop::C08, Fail::new("harness/async-driver-panicked", format!("{c:?}: {}", payload_msg(&p)))));
            return o;
        }
        Some(Ok(d)) => d,
    };
    if let Some(f) = d.harness {
        o.fails.push((Prop::C08, f));
        return o;
    }
    // the sender is gone by now: a receiver that was never started must still deliver what was queued
    if let Some(r) = parked.take() {
        os_recv = Some(match c.place {
            APlace::TokioThread => emit_batcher::tokio::spawn("verif-e7-async-late", r, async_processor(sh.clone(), Duration::ZERO)),
            _ => emit_batcher::sync::spawn("verif-e7-async-late", r, sync_processor(sh.clone(), Duration::ZERO)),
        }
        .expect("spawn receiver"));
    }
    let mut joined = d.panics.is_empty();
    if let Some(h) = os_recv {
        if d.panics.is_empty() {
            if join_within(h, Duration::from_secs(30)).is_none() {
                joined = false;
                o.fails.push((Prop::C08, Fail::new("C08/worker-did-not-terminate", format!("{c:?}: receiver thread still running 30 s after the last sender was dropped"))));
            }
        }
    }
    if d.same_rt_terminated == Some(false) {
        joined = false;
        o.fails.push((Prop::C08, Fail::new("C08/worker-did-not-terminate", format!("{c:?}: receiver task still running 30 s (runtime clock) after the last sender was dropped"))));
    }

    // ---- oracles -----------------------------------------------------------------------------
    for (ti, msg) in &d.panics {
        let sends = c.tasks[*ti].iter().any(|op| matches!(op, AOp::Send { .. } | AOp::TrySend));
        if sends {
            o.fails.push((Prop::C09, Fail::new("C09/async-send-panicked-item-lost", format!("{c:?}: task {ti} panicked inside a channel call, so its item was neither enqueued nor handed back: {msg}"))));
        } else {
            o.fails.push((Prop::C08, Fail::new("C08/async-flush-panicked", format!("{c:?}: task {ti} panicked inside a flush: {msg}"))));
        }
    }
    let batches = sh.batches.lock().unwrap().clone();
    let mut seen: HashMap<u64, u64> = HashMap::new();
    let mut last_per_sender: HashMap<u64, u64> = HashMap::new();
    let accepted: HashSet<u64> = d.sends.iter().filter(|s| s.res.is_ok()).map(|s| s.item).collect();
    for (items, t) in &batches {
        if items.len() > cap {
            o.fails.push((Prop::C09, Fail::new("C09/batch-larger-than-capacity", format!("{c:?}: the processor was handed {} items at once although at most {cap} can be pending", items.len()))));
        }
        if items.is_empty() {
            o.fails.push((Prop::C06, Fail::new("C06/empty-batch", format!("{c:?}: processor invoked with an empty batch"))));
        }
        for x in items {
            if seen.insert(*x, *t).is_some() {
                o.fails.push((Prop::C06, Fail::new("C06/item-delivered-twice", format!("{c:?}: item {x:#x} appears in two batches"))));
            }
            if !accepted.contains(x) && d.panics.is_empty() {
                o.fails.push((Prop::C06, Fail::new("C06/item-never-accepted", format!("{c:?}: item {x:#x} delivered but its send did not report acceptance"))));
            }
            let (s, n) = (x >> 32, x & 0xffff_ffff);
            let last = last_per_sender.entry(s).or_insert(0);
            if n <= *last {
                o.fails.push((Prop::C06, Fail::new("C06/per-sender-order-violated", format!("{c:?}: sender {s}: item {n} delivered after item {last}"))));
            }
            *last = n;
        }
    }
    for s in &d.sends {
        match &s.res {
            Ok(()) => {
                if s.kind == "tokio::send" {
                    o.accepted_by_async_send += 1;
                }
            }
            Err(got) => {
                if *got != Some(s.item) {
                    o.fails.push((
                        Prop::C09,
                        Fail::new("C09/handed-back-item-differs", format!("{c:?}: {} of {:#x} (timeout {} ms) failed and handed back {got:?}: the item is neither enqueued nor returned to the caller", s.kind, s.item, s.ms)),
                    ));
                } else if s.kind == "tokio::send" && s.ms > 0 {
                    o.timed_out_handed_back += 1;
                } else if s.kind == "tokio::send" {
                    o.zero_timeout_handed_back += 1;
                } else {
                    o.try_send_handed_back += 1;
                }
                if seen.contains_key(&s.item) {
                    o.fails.push((Prop::C09, Fail::new("C09/handed-back-but-delivered", format!("{c:?}: item {:#x} was handed back to the caller and also delivered", s.item))));
                }
            }
        }
        if s.queue_after > cap {
            o.fails.push((Prop::C09, Fail::new("C09/pending-exceeds-capacity", format!("{c:?}: queue_length was {} after {} of {:#x} with capacity {cap}", s.queue_after, s.kind, s.item))));
        }
    }
    if joined {
        // no plain send in the workload: nothing may be truncated, every item reported as enqueued must arrive
        let lost: Vec<u64> = accepted.iter().filter(|x| !seen.contains_key(x)).copied().collect();
        if !lost.is_empty() || d.truncated > 0 {
            o.fails.push((
                Prop::C09,
                Fail::new(
                    "C09/fallible-send-silently-discarded",
                    format!("{c:?}: no plain send in the workload, yet {} items reported as enqueued (e.g. {:#x?}) never arrived although the receiver ran to completion ({} truncations counted)", lost.len(), lost.first(), d.truncated),
                ),
            ));
        }
    }
    for (_, f) in d.flushes.iter().filter(|(_, f)| f.ok) {
        for s in d.sends.iter().filter(|s| s.res.is_ok() && s.ticket_ret < f.ticket_call) {
            match seen.get(&s.item) {
                Some(bt) if *bt < f.ticket_ret => {}
                _ => o.fails.push((
                    Prop::C07,
                    Fail::new(
                        "C07/flush-returned-before-item-processed",
                        format!("{c:?}: item {:#x}: send returned at ticket {} < flush call {}, the async flush resolved true at {} but the item's batch finished at {:?}", s.item, s.ticket_ret, f.ticket_call, f.ticket_ret, seen.get(&s.item)),
                    ),
                )),
            }
        }
    }
    o.flush_true = d.flushes.iter().filter(|(_, f)| f.ok).count();
    o.flush_expired = d.flushes.iter().filter(|(ms, f)| !f.ok && *ms > 0).count();
    o.delivered = seen.len();
    o.blocked = d.blocked;
    o.far_end = if c.recv == ARecv::Live && c.rt != ARt::PausedClock { c.tasks.iter().flatten().filter(|op| matches!(op, AOp::Send { huge, .. } if *huge != 0)).count() } else { 0 };
    o
}

pub fn check_async(c: &AsyncCase, which: Prop, cx: &mut Cx) -> vcore::Res {
    let out = run_async(c);
    cx.class(match c.rt {
        ARt::CurrentThread => "async:rt-current-thread",
        ARt::MultiThread => "async:rt-multi-thread",
        ARt::PausedClock => "async:rt-paused-clock",
    });
    cx.class(match c.recv {
        ARecv::Live => "async:recv-live-slow",
        ARecv::Stalled => "async:recv-processor-never-returns",
        ARecv::NeverStarted => "async:recv-never-started",
    });
    cx.class(match c.place {
        APlace::SyncThread => "async:receiver-on-sync-thread",
        APlace::TokioThread => "async:receiver-on-tokio-thread",
        APlace::SameRuntime => "async:receiver-on-the-senders-runtime",
    });
    cx.class_if(c.tasks.len() >= 2, "async:concurrent-tasks>=2");
    cx.class_if(out.timed_out_handed_back > 0, "async:finite-timeout-expired-item-handed-back");
    cx.class_if(out.timed_out_handed_back > 0 && c.rt == ARt::MultiThread, "async:finite-timeout-expired-item-handed-back/multi-thread");
    cx.class_if(out.timed_out_handed_back > 0 && c.rt == ARt::CurrentThread, "async:finite-timeout-expired-item-handed-back/current-thread");
    cx.class_if(out.timed_out_handed_back > 0 && c.recv == ARecv::Live, "async:finite-timeout-expired-item-handed-back/live-slow-receiver");
    cx.class_if(out.zero_timeout_handed_back > 0, "async:zero-timeout-item-handed-back");
    cx.class_if(out.try_send_handed_back > 0, "async:try-send-handed-back");
    cx.class_if(out.accepted_by_async_send > 0 && out.blocked > 0, "async:some-send-waited-and-some-send-got-in");
    cx.class_if(out.far_end > 0, "async:far-end-of-duration-timeout");
    cx.class_if(out.flush_true > 0, "async:flush-true");
    cx.class_if(out.flush_expired > 0, "async:flush-expired");
    cx.nontrivial(match which {
        Prop::C09 => out.blocked > 0 || out.timed_out_handed_back + out.zero_timeout_handed_back + out.try_send_handed_back > 0,
        Prop::C07 => out.flush_true > 0 && out.delivered > 0,
        Prop::C08 => c.recv != ARecv::Live,
        Prop::C06 => c.tasks.len() >= 2 && out.delivered >= 2,
    });
    let mut others = 0;
    for (p, f) in out.fails {
        if p == which || f.sig.starts_with("harness/") {
            cx.fail(f.sig, f.msg)?;
        } else {
            others += 1;
        }
    }
    cx.class_if(others > 0, "other-property-oracle-failed");
    Ok(())
}
