//! E2 — deterministic channel scheduler (DESIGN §2).
//!
//! `Receiver::exec(wait, on_batch)` takes both of its suspension points as injected futures. Here both
//! are slot futures that stay `Pending` until the harness resolves them, and the `exec` future, any
//! number of `emit_batcher::tokio::{send, flush}` futures and every synchronous sender call are driven
//! from ONE thread by a generated history `Vec<Op>`. All state shared between the two halves lives
//! behind one mutex and the receiver runs at most one critical section between two suspension points,
//! so placing sender operations before/after each receiver step reaches every lock-granularity
//! interleaving of the real two-thread system.
//!
//! The interpreter only *records* (an ordered event log); the oracles are separate passes over the log
//! (`judge`) derived from the texts of C06–C09.

use std::collections::{HashMap, VecDeque};
use std::future::Future;
use std::pin::Pin;
use std::sync::{Arc, Mutex};
use std::task::{Context, Poll, RawWaker, RawWakerVTable, Waker};
use std::time::Duration;

use emit_batcher::{BatchError, Sender};
use serde::{Deserialize, Serialize};
use vcore::proptest::prelude::*;
use vcore::{Cx, Fail};

/// The channel type under test: a `Vec<u64>` whose `with_capacity` -- the one `Channel` method the receiver is
/// documented to call OUTSIDE its lock ("re-allocate our next buffer outside of the lock") -- is a scheduling
/// point: an armed hook runs there, standing for a sender on another thread that gets in at that instant.
#[derive(Debug, Clone, PartialEq, Default)]
pub struct Ch(pub Vec<u64>);

thread_local! {
    static ALLOC_HOOK: std::cell::RefCell<Option<Box<dyn FnOnce()>>> = const { std::cell::RefCell::new(None) };
    /// the same for `Channel::new()`. Today the receiver calls it with its lock held ("this method shouldn't
    /// allocate"), so the armed sender simply runs out of patience and the case is not judged; the hook earns its
    /// keep when a refactor moves the call out of the critical section (e.g. splits the hand-off in two).
    static NEW_HOOK: std::cell::RefCell<Option<Box<dyn FnOnce()>>> = const { std::cell::RefCell::new(None) };
}

impl emit_batcher::Channel for Ch {
    type Item = u64;
    fn new() -> Self {
        let hook = NEW_HOOK.with(|h| h.borrow_mut().take());
        if let Some(hook) = hook {
            hook();
        }
        Ch(Vec::new())
    }
    fn with_capacity(capacity: usize) -> Self {
        let hook = ALLOC_HOOK.with(|h| h.borrow_mut().take());
        if let Some(hook) = hook {
            hook();
        }
        Ch(Vec::with_capacity(capacity.min(1 << 16)))
    }
    fn push(&mut self, item: u64) {
        self.0.push(item)
    }
    fn len(&self) -> usize {
        self.0.len()
    }
    fn clear(&mut self) {
        self.0.clear()
    }
}

/// "Bounded" in C08 is judged against generous absolute bounds, NOT against the current constants of
/// `emit_batcher::bounded` (10 retries, 10 s, 500 ms): the statement does not fix those, and a
/// maintainer may retune them. The retry budget is *learned* from the run (what the receiver does
/// after a retryable failure is read off the log) and must be the same for every batch and >= 1.
pub const MAX_ATTEMPTS: u32 = 64;
pub const MAX_BACKOFF: Duration = Duration::from_secs(600);
pub const MAX_IDLE: Duration = Duration::from_secs(60);

#[derive(Serialize, Deserialize, Debug, Clone)]
pub struct Case {
    pub cap: u8,
    pub ops: Vec<Op>,
    pub drain: Drain,
}

#[derive(Serialize, Deserialize, Debug, Clone, Copy, PartialEq)]
pub enum Cb {
    Plain,
    Panic,
    Send,
    Flush,
    /// send an item, then drop the (last) sender from inside the callback
    SendDrop,
}

#[derive(Serialize, Deserialize, Debug, Clone, PartialEq)]
pub enum Rem {
    Same,
    Suffix(u8),
    Mask(u16),
    Empty,
    Foreign(u8),
}

#[derive(Serialize, Deserialize, Debug, Clone, PartialEq)]
pub enum Outcome {
    Ok,
    Err,
    Retry(Rem),
    PanicFuture,
}

#[derive(Serialize, Deserialize, Debug, Clone, PartialEq)]
pub enum Op {
    Send,
    TrySend,
    AsyncSend { inf: bool },
    WhenFlushed(Cb),
    WhenEmpty(Cb),
    AsyncFlush { inf: bool },
    Step,
    ResolveBatch(Outcome),
    ResolveWait,
    PollTask(u32),
    PollAll,
    ArmClosurePanic,
    DropSender,
    /// Self-reported metrics: sample the channel's own metric source with a sampler that sends a fresh item into
    /// the SAME channel when it is handed the `at`-th metric (7 = on every metric).
    SampleSend { at: u8 },
    /// Arm the allocation hook: the next time the receiver allocates a buffer (`Channel::with_capacity`, called
    /// outside its lock) a sender on another thread gets a plain `send` in at exactly that instant.
    ArmAllocSend,
    /// Arm the `Channel::new()` hook: at the receiver's next call a sender on another thread tries to get a plain
    /// `send` AND a flush request in.
    ArmNewSendFlush,
}

#[derive(Serialize, Deserialize, Debug, Clone, Copy, PartialEq)]
pub enum Drain {
    Ok,
    Err,
    Retry,
    PanicFuture,
    PanicClosure,
}

#[derive(Debug, Clone, Copy, PartialEq)]
pub enum Via {
    Send,
    TrySend,
    Async,
}

#[derive(Debug, Clone, PartialEq)]
pub enum Ret {
    Ok,
    Err,
    Retry(Vec<u64>),
    Panic,
}

#[derive(Debug, Clone, Copy, PartialEq, Default)]
pub struct M {
    pub queue_length: usize,
    pub truncated: usize,
    pub blocked: usize,
    pub processed: usize,
    pub failed: usize,
    pub panicked: usize,
    pub retry: usize,
}

#[derive(Debug, Clone, PartialEq)]
pub enum Ev {
    Op(usize),
    DrainStart,
    Accepted { item: u64, via: Via, waited: bool },
    HandedBack { item: u64, got: Option<u64>, via: Via, inf: bool },
    FlushReq { id: u32 },
    FlushDone { id: u32, ok: bool, inf: bool },
    EmptyReq { id: u32 },
    EmptyDone { id: u32, on_take: bool },
    /// the receiver allocates a buffer (`Channel::with_capacity`) and the armed hook is about to send
    AllocPoint,
    BatchCall(Vec<u64>),
    ClosurePanic,
    BatchRet(Ret),
    WaitReq(Duration),
    WaitRet,
    ExecDone,
    SenderDropped,
    TaskCancelled,
    AsyncBlocked,
    Metrics(M),
}

struct Slot<T> {
    v: Mutex<Option<T>>,
}

struct World {
    log: Vec<Ev>,
    batch_slot: Option<(Arc<Slot<Ret>>, Vec<u64>)>,
    wait_slot: Option<Arc<Slot<()>>>,
    arm: bool,
    always_arm: bool,
    next_item: u64,
    next_id: u32,
    sender: Option<Arc<Sender<Ch>>>,
    cb_registered: u32,
    cb_fired: u32,
    registering: bool,
    /// the armed allocation hook could not complete its send within its patience: the receiver called
    /// `with_capacity` with its lock held (legal, if unusual); the case is not judged
    alloc_blocked: bool,
    alloc_fired: u32,
}

type W = Arc<Mutex<World>>;

struct BatchFut {
    slot: Arc<Slot<Ret>>,
    w: W,
}

impl Future for BatchFut {
    type Output = Result<(), BatchError<Ch>>;
    fn poll(self: Pin<&mut Self>, _: &mut Context<'_>) -> Poll<Self::Output> {
        let got = self.slot.v.lock().unwrap().take();
        match got {
            None => Poll::Pending,
            Some(ret) => {
                {
                    let mut w = self.w.lock().unwrap();
                    w.log.push(Ev::BatchRet(ret.clone()));
                    w.batch_slot = None;
                }
                match ret {
                    Ret::Ok => Poll::Ready(Ok(())),
                    // how the processor BUILDS its error is part of the domain (every public constructor route of
                    // BatchError; chosen from the case data so that it replays): retry(..) directly, a non-retryable
                    // error made retryable by map_retryable (documented: "the resulting batch is retryable if `f`
                    // returns Some"), or a retryable one whose batch is replaced
                    Ret::Err => Poll::Ready(Err(BatchError::no_retry(ScriptErr))),
                    Ret::Retry(rem) => Poll::Ready(Err(match rem.len() % 3 {
                        0 => BatchError::retry(ScriptErr, Ch(rem)),
                        1 => BatchError::<()>::no_retry(ScriptErr).map_retryable(|none| {
                            debug_assert!(none.is_none());
                            Some(Ch(rem))
                        }),
                        _ => BatchError::retry(ScriptErr, Ch(vec![u64::MAX])).map_retryable(|some| some.map(|_| Ch(rem))),
                    })),
                    Ret::Panic => panic!("scripted panic in batch future"),
                }
            }
        }
    }
}

#[derive(Debug)]
struct ScriptErr;
impl std::fmt::Display for ScriptErr {
    fn fmt(&self, f: &mut std::fmt::Formatter) -> std::fmt::Result {
        f.write_str("scripted failure")
    }
}
impl std::error::Error for ScriptErr {}

struct WaitFut {
    slot: Arc<Slot<()>>,
    w: W,
}

impl Future for WaitFut {
    type Output = ();
    fn poll(self: Pin<&mut Self>, _: &mut Context<'_>) -> Poll<()> {
        if self.slot.v.lock().unwrap().take().is_some() {
            let mut w = self.w.lock().unwrap();
            w.log.push(Ev::WaitRet);
            w.wait_slot = None;
            Poll::Ready(())
        } else {
            Poll::Pending
        }
    }
}

pub fn noop_waker() -> Waker {
    fn clone(_: *const ()) -> RawWaker {
        RawWaker::new(std::ptr::null(), &VTABLE)
    }
    fn noop(_: *const ()) {}
    static VTABLE: RawWakerVTable = RawWakerVTable::new(clone, noop, noop, noop);
    unsafe { Waker::from_raw(RawWaker::new(std::ptr::null(), &VTABLE)) }
}

enum TaskOut {
    Send(Result<(), Option<u64>>),
    Flush(bool),
}

struct Task {
    fut: Option<Pin<Box<dyn Future<Output = TaskOut>>>>,
    item: u64,
    id: u32,
    inf: bool,
    polls: u32,
}

pub struct Trace {
    pub alloc_fired: u32,
    pub alloc_blocked: bool,
    pub log: Vec<Ev>,
    pub cap: usize,
    pub stuck: Option<String>,
    pub exec_done: bool,
}

fn sample(sender: &Sender<Ch>) -> M {
    use emit::metric::Source;
    struct S(std::cell::RefCell<M>);
    impl emit::metric::sampler::Sampler for S {
        fn metric<P: emit::Props>(&self, metric: emit::metric::Metric<P>) {
            let v = metric.value().by_ref().cast::<usize>().unwrap_or(usize::MAX);
            let mut m = self.0.borrow_mut();
            match metric.name().get() {
                "queue_length" => m.queue_length = v,
                "queue_full_truncated" => m.truncated = v,
                "queue_full_blocked" => m.blocked = v,
                "queue_batch_processed" => m.processed = v,
                "queue_batch_failed" => m.failed = v,
                "queue_batch_panicked" => m.panicked = v,
                "queue_batch_retry" => m.retry = v,
                _ => {}
            }
        }
    }
    let s = S(Default::default());
    sender.metric_source().sample_metrics(&s);
    s.0.into_inner()
}

thread_local! {
    static RT: tokio::runtime::Runtime = tokio::runtime::Builder::new_current_thread()
        .enable_time()
        .start_paused(true)
        .build()
        .unwrap();
}

const INF: Duration = Duration::from_secs(86_400 * 365);

/// Drops its content normally, leaks it when the thread is unwinding from a panic.
struct LeakOnPanic<T>(std::mem::ManuallyDrop<T>);

impl<T> LeakOnPanic<T> {
    fn new(v: T) -> Self {
        LeakOnPanic(std::mem::ManuallyDrop::new(v))
    }
}

impl<T> std::ops::Deref for LeakOnPanic<T> {
    type Target = T;
    fn deref(&self) -> &T {
        &self.0
    }
}

impl<T> std::ops::DerefMut for LeakOnPanic<T> {
    fn deref_mut(&mut self) -> &mut T {
        &mut self.0
    }
}

impl<T> Drop for LeakOnPanic<T> {
    fn drop(&mut self) {
        if !std::thread::panicking() {
            unsafe { std::mem::ManuallyDrop::drop(&mut self.0) }
        }
    }
}

fn make_cb(w: &W, kind: Cb, done: Ev) -> impl FnOnce() + Send + 'static {
    let w = w.clone();
    move || {
        let sender = {
            let mut g = w.lock().unwrap();
            let done = match done {
                Ev::EmptyDone { id, .. } => Ev::EmptyDone { id, on_take: !g.registering },
                other => other,
            };
            g.log.push(done);
            g.cb_fired += 1;
            g.sender.clone()
        };
        match kind {
            Cb::Plain => {}
            Cb::Panic => panic!("scripted panic in callback"),
            Cb::Send => {
                if let Some(s) = sender {
                    let item = {
                        let mut g = w.lock().unwrap();
                        g.next_item += 1;
                        g.next_item
                    };
                    s.send(item);
                    w.lock().unwrap().log.push(Ev::Accepted { item, via: Via::Send, waited: false });
                }
            }
            Cb::SendDrop => {
                if let Some(s) = sender {
                    let item = {
                        let mut g = w.lock().unwrap();
                        g.next_item += 1;
                        g.next_item
                    };
                    s.send(item);
                    // only when nothing else (a pending async task) still holds the sender: `s` + the stored handle
                    let last = Arc::strong_count(&s) == 2;
                    drop(s);
                    let mut g = w.lock().unwrap();
                    g.log.push(Ev::Accepted { item, via: Via::Send, waited: false });
                    if last {
                        let stored = g.sender.take();
                        drop(g);
                        drop(stored);
                        w.lock().unwrap().log.push(Ev::SenderDropped);
                    }
                }
            }
            Cb::Flush => {
                if let Some(s) = sender {
                    let id = {
                        let mut g = w.lock().unwrap();
                        g.next_id += 1;
                        g.cb_registered += 1;
                        let id = g.next_id;
                        g.log.push(Ev::FlushReq { id });
                        id
                    };
                    let w2 = w.clone();
                    s.when_flushed(move || {
                        let mut g = w2.lock().unwrap();
                        g.log.push(Ev::FlushDone { id, ok: true, inf: true });
                        g.cb_fired += 1;
                    });
                }
            }
        }
    }
}

fn resolve_rem(rem: &Rem, batch: &[u64]) -> Vec<u64> {
    match rem {
        Rem::Same => batch.to_vec(),
        Rem::Suffix(n) => {
            let n = (*n as usize).min(batch.len());
            batch[batch.len() - n..].to_vec()
        }
        Rem::Mask(m) => batch
            .iter()
            .enumerate()
            .filter(|(i, _)| (m >> (i % 16)) & 1 == 1)
            .map(|(_, v)| *v)
            .collect(),
        Rem::Empty => Vec::new(),
        Rem::Foreign(n) => (0..(*n as u64).max(1)).map(|i| 1_000_000 + i).collect(),
    }
}

/// Run a history against the real channel and return the ordered event log.
pub fn run(case: &Case) -> Trace {
    RT.with(|rt| {
        let _g = rt.enter();
        run_inner(case)
    })
}

fn run_inner(case: &Case) -> Trace {
    // the virtual clock judges the real delay values: hook H1 must be neutral here
    emit_batcher::verif::set_delay_divisor(1);
    let cap = (case.cap as usize).max(1);
    ALLOC_HOOK.with(|h| *h.borrow_mut() = None);
    NEW_HOOK.with(|h| *h.borrow_mut() = None);
    let (sender, receiver) = emit_batcher::bounded::<Ch>(cap);
    let w: W = Arc::new(Mutex::new(World {
        log: Vec::with_capacity(case.ops.len() * 4 + 16),
        batch_slot: None,
        wait_slot: None,
        arm: false,
        always_arm: false,
        next_item: 0,
        next_id: 0,
        sender: Some(Arc::new(sender)),
        cb_registered: 0,
        cb_fired: 0,
        registering: false,
        alloc_blocked: false,
        alloc_fired: 0,
    }));

    let wait = {
        let w = w.clone();
        move |d: Duration| {
            let slot = Arc::new(Slot { v: Mutex::new(None) });
            let mut g = w.lock().unwrap();
            g.log.push(Ev::WaitReq(d));
            g.wait_slot = Some(slot.clone());
            WaitFut { slot, w: w.clone() }
        }
    };
    let on_batch = {
        let w = w.clone();
        move |batch: Ch| {
            let slot = Arc::new(Slot { v: Mutex::new(None) });
            let mut g = w.lock().unwrap();
            let batch = batch.0;
            g.log.push(Ev::BatchCall(batch.clone()));
            if g.arm || g.always_arm {
                g.arm = false;
                g.log.push(Ev::ClosurePanic);
                drop(g);
                panic!("scripted panic in on_batch");
            }
            g.batch_slot = Some((slot.clone(), batch));
            BatchFut { slot, w: w.clone() }
        }
    };
    // If the code under test panics out of a sender call (e.g. on a poisoned state mutex), dropping the
    // receiver, the tasks or the last sender while unwinding would panic again inside their `Drop` and abort
    // the whole process: leak them instead, so that the panic reaches the engine as an ordinary failure of
    // this case and can be shrunk.
    let _keep_world_when_panicking = LeakOnPanic::new(w.clone());
    let mut exec = LeakOnPanic::new(Some(Box::pin(receiver.exec(wait, on_batch)) as Pin<Box<dyn Future<Output = ()>>>));
    let waker = noop_waker();
    let mut tasks: LeakOnPanic<Vec<Task>> = LeakOnPanic::new(Vec::new());
    let mut exec_done = false;

    let cur_sender = |w: &W| w.lock().unwrap().sender.clone();
    let log = |w: &W, ev: Ev| w.lock().unwrap().log.push(ev);
    let fresh_item = |w: &W| {
        let mut g = w.lock().unwrap();
        g.next_item += 1;
        g.next_item
    };

    fn step(exec: &mut Option<Pin<Box<dyn Future<Output = ()>>>>, waker: &Waker, w: &W, exec_done: &mut bool) {
        if let Some(f) = exec.as_mut() {
            let mut cx = Context::from_waker(waker);
            if f.as_mut().poll(&mut cx).is_ready() {
                *exec = None;
                *exec_done = true;
                w.lock().unwrap().log.push(Ev::ExecDone);
            }
        }
    }

    fn poll_task(t: &mut Task, waker: &Waker, w: &W) {
        if let Some(f) = t.fut.as_mut() {
            let mut cx = Context::from_waker(waker);
            t.polls += 1;
            if let Poll::Ready(out) = f.as_mut().poll(&mut cx) {
                t.fut = None;
                let ev = match out {
                    TaskOut::Send(Ok(())) => Ev::Accepted { item: t.item, via: Via::Async, waited: t.polls > 1 },
                    TaskOut::Send(Err(got)) => Ev::HandedBack { item: t.item, got, via: Via::Async, inf: t.inf },
                    TaskOut::Flush(ok) => Ev::FlushDone { id: t.id, ok, inf: t.inf },
                };
                w.lock().unwrap().log.push(ev);
            }
        }
    }

    let metrics = |w: &W| {
        if let Some(s) = cur_sender(w) {
            let m = sample(&s);
            log(w, Ev::Metrics(m));
        }
    };

    let resolve_batch = |w: &W, out: &Outcome| {
        let slot = w.lock().unwrap().batch_slot.clone();
        if let Some((slot, batch)) = slot {
            let mut v = slot.v.lock().unwrap();
            if v.is_none() {
                *v = Some(match out {
                    Outcome::Ok => Ret::Ok,
                    Outcome::Err => Ret::Err,
                    Outcome::Retry(rem) => Ret::Retry(resolve_rem(rem, &batch)),
                    Outcome::PanicFuture => Ret::Panic,
                });
            }
        }
    };
    let resolve_wait = |w: &W| {
        let slot = w.lock().unwrap().wait_slot.clone();
        if let Some(slot) = slot {
            *slot.v.lock().unwrap() = Some(());
        }
    };

    for (i, op) in case.ops.iter().enumerate() {
        log(&w, Ev::Op(i));
        match op {
            Op::Send => {
                if let Some(s) = cur_sender(&w) {
                    let item = fresh_item(&w);
                    s.send(item);
                    log(&w, Ev::Accepted { item, via: Via::Send, waited: false });
                }
            }
            Op::TrySend => {
                if let Some(s) = cur_sender(&w) {
                    let item = fresh_item(&w);
                    match s.try_send(item) {
                        Ok(()) => log(&w, Ev::Accepted { item, via: Via::TrySend, waited: false }),
                        Err(e) => log(&w, Ev::HandedBack { item, got: e.into_retryable(), via: Via::TrySend, inf: false }),
                    }
                }
            }
            Op::AsyncSend { inf } => {
                if let Some(s) = cur_sender(&w) {
                    let item = fresh_item(&w);
                    let timeout = if *inf { INF } else { Duration::ZERO };
                    let fut = Box::pin(async move {
                        let r = emit_batcher::tokio::send(&*s, item, timeout).await;
                        TaskOut::Send(r.map_err(|e| e.into_retryable()))
                    });
                    let mut t = Task { fut: Some(fut), item, id: 0, inf: *inf, polls: 0 };
                    poll_task(&mut t, &waker, &w);
                    if t.fut.is_some() {
                        log(&w, Ev::AsyncBlocked);
                    }
                    tasks.push(t);
                }
            }
            Op::WhenFlushed(cb) => {
                if let Some(s) = cur_sender(&w) {
                    let id = {
                        let mut g = w.lock().unwrap();
                        g.next_id += 1;
                        g.cb_registered += 1;
                        let id = g.next_id;
                        g.log.push(Ev::FlushReq { id });
                        id
                    };
                    let f = make_cb(&w, *cb, Ev::FlushDone { id, ok: true, inf: true });
                    // a callback that panics on the immediate path panics into its own caller: ours
                    let _ = std::panic::catch_unwind(std::panic::AssertUnwindSafe(|| s.when_flushed(f)));
                }
            }
            Op::WhenEmpty(cb) => {
                if let Some(s) = cur_sender(&w) {
                    let id = {
                        let mut g = w.lock().unwrap();
                        g.next_id += 1;
                        g.cb_registered += 1;
                        let id = g.next_id;
                        g.log.push(Ev::EmptyReq { id });
                        id
                    };
                    let f = make_cb(&w, *cb, Ev::EmptyDone { id, on_take: false });
                    w.lock().unwrap().registering = true;
                    let _ = std::panic::catch_unwind(std::panic::AssertUnwindSafe(|| s.when_empty(f)));
                    w.lock().unwrap().registering = false;
                }
            }
            Op::AsyncFlush { inf } => {
                if let Some(s) = cur_sender(&w) {
                    let id = {
                        let mut g = w.lock().unwrap();
                        g.next_id += 1;
                        let id = g.next_id;
                        g.log.push(Ev::FlushReq { id });
                        id
                    };
                    let timeout = if *inf { INF } else { Duration::ZERO };
                    let fut = Box::pin(async move { TaskOut::Flush(emit_batcher::tokio::flush(&*s, timeout).await) });
                    let mut t = Task { fut: Some(fut), item: 0, id, inf: *inf, polls: 0 };
                    poll_task(&mut t, &waker, &w);
                    tasks.push(t);
                }
            }
            Op::Step => step(&mut exec, &waker, &w, &mut exec_done),
            Op::ResolveBatch(out) => resolve_batch(&w, out),
            Op::ResolveWait => resolve_wait(&w),
            Op::PollTask(i) => {
                let pending: Vec<usize> = tasks.iter().enumerate().filter(|(_, t)| t.fut.is_some()).map(|(i, _)| i).collect();
                if !pending.is_empty() {
                    let k = pending[vcore::pick(*i, pending.len())];
                    poll_task(&mut tasks[k], &waker, &w);
                }
            }
            Op::PollAll => {
                for t in tasks.iter_mut() {
                    poll_task(t, &waker, &w);
                }
            }
            Op::ArmClosurePanic => w.lock().unwrap().arm = true,
            Op::SampleSend { at } => {
                if let Some(s) = cur_sender(&w) {
                    use emit::metric::Source;
                    struct Reenter<'a>(&'a Sender<Ch>, &'a W, u8, std::cell::Cell<u8>);
                    impl<'a> emit::metric::sampler::Sampler for Reenter<'a> {
                        fn metric<P: emit::Props>(&self, _metric: emit::metric::Metric<P>) {
                            let i = self.3.get();
                            self.3.set(i + 1);
                            if self.2 % 8 == 7 || self.2 % 8 == i {
                                let item = {
                                    let mut g = self.1.lock().unwrap();
                                    g.next_item += 1;
                                    g.next_item
                                };
                                self.0.send(item);
                                self.1.lock().unwrap().log.push(Ev::Accepted { item, via: Via::Send, waited: false });
                            }
                        }
                    }
                    s.metric_source().sample_metrics(Reenter(&s, &w, *at, std::cell::Cell::new(0)));
                }
            }
            Op::ArmAllocSend => {
                let w2 = w.clone();
                let hook: Box<dyn FnOnce()> = Box::new(move || {
                    let Some(s) = w2.lock().unwrap().sender.clone() else { return };
                    let item = {
                        let mut g = w2.lock().unwrap();
                        g.next_item += 1;
                        g.next_item
                    };
                    // on another thread, with bounded patience: if the receiver holds its lock here (it does not
                    // today, and says so) the send simply waits for it -- then this case is not judged
                    w2.lock().unwrap().log.push(Ev::AllocPoint);
                    let (tx, rx) = std::sync::mpsc::channel();
                    std::thread::spawn(move || {
                        s.send(item);
                        // give the handle back BEFORE reporting: the main thread may drop "the last" sender next
                        drop(s);
                        let _ = tx.send(());
                    });
                    match rx.recv_timeout(Duration::from_secs(2)) {
                        Ok(()) => {
                            let mut g = w2.lock().unwrap();
                            g.alloc_fired += 1;
                            g.log.push(Ev::Accepted { item, via: Via::Send, waited: false });
                        }
                        Err(_) => w2.lock().unwrap().alloc_blocked = true,
                    }
                });
                ALLOC_HOOK.with(|h| *h.borrow_mut() = Some(hook));
            }
            Op::ArmNewSendFlush => {
                let w2 = w.clone();
                let hook: Box<dyn FnOnce()> = Box::new(move || {
                    let Some(s) = w2.lock().unwrap().sender.clone() else { return };
                    w2.lock().unwrap().log.push(Ev::AllocPoint);
                    let (tx, rx) = std::sync::mpsc::channel();
                    let w3 = w2.clone();
                    std::thread::spawn(move || {
                        let item = {
                            let mut g = w3.lock().unwrap();
                            g.next_item += 1;
                            g.next_item
                        };
                        s.send(item);
                        let id = {
                            let mut g = w3.lock().unwrap();
                            g.log.push(Ev::Accepted { item, via: Via::Send, waited: false });
                            g.next_id += 1;
                            g.cb_registered += 1;
                            let id = g.next_id;
                            g.log.push(Ev::FlushReq { id });
                            id
                        };
                        let f = make_cb(&w3, Cb::Plain, Ev::FlushDone { id, ok: true, inf: true });
                        let _ = std::panic::catch_unwind(std::panic::AssertUnwindSafe(|| s.when_flushed(f)));
                        drop(s);
                        let _ = tx.send(());
                    });
                    // short patience: with the lock held (today's code) every armed case pays it in full
                    match rx.recv_timeout(Duration::from_millis(30)) {
                        Ok(()) => w2.lock().unwrap().alloc_fired += 1,
                        Err(_) => w2.lock().unwrap().alloc_blocked = true,
                    }
                });
                NEW_HOOK.with(|h| *h.borrow_mut() = Some(hook));
            }
            Op::DropSender => {
                for t in tasks.iter_mut() {
                    if t.fut.take().is_some() {
                        log(&w, Ev::TaskCancelled);
                    }
                }
                let s = w.lock().unwrap().sender.take();
                if let Some(s) = s {
                    drop(s);
                    log(&w, Ev::SenderDropped);
                }
            }
        }
        metrics(&w);
    }

    // ---- drain: the receiver must make progress whatever the remaining outcomes are -------------
    log(&w, Ev::DrainStart);
    let n_items = w.lock().unwrap().next_item as usize;
    let bound = 64 * (n_items + case.ops.len() + 4);
    let drain_out = match case.drain {
        Drain::Ok | Drain::PanicClosure => Outcome::Ok,
        Drain::Err => Outcome::Err,
        Drain::Retry => Outcome::Retry(Rem::Same),
        Drain::PanicFuture => Outcome::PanicFuture,
    };
    if case.drain == Drain::PanicClosure {
        w.lock().unwrap().always_arm = true;
    }
    let mut stuck = None;
    // phase 1: sender alive; run until quiescent
    if cur_sender(&w).is_some() {
        let mut n = 0;
        loop {
            resolve_batch(&w, &drain_out);
            resolve_wait(&w);
            step(&mut exec, &waker, &w, &mut exec_done);
            for t in tasks.iter_mut() {
                poll_task(t, &waker, &w);
            }
            let q = cur_sender(&w).map(|s| sample(&s).queue_length).unwrap_or(0);
            let (idle, cbs) = {
                let g = w.lock().unwrap();
                (g.batch_slot.is_none() && g.wait_slot.is_some(), g.cb_registered == g.cb_fired)
            };
            // an AsyncFlush with zero timeout that returned false leaves nothing behind; tasks with
            // infinite timeouts must all have resolved
            let tasks_done = tasks.iter().all(|t| t.fut.is_none());
            // quiescent only when the receiver has come round to an idle wait with nothing queued; one
            // more idle round is needed after the last batch so that watchers attached to the (empty)
            // next batch are released
            if q == 0 && idle && cbs && tasks_done {
                break;
            }
            if cur_sender(&w).is_none() {
                // a callback dropped the last sender (Cb::SendDrop): go on to the termination phase
                break;
            }
            n += 1;
            if n > bound {
                stuck = Some(format!(
                    "not quiescent after {bound} drain rounds with the sender alive: queue_length={q} receiver_idle={idle} callbacks_all_fired={cbs} async_tasks_done={tasks_done}"
                ));
                break;
            }
            if exec_done {
                stuck = Some("receiver terminated while the sender was alive".into());
                break;
            }
        }
        metrics(&w);
        for t in tasks.iter_mut() {
            if t.fut.take().is_some() {
                log(&w, Ev::TaskCancelled);
            }
        }
        let s = w.lock().unwrap().sender.take();
        if s.is_some() {
            drop(s);
            log(&w, Ev::SenderDropped);
        }
    }
    // phase 2: sender gone; the receiver must deliver what is queued and terminate
    if stuck.is_none() {
        let mut n = 0;
        while !exec_done {
            resolve_batch(&w, &drain_out);
            resolve_wait(&w);
            step(&mut exec, &waker, &w, &mut exec_done);
            n += 1;
            if n > bound {
                stuck = Some(format!("receiver did not terminate within {bound} steps after the sender was dropped"));
                break;
            }
        }
    }
    drop(exec);
    drop(tasks);
    drop(_keep_world_when_panicking);
    ALLOC_HOOK.with(|h| *h.borrow_mut() = None);
    NEW_HOOK.with(|h| *h.borrow_mut() = None);
    let (log, alloc_blocked, alloc_fired) = {
        let mut g = w.lock().unwrap();
        (std::mem::take(&mut g.log), g.alloc_blocked, g.alloc_fired)
    };
    Trace { alloc_fired, alloc_blocked, log, cap, stuck, exec_done }
}

// ---------------------------------------------------------------------------------------------
// Oracles (passes over the log)

#[derive(Default, Debug)]
pub struct Stats {
    pub retries: u32,
    pub max_chain: u32,
    pub truncations: u32,
    pub send_during_batch: bool,
    pub flush_in_batch: bool,
    pub flush_during_retry: bool,
    pub flush_with_pending: bool,
    pub flushes_done: u32,
    pub panics: u32,
    pub drop_with_queued: bool,
    pub overflow_send: bool,
    pub overflow_try: bool,
    pub overflow_async: bool,
    pub batches: u32,
    pub foreign: bool,
    pub exhausted: u32,
    pub cb_reenter: bool,
}

#[derive(Default)]
pub struct Verdict {
    pub c06: Vec<Fail>,
    pub c07: Vec<Fail>,
    pub c08: Vec<Fail>,
    pub c09: Vec<Fail>,
    pub stats: Stats,
}

#[derive(Clone, Copy, PartialEq, Debug)]
enum St {
    Queued,
    InFlight,
    AwaitRetry,
    Final,
    Truncated,
}

struct Cur {
    attempt: Vec<u64>,
    attempts: u32,
    awaiting: Option<Vec<u64>>,
    wait_seen: bool,
    last_wait: Option<Duration>,
    in_attempt: bool,
}

pub fn judge(trace: &Trace, ops: &[Op]) -> Verdict {
    let mut v = Verdict::default();
    let cap = trace.cap;
    let mut queue: VecDeque<u64> = VecDeque::new();
    // items the receiver has swapped out (observed through a when_empty callback, which is documented
    // to fire "at a point where the current batch is empty") but not yet handed to the processor
    let mut taken: VecDeque<u64> = VecDeque::new();
    let mut st: HashMap<u64, St> = HashMap::new();
    let mut accepted: Vec<u64> = Vec::new();
    let mut cur: Option<Cur> = None;
    let mut trunc = 0usize;
    let mut blocked = 0usize;
    let mut flush_req: HashMap<u32, usize> = HashMap::new();
    let mut cb_fired: HashMap<(bool, u32), u32> = HashMap::new();
    let mut cb_registered: Vec<(bool, u32)> = Vec::new();
    let mut async_flush_ids: Vec<u32> = Vec::new();
    let mut exec_done = false;
    let mut take_marked = false;
    let mut op_idx = usize::MAX;
    let f = |sig: &str, msg: String| Fail::new(sig, msg);

    // lookahead: after a retryable failure, does the receiver re-invoke the processor with exactly the
    // remainder? (the next processor invocation in the log tells)
    let next_call: Vec<Option<&Vec<u64>>> = {
        let mut out = vec![None; trace.log.len()];
        let mut next: Option<&Vec<u64>> = None;
        for (i, ev) in trace.log.iter().enumerate().rev() {
            out[i] = next;
            if let Ev::BatchCall(items) = ev {
                next = Some(items);
            }
        }
        out
    };
    let mut budgets: Vec<(u32, Vec<u64>)> = Vec::new();

    for (pos, ev) in trace.log.iter().enumerate() {
        match ev {
            Ev::Op(i) => {
                op_idx = *i;
                if matches!(ops.get(*i), Some(Op::AsyncFlush { .. })) {
                    // its FlushReq follows
                }
            }
            Ev::DrainStart => op_idx = usize::MAX,
            Ev::Accepted { item, via, waited } => {
                if *via == Via::Send {
                    if queue.len() >= cap {
                        for x in queue.drain(..) {
                            st.insert(x, St::Truncated);
                        }
                        trunc += 1;
                        v.stats.truncations += 1;
                        v.stats.overflow_send = true;
                    }
                } else if queue.len() >= cap {
                    v.c09.push(f(
                        "C09/accepted-beyond-capacity",
                        format!("item {item} accepted via {via:?} while {} items were pending (capacity {cap}) [log pos {pos}]", queue.len()),
                    ));
                }
                if *via == Via::Async && *waited {
                    v.stats.overflow_async = true;
                }
                queue.push_back(*item);
                st.insert(*item, St::Queued);
                accepted.push(*item);
                if cur.as_ref().map_or(false, |c| c.in_attempt || c.awaiting.is_some()) {
                    v.stats.send_during_batch = true;
                }
                if op_idx != usize::MAX && !matches!(ops.get(op_idx), Some(Op::Send | Op::TrySend | Op::AsyncSend { .. } | Op::PollTask(_) | Op::PollAll)) {
                    v.stats.cb_reenter = true;
                }
            }
            Ev::HandedBack { item, got, via, inf } => {
                if *got != Some(*item) {
                    v.c09.push(f("C09/handed-back-item-differs", format!("{via:?} of item {item} failed but handed back {got:?}")));
                }
                if queue.len() < cap {
                    v.c09.push(f(
                        "C09/rejected-though-not-full",
                        format!("{via:?} of item {item} was refused with {} pending (capacity {cap})", queue.len()),
                    ));
                }
                match via {
                    Via::TrySend => v.stats.overflow_try = true,
                    Via::Async => {
                        v.stats.overflow_async = true;
                        if !*inf {
                            blocked += 1;
                        }
                        if *inf {
                            v.c09.push(f("C09/gave-up-before-timeout", format!("async send of item {item} with an unexpired timeout handed the item back")));
                        }
                    }
                    Via::Send => {}
                }
            }
            Ev::FlushReq { id } => {
                flush_req.insert(*id, accepted.len());
                if matches!(ops.get(op_idx), Some(Op::AsyncFlush { .. })) && op_idx != usize::MAX {
                    async_flush_ids.push(*id);
                } else {
                    cb_registered.push((true, *id));
                }
                if let Some(c) = &cur {
                    v.stats.flush_in_batch |= c.in_attempt;
                    v.stats.flush_during_retry |= c.awaiting.is_some();
                }
                v.stats.flush_with_pending |= !queue.is_empty();
            }
            Ev::FlushDone { id, ok, inf } => {
                if !async_flush_ids.contains(id) {
                    *cb_fired.entry((true, *id)).or_default() += 1;
                }
                if *ok {
                    v.stats.flushes_done += 1;
                    let upto = flush_req.get(id).copied().unwrap_or(0);
                    for x in &accepted[..upto] {
                        let s = st[x];
                        if s != St::Final && s != St::Truncated {
                            v.c07.push(f(
                                &format!("C07/flush-completed-with-item-{}", match s { St::Queued => "queued", St::InFlight => "in-flight", St::AwaitRetry => "awaiting-retry", _ => "?" }),
                                format!("flush {id} completed at log pos {pos} but item {x}, accepted before the flush was requested, is {s:?}"),
                            ));
                            break;
                        }
                    }
                } else if *inf {
                    v.c08.push(f("C08/flush-false-before-timeout", format!("async flush {id} with an unexpired timeout resolved false")));
                }
            }
            Ev::EmptyReq { id } => cb_registered.push((false, *id)),
            Ev::EmptyDone { id, on_take } => {
                *cb_fired.entry((false, *id)).or_default() += 1;
                // the first on-take callback of a hand-off marks the swap: everything accepted so far
                // has left the pending queue, later sends (also from callbacks) go to the fresh one
                if *on_take && !take_marked {
                    take_marked = true;
                    taken.extend(queue.drain(..));
                }
            }
            Ev::AllocPoint => {
                // Where the allocation sits relative to the hand-off is the receiver's business. If the very next
                // thing it does is to hand the processor exactly what is pending now (and it is not a retry),
                // the swap has already happened and the send that follows goes to the fresh queue; if it goes
                // on to wait, or hands over something else, nothing was taken here.
                let new_batch = !cur.as_ref().map_or(false, |c| c.awaiting.is_some());
                let next_is_wait_first = trace.log[pos + 1..].iter().find_map(|e| match e {
                    Ev::BatchCall(_) => Some(false),
                    Ev::WaitReq(_) => Some(true),
                    _ => None,
                });
                if !take_marked && new_batch && next_is_wait_first == Some(false) && !queue.is_empty() && next_call[pos].map_or(false, |n| n.iter().eq(queue.iter())) {
                    take_marked = true;
                    taken.extend(queue.drain(..));
                }
            }
            Ev::BatchCall(items) => {
                take_marked = false;
                if let Some(c) = cur.as_mut().filter(|c| c.awaiting.is_some()) {
                    let want = c.awaiting.take().unwrap();
                    if *items != want {
                        v.c06.push(f("C06/retry-is-not-the-remainder", format!("processor returned remainder {want:?} but was re-invoked with {items:?}")));
                    }
                    if !c.wait_seen {
                        v.c08.push(f("C08/retry-without-backoff", format!("batch {want:?} retried with no wait requested in between")));
                    }
                    c.attempts += 1;
                    c.attempt = items.clone();
                    c.in_attempt = true;
                    c.wait_seen = false;
                    if c.attempts > MAX_ATTEMPTS {
                        v.c08.push(f("C08/too-many-attempts", format!("batch attempted {} times", c.attempts)));
                    }
                    v.stats.max_chain = v.stats.max_chain.max(c.attempts - 1);
                    for x in items {
                        if st.get(x) == Some(&St::AwaitRetry) {
                            st.insert(*x, St::InFlight);
                        }
                    }
                } else {
                    if cur.as_ref().map_or(false, |c| c.in_attempt) {
                        v.c06.push(f("C06/overlapping-batches", format!("processor invoked with {items:?} while a batch is in flight")));
                    }
                    // first attempt: a non-empty FIFO prefix of what is pending
                    let n = items.len();
                    if n > cap {
                        v.c09.push(f(
                            "C09/batch-larger-than-capacity",
                            format!("the processor was handed {n} items at once although at most {cap} can be pending"),
                        ));
                    }
                    // hand-off order: what was already swapped out, then what is pending
                    let mut src: VecDeque<u64> = taken.drain(..).collect();
                    let n_taken = src.len();
                    src.extend(queue.drain(..));
                    std::mem::swap(&mut queue, &mut src);
                    let is_prefix = n > 0 && n <= queue.len() && queue.iter().take(n).eq(items.iter()) && n >= n_taken;
                    if !is_prefix {
                        let why = if let Some(x) = items.iter().find(|x| matches!(st.get(x), Some(St::Final | St::InFlight | St::AwaitRetry))) {
                            format!("item {x} delivered twice")
                        } else if let Some(x) = items.iter().find(|x| st.get(x) == Some(&St::Truncated)) {
                            format!("item {x} was discarded by a truncation but is delivered")
                        } else if let Some(x) = items.iter().find(|x| !st.contains_key(x)) {
                            format!("item {x} was never accepted")
                        } else if n == 0 {
                            "empty batch handed to the processor".to_string()
                        } else {
                            "items skipped or reordered".to_string()
                        };
                        v.c06.push(f("C06/batch-is-not-fifo-prefix-of-accepted", format!("batch {items:?} vs pending {queue:?}: {why}")));
                        queue.retain(|x| !items.contains(x));
                    } else {
                        queue.drain(..n);
                    }
                    for x in items {
                        st.insert(*x, St::InFlight);
                    }
                    v.stats.batches += 1;
                    cur = Some(Cur { attempt: items.clone(), attempts: 1, awaiting: None, wait_seen: false, last_wait: None, in_attempt: true });
                }
            }
            Ev::ClosurePanic => {
                v.stats.panics += 1;
                if let Some(c) = cur.take() {
                    for x in &c.attempt {
                        if st.get(x) == Some(&St::InFlight) {
                            st.insert(*x, St::Final);
                        }
                    }
                }
            }
            Ev::BatchRet(ret) => {
                take_marked = false;
                let Some(c) = cur.as_mut() else {
                    continue;
                };
                c.in_attempt = false;
                match ret {
                    Ret::Ok | Ret::Err | Ret::Panic => {
                        if *ret == Ret::Panic {
                            v.stats.panics += 1;
                        }
                        for x in &c.attempt {
                            if st.get(x) == Some(&St::InFlight) {
                                st.insert(*x, St::Final);
                            }
                        }
                        cur = None;
                    }
                    Ret::Retry(rem) => {
                        if rem.iter().any(|x| *x >= 1_000_000) {
                            v.stats.foreign = true;
                        }
                        // retried iff the next processor invocation is exactly the remainder (a partial
                        // overlap is caught as a duplicate delivery / wrong remainder below)
                        let redelivered = next_call[pos].map_or(false, |n| n == rem || n.iter().any(|x| rem.contains(x)));
                        let will_retry = !rem.is_empty() && redelivered;
                        if !rem.is_empty() && !redelivered {
                            // given up: the retries this batch got are its budget
                            budgets.push((c.attempts - 1, rem.clone()));
                        }
                        for x in &c.attempt {
                            if st.get(x) == Some(&St::InFlight) {
                                if will_retry && rem.contains(x) {
                                    st.insert(*x, St::AwaitRetry);
                                } else {
                                    st.insert(*x, St::Final);
                                }
                            }
                        }
                        if will_retry {
                            v.stats.retries += 1;
                            c.awaiting = Some(rem.clone());
                        } else {
                            if !rem.is_empty() {
                                v.stats.exhausted += 1;
                            }
                            cur = None;
                        }
                    }
                }
            }
            Ev::WaitReq(d) => {
                take_marked = false;
                if let Some(c) = cur.as_mut().filter(|c| c.awaiting.is_some()) {
                    if c.wait_seen {
                        v.c08.push(f("C08/double-wait", "two waits requested between two attempts".into()));
                    }
                    c.wait_seen = true;
                    if *d > MAX_BACKOFF {
                        v.c08.push(f("C08/backoff-unbounded", format!("retry wait of {d:?} exceeds {MAX_BACKOFF:?}")));
                    }
                    if let Some(prev) = c.last_wait {
                        if *d < prev {
                            v.c08.push(f("C08/backoff-decreasing", format!("retry wait {d:?} after {prev:?}")));
                        }
                    }
                    if d.is_zero() {
                        v.c08.push(f("C08/backoff-zero", "retry wait of zero".into()));
                    }
                    c.last_wait = Some(*d);
                } else {
                    // a retry that the model expected to be abandoned (budget) may legitimately idle
                    if *d > MAX_IDLE {
                        v.c08.push(f("C08/idle-wait-unbounded", format!("idle wait of {d:?} exceeds {MAX_IDLE:?}")));
                    }
                }
            }
            Ev::WaitRet => {}
            Ev::ExecDone => {
                exec_done = true;
                if !queue.is_empty() || !taken.is_empty() {
                    v.c08.push(f("C08/terminated-with-queued-items", format!("receiver terminated with {queue:?} {taken:?} still queued")));
                }
                if cur.as_ref().map_or(false, |c| c.awaiting.is_some()) {
                    v.c06.push(f("C06/remainder-never-redelivered", format!("receiver terminated with a remainder {:?} awaiting retry (attempt {})", cur.as_ref().unwrap().awaiting, cur.as_ref().unwrap().attempts)));
                }
            }
            Ev::SenderDropped => {
                v.stats.drop_with_queued |= !queue.is_empty() || cur.is_some();
            }
            Ev::TaskCancelled => {}
            Ev::AsyncBlocked => blocked += 1,
            Ev::Metrics(m) => {
                if m.queue_length != queue.len() && taken.is_empty() {
                    v.c09.push(f(
                        "C09/queue-length-differs-from-model",
                        format!("queue_length metric {} but {} items are pending by the model ({queue:?}), capacity {cap} [after op {op_idx}]", m.queue_length, queue.len()),
                    ));
                }
                if m.queue_length > cap {
                    v.c09.push(f("C09/pending-exceeds-capacity", format!("queue_length {} > capacity {cap}", m.queue_length)));
                }
                if m.truncated != trunc {
                    let fl = f("C09/truncation-count", format!("queue_full_truncated = {} but {} truncations happened", m.truncated, trunc));
                    v.c06.push(Fail::new("C06/truncation-count", fl.msg.clone()));
                    v.c09.push(fl);
                }
                if m.blocked != blocked {
                    v.c09.push(f("C09/blocked-count", format!("queue_full_blocked = {} but {} sends had to wait", m.blocked, blocked)));
                }
            }
        }
        // a retry the model expects must happen: if the receiver took a NEW first attempt or idled
        // instead, BatchCall/WaitReq handling above reports it; nothing to do here
    }
    // the retry budget is per batch: every batch that was given up got the same number of retries, and
    // a remainder is re-delivered at least once (unless the receiver was torn down: the trace ended)
    if exec_done || trace.stuck.is_none() {
        if let Some((n, rem)) = budgets.iter().find(|(n, _)| *n == 0) {
            let _ = n;
            v.c06.push(f("C06/remainder-never-redelivered", format!("the processor returned remainder {rem:?} after the first attempt and it was never re-delivered")));
        } else if let (Some(min), Some(max)) = (budgets.iter().map(|b| b.0).min(), budgets.iter().map(|b| b.0).max()) {
            if min != max {
                v.c06.push(f(
                    "C06/retry-budget-differs-between-batches",
                    format!("batches were given up after different numbers of retries: {:?}", budgets.iter().map(|b| b.0).collect::<Vec<_>>()),
                ));
            }
        }
    }
    if let Some(why) = &trace.stuck {
        v.c08.push(f("C08/no-progress", why.clone()));
    }
    if exec_done {
        for key in &cb_registered {
            let n = cb_fired.get(key).copied().unwrap_or(0);
            if n == 0 {
                v.c08.push(f("C08/callback-never-fired", format!("{} callback {} never fired although the receiver ran to completion", if key.0 { "flush" } else { "empty" }, key.1)));
            }
        }
        for (x, s) in &st {
            if matches!(s, St::Queued | St::InFlight | St::AwaitRetry) && *x < 1_000_000 {
                v.c06.push(f("C06/item-lost", format!("item {x} was accepted, not truncated, and is {s:?} after the receiver ran to completion")));
                break;
            }
        }
    }
    for (key, n) in &cb_fired {
        if *n > 1 {
            v.c08.push(f("C08/callback-fired-twice", format!("callback {key:?} fired {n} times")));
        }
    }
    v
}

// ---------------------------------------------------------------------------------------------
// Generators

#[derive(Clone, Copy)]
pub struct Weights {
    pub send: u32,
    pub try_send: u32,
    pub async_send: u32,
    pub flush: u32,
    pub empty: u32,
    pub step: u32,
    pub resolve_ok: u32,
    pub resolve_fail: u32,
    pub resolve_wait: u32,
    pub poll: u32,
    pub arm: u32,
    pub drop: u32,
    pub max_cap: u8,
    pub max_len: usize,
}

pub const W_C06: Weights = Weights { send: 10, try_send: 3, async_send: 3, flush: 2, empty: 1, step: 9, resolve_ok: 4, resolve_fail: 5, resolve_wait: 4, poll: 2, arm: 1, drop: 1, max_cap: 8, max_len: 60 };
pub const W_C07: Weights = Weights { send: 8, try_send: 2, async_send: 2, flush: 8, empty: 1, step: 9, resolve_ok: 4, resolve_fail: 4, resolve_wait: 4, poll: 4, arm: 1, drop: 0, max_cap: 6, max_len: 50 };
pub const W_C08: Weights = Weights { send: 6, try_send: 1, async_send: 2, flush: 4, empty: 3, step: 9, resolve_ok: 2, resolve_fail: 9, resolve_wait: 6, poll: 3, arm: 3, drop: 2, max_cap: 6, max_len: 70 };
pub const W_C09: Weights = Weights { send: 10, try_send: 7, async_send: 7, flush: 1, empty: 2, step: 4, resolve_ok: 3, resolve_fail: 1, resolve_wait: 2, poll: 4, arm: 0, drop: 0, max_cap: 8, max_len: 60 };

pub fn rem() -> impl Strategy<Value = Rem> {
    prop_oneof![
        4 => Just(Rem::Same),
        2 => (1u8..4).prop_map(Rem::Suffix),
        2 => any::<u16>().prop_map(Rem::Mask),
        1 => Just(Rem::Empty),
        1 => (1u8..3).prop_map(Rem::Foreign),
    ]
}

pub fn cb() -> impl Strategy<Value = Cb> {
    prop_oneof![5 => Just(Cb::Plain), 1 => Just(Cb::Panic), 1 => Just(Cb::Send), 1 => Just(Cb::Flush), 1 => Just(Cb::SendDrop)]
}

pub fn op(w: Weights) -> impl Strategy<Value = Op> {
    prop_oneof![
        w.send => Just(Op::Send),
        w.try_send + 1 => Just(Op::TrySend),
        w.async_send + 1 => any::<bool>().prop_map(|inf| Op::AsyncSend { inf }),
        w.flush => cb().prop_map(Op::WhenFlushed),
        w.flush + 1 => prop_oneof![3 => Just(true), 1 => Just(false)].prop_map(|inf| Op::AsyncFlush { inf }),
        w.empty + 1 => cb().prop_map(Op::WhenEmpty),
        w.step => Just(Op::Step),
        w.resolve_ok => Just(Op::ResolveBatch(Outcome::Ok)),
        w.resolve_fail => prop_oneof![
            2 => Just(Outcome::Err),
            6 => rem().prop_map(Outcome::Retry),
            2 => Just(Outcome::PanicFuture),
        ].prop_map(Op::ResolveBatch),
        w.resolve_wait => Just(Op::ResolveWait),
        w.poll + 1 => prop_oneof![any::<u32>().prop_map(Op::PollTask), Just(Op::PollAll)],
        w.arm + 1 => Just(Op::ArmClosurePanic),
        w.drop + 1 => Just(Op::DropSender),
        2 => (0u8..8).prop_map(|at| Op::SampleSend { at }),
    ]
}

/// "macro" fragments that make the interesting windows frequent: a full retry chain, a hand-off
/// followed by sends, an overflow burst.
pub fn fragment(w: Weights) -> impl Strategy<Value = Vec<Op>> {
    prop_oneof![
        6 => op(w).prop_map(|o| vec![o]),
        2 => (1usize..14, rem()).prop_map(|(n, r)| {
            // a retry chain of n failed attempts on whatever batch is next
            let mut v = vec![Op::Step];
            for _ in 0..n {
                v.push(Op::ResolveBatch(Outcome::Retry(r.clone())));
                v.push(Op::Step);
                v.push(Op::ResolveWait);
                v.push(Op::Step);
            }
            v
        }),
        2 => (1usize..12).prop_map(|n| vec![Op::Send; n]),
        1 => (1usize..4, cb()).prop_map(|(n, c)| {
            let mut v = vec![Op::Step];
            v.extend(std::iter::repeat(Op::Send).take(n));
            v.push(Op::WhenFlushed(c));
            v
        }),
        1 => Just(vec![Op::ResolveBatch(Outcome::Ok), Op::Step, Op::ResolveWait, Op::Step]),
    ]
}

/// A quiet period: the receiver goes round its idle loop n times with a sender (on another thread) waiting to get
/// in at the receiver's next buffer allocation, whenever that is. One case in twelve gets one (each firing costs a
/// thread hand-over).
pub fn quiet() -> impl Strategy<Value = Vec<Op>> {
    (1usize..16, any::<bool>()).prop_map(|(n, first)| {
        let mut v = Vec::new();
        if first {
            v.push(Op::ArmAllocSend);
        }
        v.extend([Op::ResolveBatch(Outcome::Ok), Op::Step]);
        for i in 0..n {
            if !first && i == n / 2 {
                v.push(Op::ArmAllocSend);
            }
            v.push(Op::ResolveWait);
            v.push(Op::Step);
        }
        v
    })
}

pub fn case(w: Weights) -> impl Strategy<Value = Case> {
    (
        1u8..=w.max_cap,
        prop::collection::vec(fragment(w), 0..w.max_len / 2),
        prop_oneof![4 => Just(Drain::Ok), 1 => Just(Drain::Err), 2 => Just(Drain::Retry), 1 => Just(Drain::PanicFuture), 1 => Just(Drain::PanicClosure)],
        prop_oneof![
            366 => Just(None),
            33 => (any::<u32>(), quiet()).prop_map(Some),
            1 => (any::<u32>(), quiet()).prop_map(|(at, q)| Some((at, q.into_iter().map(|o| if o == Op::ArmAllocSend { Op::ArmNewSendFlush } else { o }).collect()))),
        ],
    )
        .prop_map(move |(cap, mut frags, drain, quiet)| {
            if let Some((at, q)) = quiet {
                let at = vcore::pick(at, frags.len() + 1);
                frags.insert(at, q);
            }
            let mut ops: Vec<Op> = frags.into_iter().flatten().collect();
            ops.truncate(w.max_len * 2);
            Case { cap, ops, drain }
        })
}

/// Small-scope alphabet for exhaustive enumeration.
pub const SMALL_ALPHABET: [Op; 13] = [
    Op::Send,
    Op::TrySend,
    Op::AsyncSend { inf: true },
    Op::WhenFlushed(Cb::Plain),
    Op::AsyncFlush { inf: true },
    Op::Step,
    Op::ResolveBatch(Outcome::Ok),
    Op::ResolveBatch(Outcome::Retry(Rem::Same)),
    Op::ResolveBatch(Outcome::Retry(Rem::Suffix(1))),
    Op::ResolveBatch(Outcome::PanicFuture),
    Op::ResolveWait,
    Op::PollAll,
    Op::DropSender,
];

#[derive(Serialize, Deserialize, Debug, Clone)]
pub struct SmallCase {
    pub cap: u8,
    pub len: u8,
    pub code: u64,
}

impl SmallCase {
    pub fn to_case(&self) -> Case {
        let mut code = self.code;
        let mut ops = Vec::new();
        for _ in 0..self.len {
            ops.push(SMALL_ALPHABET[(code % 13) as usize].clone());
            code /= 13;
        }
        Case { cap: self.cap, ops, drain: Drain::Ok }
    }
}

pub fn small_cases(max_len: u8, caps: &'static [u8]) -> impl Iterator<Item = SmallCase> + Send {
    caps.iter().flat_map(move |cap| {
        (0..=max_len).flat_map(move |len| (0..13u64.pow(len as u32)).map(move |code| SmallCase { cap: *cap, len, code }))
    })
}

#[derive(Clone, Copy, PartialEq)]
pub enum Prop {
    C06,
    C07,
    C08,
    C09,
}

/// Run + judge + classify for one property. Failures of the other three properties' oracles are
/// counted as a class (their own check reports them), not reported here.
pub fn check(case: &Case, which: Prop, cx: &mut Cx) -> vcore::Res {
    let trace = run(case);
    if trace.alloc_blocked {
        cx.class_if(case.ops.iter().any(|o| matches!(o, Op::ArmNewSendFlush)), "new-hook-armed");
        cx.class("dontcare:allocation-called-under-the-receiver-lock");
        cx.dont_care();
        return Ok(());
    }
    let mut v = judge(&trace, &case.ops);
    let s = &v.stats;
    cx.class_if(case.ops.iter().any(|o| matches!(o, Op::ArmAllocSend)), "allocation-hook-armed");
    cx.class_if(case.ops.iter().any(|o| matches!(o, Op::ArmNewSendFlush)), "new-hook-armed:not-blocked");
    cx.class_if(trace.alloc_fired > 0, "send-inside-receiver-allocation");
    cx.class_if(case.ops.iter().any(|o| matches!(o, Op::SampleSend { .. })), "self-reported-metrics");
    cx.class_if(s.retries > 0, "retry");
    cx.class_if(s.max_chain >= 3, "retry-chain>=3");
    cx.class_if(s.exhausted > 0, "retries-exhausted");
    cx.class_if(s.truncations > 0, "truncation");
    cx.class_if(s.send_during_batch, "send-between-handoff-and-resolution");
    cx.class_if(s.flush_in_batch, "flush-while-in-batch");
    cx.class_if(s.flush_during_retry, "flush-during-retry-wait");
    cx.class_if(s.flush_with_pending, "flush-with-pending");
    cx.class_if(s.flushes_done > 0, "flush-completed");
    cx.class_if(s.panics > 0, "panic");
    cx.class_if(s.drop_with_queued, "sender-drop-with-queued");
    cx.class_if(s.overflow_send, "overflow-via-send");
    cx.class_if(s.overflow_try, "overflow-via-try_send");
    cx.class_if(s.overflow_async, "overflow-via-async-send");
    cx.class_if(s.foreign, "foreign-remainder");
    cx.class_if(s.cb_reenter, "callback-reenters-sender");
    cx.class_if(s.batches >= 3, "batches>=3");
    match which {
        Prop::C06 => cx.nontrivial(s.send_during_batch || s.retries > 0 || s.truncations > 0),
        Prop::C07 => cx.nontrivial(s.flush_in_batch || s.flush_during_retry || s.flush_with_pending),
        Prop::C08 => cx.nontrivial(s.panics > 0 || s.max_chain >= 3 || s.drop_with_queued),
        Prop::C09 => cx.nontrivial(s.overflow_send || s.overflow_try || s.overflow_async),
    }
    let (mine, others): (Vec<Fail>, usize) = match which {
        Prop::C06 => (std::mem::take(&mut v.c06), v.c07.len() + v.c08.len() + v.c09.len()),
        Prop::C07 => (std::mem::take(&mut v.c07), v.c06.len() + v.c08.len() + v.c09.len()),
        Prop::C08 => (std::mem::take(&mut v.c08), v.c06.len() + v.c07.len() + v.c09.len()),
        Prop::C09 => (std::mem::take(&mut v.c09), v.c06.len() + v.c07.len() + v.c08.len()),
    };
    cx.class_if(others > 0, "other-property-oracle-failed");
    for fail in mine {
        cx.fail(fail.sig, fail.msg)?;
    }
    Ok(())
}
