//! Channel engines shared by the C06–C09 checks: E2 (deterministic scheduler) and E7 (OS-thread stress).
pub mod e2;
pub mod e7;

pub mod fuzz;
