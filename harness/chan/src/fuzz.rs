//! Engine E6 over engine E2: channel histories decoded from fuzzer bytes (libFuzzer targets `chan_c06` … `chan_c09`).
//!
//! The SAME case type, interpreter (`e2::run`) and oracles (`e2::judge` through `e2::check`) as the proptest
//! generators; only the source of histories differs: coverage feedback from `emit_batcher` decides which histories
//! are kept and mutated, so a state that needs a long specific op sequence is approached step by step instead of
//! being drawn in one go. Layout (one byte per op, so libFuzzer's byte-level mutations are op-level mutations):
//! byte 0 = capacity (1–8), byte 1 = drain policy, then one op per byte: low 5 bits select the op, the high 3 bits are
//! its small argument; `PollTask` and `Rem::Mask` read one more byte.
use crate::e2::{check, Case, Cb, Drain, Op, Outcome, Prop, Rem};

const CBS: [Cb; 5] = [Cb::Plain, Cb::Panic, Cb::Send, Cb::Flush, Cb::SendDrop];
const DRAINS: [Drain; 5] = [Drain::Ok, Drain::Err, Drain::Retry, Drain::PanicFuture, Drain::PanicClosure];
pub const MAX_OPS: usize = 160;

pub fn decode(data: &[u8]) -> Option<Case> {
    if data.len() < 2 {
        return None;
    }
    let cap = 1 + data[0] % 8;
    let drain = DRAINS[(data[1] % 5) as usize];
    let mut ops = Vec::new();
    let mut it = data[2..].iter().copied();
    while let Some(b) = it.next() {
        if ops.len() >= MAX_OPS {
            break;
        }
        let hi = b >> 5;
        let op = match b & 31 {
            0..=5 => Op::Send,
            6 => Op::TrySend,
            7 => Op::AsyncSend { inf: hi & 1 == 1 },
            8 => Op::WhenFlushed(CBS[(hi % 5) as usize]),
            9 => Op::AsyncFlush { inf: hi & 3 != 0 },
            10 => Op::WhenEmpty(CBS[(hi % 5) as usize]),
            11..=15 => Op::Step,
            16 | 17 => Op::ResolveBatch(Outcome::Ok),
            18 => Op::ResolveBatch(Outcome::Err),
            19 | 29 => Op::ResolveBatch(Outcome::Retry(match hi {
                0..=2 => Rem::Same,
                3 => Rem::Suffix(1),
                4 => Rem::Suffix(2),
                5 => Rem::Empty,
                6 => Rem::Foreign(1),
                _ => Rem::Mask(u16::from(it.next().unwrap_or(0x55)) * 257),
            })),
            20 => Op::ResolveBatch(Outcome::PanicFuture),
            21 | 22 => Op::ResolveWait,
            23 => Op::PollAll,
            24 => Op::PollTask(u32::from(it.next().unwrap_or(0)) << 24),
            25 => Op::ArmClosurePanic,
            26 => Op::DropSender,
            27 => Op::SampleSend { at: hi },
            // one thread hand-over per firing: kept, but an eighth as frequent as the other ops
            28 if hi == 7 => Op::ArmAllocSend,
            28 => Op::Send,
            30 => Op::Step,
            _ => Op::ResolveBatch(Outcome::Ok),
        };
        ops.push(op);
    }
    Some(Case { cap, ops, drain })
}

/// The inverse of `decode` for the ops it can produce (used to write seed corpora from generated cases).
pub fn encode(case: &Case) -> Vec<u8> {
    let mut out = vec![case.cap.wrapping_sub(1) % 8, DRAINS.iter().position(|d| *d == case.drain).unwrap_or(0) as u8];
    let cb = |c: &Cb| (CBS.iter().position(|x| x == c).unwrap_or(0) as u8) << 5;
    for op in &case.ops {
        match op {
            Op::Send => out.push(0),
            Op::TrySend => out.push(6),
            Op::AsyncSend { inf } => out.push(7 | (u8::from(*inf) << 5)),
            Op::WhenFlushed(c) => out.push(8 | cb(c)),
            Op::AsyncFlush { inf } => out.push(9 | (u8::from(*inf) << 5)),
            Op::WhenEmpty(c) => out.push(10 | cb(c)),
            Op::Step => out.push(11),
            Op::ResolveBatch(Outcome::Ok) => out.push(16),
            Op::ResolveBatch(Outcome::Err) => out.push(18),
            Op::ResolveBatch(Outcome::Retry(r)) => match r {
                Rem::Same => out.push(19),
                Rem::Suffix(1) => out.push(19 | (3 << 5)),
                Rem::Suffix(_) => out.push(19 | (4 << 5)),
                Rem::Empty => out.push(19 | (5 << 5)),
                Rem::Foreign(_) => out.push(19 | (6 << 5)),
                Rem::Mask(m) => out.extend([19 | (7 << 5), (*m & 0xff) as u8]),
            },
            Op::ResolveBatch(Outcome::PanicFuture) => out.push(20),
            Op::ResolveWait => out.push(21),
            Op::PollAll => out.push(23),
            Op::PollTask(i) => out.extend([24, (*i >> 24) as u8]),
            Op::ArmClosurePanic => out.push(25),
            Op::DropSender => out.push(26),
            Op::SampleSend { at } => out.push(27 | ((at & 7) << 5)),
            Op::ArmAllocSend => out.push(28 | (7 << 5)),
            // 30 ms of patience per firing: not part of the fuzzed alphabet
            Op::ArmNewSendFlush => out.push(11),
        }
    }
    out
}

pub fn id(which: Prop) -> &'static str {
    match which {
        Prop::C06 => "C06",
        Prop::C07 => "C07",
        Prop::C08 => "C08",
        Prop::C09 => "C09",
    }
}

/// libFuzzer entry: decode, run the real channel under E2, judge with `which`'s oracle.
pub fn entry(data: &[u8], which: Prop) -> vcore::Res {
    let Some(case) = decode(data) else { return Ok(()) };
    vcore::with_cx(id(which), |cx| check(&case, which, cx))
}
