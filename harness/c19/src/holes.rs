//! Template holes with `#[emit::fmt("...")]` flags: the hole is rendered by formatting the captured `Value`
//! with the consumer-chosen spec (`write!(f, "{:SPEC}", value)`), so what is rendered must be the ORIGINAL value
//! formatted with the spec its capture mode maps to: `#[emit::as_debug]` + `fmt("S?")` / `fmt("S")` ->
//! `format!("{:S?}", x)`; `#[emit::as_display]` + `fmt("S")` -> `format!("{:S}", x)`; a default-captured number or
//! string + `fmt("S")` / `fmt("S?")` -> `format!("{:S}", x)` / `format!("{:S?}", x)`.
//! Rendered twice: by `emit::format!` and as `evt.msg()` of the event an `emit::emit!` call hands to a
//! type-erased emitter. (Template rendering as such is C16's; this is only the value's side of it.)

use std::cell::RefCell;

use serde::{Deserialize, Serialize};
use vcore::proptest::prelude::*;
use vcore::{pick, Cx, Res};

use crate::node::{any_text, f64_bits, tree, tree_no_nested_seq, Spec};
use crate::sites::Rt;

#[derive(Serialize, Deserialize, Debug, Clone, PartialEq)]
pub enum HSubj {
    I64(i64),
    /// bits
    F64(u64),
    String(String),
    Node(Spec),
}

#[derive(Serialize, Deserialize, Debug, Clone, PartialEq)]
pub struct HCase {
    pub subj: HSubj,
    /// picks one of the fixed call sites stamped out for the subject's static type (monotone `pick`)
    pub site: u32,
}

pub fn hcase() -> impl Strategy<Value = HCase> {
    let subj = prop_oneof![
        2 => prop_oneof![any::<i64>(), -1000i64..1000, Just(i64::MIN), Just(i64::MAX)].prop_map(HSubj::I64),
        2 => f64_bits().prop_map(HSubj::F64),
        2 => any_text().prop_map(HSubj::String),
        3 => prop_oneof![tree(3), tree_no_nested_seq()].prop_map(HSubj::Node),
    ];
    (subj, any::<u32>()).prop_map(|(subj, site)| HCase { subj, site })
}

pub const HOLE_DEBUG: &str = "fmt-hole:debug-capture";
pub const HOLE_DEBUG_PRETTY: &str = "fmt-hole:debug-capture/alternate-flag-on-a-structured-value";
pub const HOLE_DISPLAY: &str = "fmt-hole:display-capture";
pub const HOLE_TYPED: &str = "fmt-hole:typed-capture";

/// What one call site produced: (class, the `fmt` argument, expected text, `emit::format!` text, `evt.msg()` texts).
type Out = (&'static str, &'static str, String, String, Vec<String>);

fn event_msgs(call: impl FnOnce(&Rt<'_>)) -> Vec<String> {
    let msgs: RefCell<Vec<String>> = RefCell::new(Vec::new());
    {
        let emitter = emit::emitter::from_fn(|evt| msgs.borrow_mut().push(evt.msg().to_string()));
        let rt: Rt = emit::runtime::Runtime::new().with_emitter(Box::new(emitter) as Box<dyn emit::emitter::ErasedEmitter + '_>);
        call(&rt);
    }
    msgs.into_inner()
}

// `$spec` is what the call site passes to `#[emit::fmt(..)]`, `$want` the std format spec the ORIGINAL is
// formatted with for comparison.
macro_rules! hole {
    ($class:expr, $x:expr, [$($attr:tt)*], $spec:literal, $want:literal) => {{
        let want = format!(concat!("c19 {:", $want, "} end"), $x);
        let via_format = emit::format!("c19 {v} end", $($attr)* #[emit::fmt($spec)] v: $x);
        let via_event = event_msgs(|rt| emit::emit!(rt: rt, "c19 {v} end", $($attr)* #[emit::fmt($spec)] v: $x));
        ($class, $spec, want, via_format, via_event)
    }};
}

macro_rules! debug_holes {
    ($i:expr, $x:expr) => {
        match $i {
            0 => hole!(HOLE_DEBUG, $x, [#[emit::as_debug]], "#?", "#?"),
            1 => hole!(HOLE_DEBUG, $x, [#[emit::as_debug]], ">12?", ">12?"),
            2 => hole!(HOLE_DEBUG, $x, [#[emit::as_debug]], "08?", "08?"),
            // the Display impl of a debug-captured value IS the original's Debug
            3 => hole!(HOLE_DEBUG, $x, [#[emit::as_debug]], "<8", "<8?"),
            _ => hole!(HOLE_DEBUG, $x, [#[emit::as_debug]], "#", "#?"),
        }
    };
}

macro_rules! prim_holes {
    ($i:expr, $x:expr) => {
        match $i {
            0..=4 => debug_holes!($i, $x),
            5 => hole!(HOLE_DISPLAY, $x, [#[emit::as_display]], ">12", ">12"),
            6 => hole!(HOLE_DISPLAY, $x, [#[emit::as_display]], ".3", ".3"),
            7 => hole!(HOLE_DISPLAY, $x, [#[emit::as_display]], "+", "+"),
            8 => hole!(HOLE_DISPLAY, $x, [#[emit::as_display]], "08", "08"),
            9 => hole!(HOLE_TYPED, $x, [], ">8", ">8"),
            10 => hole!(HOLE_TYPED, $x, [], ".2", ".2"),
            11 => hole!(HOLE_TYPED, $x, [], ">12?", ">12?"),
            _ => hole!(HOLE_TYPED, $x, [], "+", "+"),
        }
    };
}

pub fn check(case: &HCase, cx: &mut Cx) -> Res {
    cx.class("site:fmt-hole");
    let (class, spec, want, via_format, via_event): Out = match &case.subj {
        HSubj::I64(v) => {
            let x: i64 = *v;
            prim_holes!(pick(case.site, 13), x)
        }
        HSubj::F64(b) => {
            let x: f64 = f64::from_bits(*b);
            prim_holes!(pick(case.site, 13), x)
        }
        HSubj::String(s) => {
            let x: String = s.clone();
            prim_holes!(pick(case.site, 13), x)
        }
        HSubj::Node(spec) => {
            let x = spec.build();
            let i = pick(case.site, 5);
            let pretty = matches!(i, 0 | 4) && format!("{x:#?}") != format!("{x:?}");
            cx.class_if(pretty, HOLE_DEBUG_PRETTY);
            cx.nontrivial(x.shape().depth >= 2);
            debug_holes!(i, x)
        }
    };
    cx.class(class);
    vcore::vassert!(
        cx,
        via_format == want,
        "template-hole/fmt-flags/format-macro-differs",
        "emit::format! with #[emit::fmt({:?})] rendered {:?}, the original formats as {:?}",
        spec,
        via_format,
        want
    );
    vcore::vassert!(cx, via_event.len() == 1, "template-hole/event-count", "the call site produced {} events", via_event.len());
    vcore::vassert!(
        cx,
        via_event[0] == want,
        "template-hole/fmt-flags/event-msg-differs",
        "evt.msg() of a hole with #[emit::fmt({:?})] rendered {:?}, the original formats as {:?}",
        spec,
        via_event[0],
        want
    );
    Ok(())
}
