//! The structured-value grammar.
//!
//! `Spec` is the *case* encoding (derive-serialisable, shrinkable, floats as bit patterns so every
//! value survives the JSON replay file). `Node` is the *data* type built from a `Spec`; it has
//! HAND-WRITTEN `serde::Serialize` and `sval::Value` implementations that describe the same data
//! in both frameworks, following the correspondence the two frameworks' own derive macros use
//! (struct = named record, enum variants unit/newtype/tuple/struct, Option, unit, tuples, maps).

use serde::ser::{SerializeMap, SerializeSeq, SerializeStruct, SerializeStructVariant, SerializeTuple, SerializeTupleStruct, SerializeTupleVariant};
use serde::{Deserialize, Serialize};
use vcore::proptest::prelude::*;

pub const STRUCT_NAMES: [&str; 4] = ["Point", "Rec", "S\u{e9}", "T y"];
pub const FIELD_NAMES: [&str; 8] = ["a", "b", "type", "with space", "\u{e9}\u{20ac}", "q\"uote", "n\\l", "z9"];
pub const ENUM_NAMES: [&str; 3] = ["Shape", "E", "Kind"];
pub const VARIANT_NAMES: [&str; 6] = ["A", "Bee", "Circle", "v\u{e4}r", "With Space", "Z"];

/// 128-bit integers are written as decimal strings in case files (serde_json's `Value` cannot hold them).
pub mod dec {
    use serde::{Deserialize, Deserializer, Serializer};
    use std::fmt::Display;
    use std::str::FromStr;

    pub fn serialize<T: Display, S: Serializer>(v: &T, s: S) -> Result<S::Ok, S::Error> {
        s.collect_str(v)
    }

    pub fn deserialize<'de, T: FromStr, D: Deserializer<'de>>(d: D) -> Result<T, D::Error>
    where
        T::Err: Display,
    {
        let s = String::deserialize(d)?;
        s.parse().map_err(serde::de::Error::custom)
    }
}

/// Case encoding of a structured value.
#[derive(Serialize, Deserialize, Debug, Clone, PartialEq)]
pub enum Spec {
    Null,
    Unit,
    Bool(bool),
    I8(i8),
    I16(i16),
    I32(i32),
    I64(i64),
    I128(#[serde(with = "dec")] i128),
    U8(u8),
    U16(u16),
    U32(u32),
    U64(u64),
    U128(#[serde(with = "dec")] u128),
    /// bit pattern
    F32(u32),
    /// bit pattern
    F64(u64),
    Char(char),
    Str(String),
    Bytes(Vec<u8>),
    NoneV,
    SomeV(Box<Spec>),
    Seq(Vec<Spec>),
    Tuple(Vec<Spec>),
    /// map with string keys (duplicates allowed: a map is a stream of entries in both frameworks)
    Map(Vec<(String, Spec)>),
    /// map with non-string scalar keys
    MapK(Vec<(Spec, Spec)>),
    /// struct name index, first field name index, field values (names are distinct by construction)
    Struct(u8, u8, Vec<Spec>),
    UnitStruct(u8),
    NewtypeStruct(u8, Box<Spec>),
    TupleStruct(u8, Vec<Spec>),
    /// enum name index, variant index
    UnitVariant(u8, u8),
    NewtypeVariant(u8, u8, Box<Spec>),
    TupleVariant(u8, u8, Vec<Spec>),
    /// enum, variant, first field name index, fields
    StructVariant(u8, u8, u8, Vec<Spec>),
}

/// The data type handed to emit.
#[derive(Debug, Clone, PartialEq)]
pub enum Node {
    Null,
    Unit,
    Bool(bool),
    I8(i8),
    I16(i16),
    I32(i32),
    I64(i64),
    I128(i128),
    U8(u8),
    U16(u16),
    U32(u32),
    U64(u64),
    U128(u128),
    F32(f32),
    F64(f64),
    Char(char),
    Str(String),
    Bytes(Vec<u8>),
    NoneV,
    SomeV(Box<Node>),
    Seq(Vec<Node>),
    Tuple(Vec<Node>),
    Map(Vec<(String, Node)>),
    MapK(Vec<(Node, Node)>),
    Struct(&'static str, Vec<(&'static str, Node)>),
    UnitStruct(&'static str),
    NewtypeStruct(&'static str, Box<Node>),
    TupleStruct(&'static str, Vec<Node>),
    UnitVariant(&'static str, u32, &'static str),
    NewtypeVariant(&'static str, u32, &'static str, Box<Node>),
    TupleVariant(&'static str, u32, &'static str, Vec<Node>),
    StructVariant(&'static str, u32, &'static str, Vec<(&'static str, Node)>),
}

fn sname(i: u8) -> &'static str {
    STRUCT_NAMES[i as usize % STRUCT_NAMES.len()]
}
fn ename(i: u8) -> &'static str {
    ENUM_NAMES[i as usize % ENUM_NAMES.len()]
}
fn vname(i: u8) -> (u32, &'static str) {
    let i = i as usize % VARIANT_NAMES.len();
    (i as u32, VARIANT_NAMES[i])
}
fn fields(first: u8, vals: &[Spec]) -> Vec<(&'static str, Node)> {
    vals.iter()
        .take(FIELD_NAMES.len())
        .enumerate()
        .map(|(i, v)| (FIELD_NAMES[(first as usize + i) % FIELD_NAMES.len()], v.build()))
        .collect()
}

impl Spec {
    pub fn build(&self) -> Node {
        match self {
            Spec::Null => Node::Null,
            Spec::Unit => Node::Unit,
            Spec::Bool(v) => Node::Bool(*v),
            Spec::I8(v) => Node::I8(*v),
            Spec::I16(v) => Node::I16(*v),
            Spec::I32(v) => Node::I32(*v),
            Spec::I64(v) => Node::I64(*v),
            Spec::I128(v) => Node::I128(*v),
            Spec::U8(v) => Node::U8(*v),
            Spec::U16(v) => Node::U16(*v),
            Spec::U32(v) => Node::U32(*v),
            Spec::U64(v) => Node::U64(*v),
            Spec::U128(v) => Node::U128(*v),
            Spec::F32(b) => Node::F32(f32::from_bits(*b)),
            Spec::F64(b) => Node::F64(f64::from_bits(*b)),
            Spec::Char(c) => Node::Char(*c),
            Spec::Str(s) => Node::Str(s.clone()),
            Spec::Bytes(b) => Node::Bytes(b.clone()),
            Spec::NoneV => Node::NoneV,
            Spec::SomeV(v) => Node::SomeV(Box::new(v.build())),
            Spec::Seq(v) => Node::Seq(v.iter().map(Spec::build).collect()),
            // a tuple has at least one element
            Spec::Tuple(v) if v.is_empty() => Node::Unit,
            Spec::Tuple(v) => Node::Tuple(v.iter().map(Spec::build).collect()),
            Spec::Map(v) => Node::Map(v.iter().map(|(k, v)| (k.clone(), v.build())).collect()),
            Spec::MapK(v) => Node::MapK(v.iter().map(|(k, v)| (k.build(), v.build())).collect()),
            Spec::Struct(n, f, v) => Node::Struct(sname(*n), fields(*f, v)),
            Spec::UnitStruct(n) => Node::UnitStruct(sname(*n)),
            Spec::NewtypeStruct(n, v) => Node::NewtypeStruct(sname(*n), Box::new(v.build())),
            Spec::TupleStruct(n, v) if v.is_empty() => Node::UnitStruct(sname(*n)),
            Spec::TupleStruct(n, v) => Node::TupleStruct(sname(*n), v.iter().map(Spec::build).collect()),
            Spec::UnitVariant(e, v) => {
                let (i, l) = vname(*v);
                Node::UnitVariant(ename(*e), i, l)
            }
            Spec::NewtypeVariant(e, v, x) => {
                let (i, l) = vname(*v);
                Node::NewtypeVariant(ename(*e), i, l, Box::new(x.build()))
            }
            Spec::TupleVariant(e, v, xs) if xs.is_empty() => {
                let (i, l) = vname(*v);
                Node::UnitVariant(ename(*e), i, l)
            }
            Spec::TupleVariant(e, v, xs) => {
                let (i, l) = vname(*v);
                Node::TupleVariant(ename(*e), i, l, xs.iter().map(Spec::build).collect())
            }
            Spec::StructVariant(e, v, f, xs) => {
                let (i, l) = vname(*v);
                Node::StructVariant(ename(*e), i, l, fields(*f, xs))
            }
        }
    }
}

// ---------------------------------------------------------------------------------------------
// shape predicates (over the built data)

#[derive(Default, Debug, Clone)]
pub struct Shape {
    pub depth: usize,
    /// a NON-EMPTY sequence (Node::Seq) that sits inside any other container (the D17 shape)
    pub nested_seq: bool,
    pub any_seq: bool,
    pub nonfinite: bool,
    pub neg_zero: bool,
    pub big128: bool,
    pub bytes: bool,
    pub nonstring_keys: bool,
    pub dup_keys: bool,
    pub enums: bool,
    pub f32s: bool,
    pub chars: bool,
    pub extreme_num: bool,
    pub nodes: usize,
}

impl Node {
    pub fn children(&self) -> Vec<&Node> {
        match self {
            Node::SomeV(v) | Node::NewtypeStruct(_, v) | Node::NewtypeVariant(_, _, _, v) => vec![&**v],
            Node::Seq(v) | Node::Tuple(v) | Node::TupleStruct(_, v) | Node::TupleVariant(_, _, _, v) => v.iter().collect(),
            Node::Map(v) => v.iter().map(|(_, v)| v).collect(),
            Node::MapK(v) => v.iter().flat_map(|(k, v)| [k, v]).collect(),
            Node::Struct(_, v) | Node::StructVariant(_, _, _, v) => v.iter().map(|(_, v)| v).collect(),
            _ => Vec::new(),
        }
    }

    pub fn is_container(&self) -> bool {
        matches!(
            self,
            Node::SomeV(_)
                | Node::NewtypeStruct(..)
                | Node::NewtypeVariant(..)
                | Node::Seq(_)
                | Node::Tuple(_)
                | Node::TupleStruct(..)
                | Node::TupleVariant(..)
                | Node::Map(_)
                | Node::MapK(_)
                | Node::Struct(..)
                | Node::StructVariant(..)
        )
    }

    pub fn shape(&self) -> Shape {
        let mut s = Shape::default();
        self.shape_into(&mut s, 0, false);
        s
    }

    fn shape_into(&self, s: &mut Shape, depth: usize, inside: bool) {
        s.nodes += 1;
        let depth = depth + self.is_container() as usize;
        s.depth = s.depth.max(depth);
        match self {
            Node::Seq(v) => {
                s.any_seq = true;
                if inside && !v.is_empty() {
                    s.nested_seq = true;
                }
            }
            Node::F32(v) => {
                s.f32s = true;
                s.nonfinite |= !v.is_finite();
                s.neg_zero |= *v == 0.0 && v.is_sign_negative();
                s.extreme_num |= !v.is_finite() || *v == f32::MAX || *v == f32::MIN || *v == f32::MIN_POSITIVE;
            }
            Node::F64(v) => {
                s.nonfinite |= !v.is_finite();
                s.neg_zero |= *v == 0.0 && v.is_sign_negative();
                s.extreme_num |= !v.is_finite() || *v == f64::MAX || *v == f64::MIN || *v == f64::MIN_POSITIVE;
            }
            Node::I128(v) => {
                s.big128 |= *v > u64::MAX as i128 || *v < i64::MIN as i128;
                s.extreme_num |= *v == i128::MAX || *v == i128::MIN;
            }
            Node::U128(v) => {
                s.big128 |= *v > u64::MAX as u128;
                s.extreme_num |= *v == u128::MAX;
            }
            Node::I8(v) => s.extreme_num |= *v == i8::MAX || *v == i8::MIN,
            Node::I16(v) => s.extreme_num |= *v == i16::MAX || *v == i16::MIN,
            Node::I32(v) => s.extreme_num |= *v == i32::MAX || *v == i32::MIN,
            Node::I64(v) => s.extreme_num |= *v == i64::MAX || *v == i64::MIN,
            Node::U8(v) => s.extreme_num |= *v == u8::MAX,
            Node::U16(v) => s.extreme_num |= *v == u16::MAX,
            Node::U32(v) => s.extreme_num |= *v == u32::MAX,
            Node::U64(v) => s.extreme_num |= *v == u64::MAX,
            Node::Bytes(_) => s.bytes = true,
            Node::Char(_) => s.chars = true,
            Node::MapK(_) => s.nonstring_keys = true,
            Node::Map(v) => {
                for (i, (k, _)) in v.iter().enumerate() {
                    if v[..i].iter().any(|(k2, _)| k2 == k) {
                        s.dup_keys = true;
                    }
                }
            }
            Node::UnitVariant(..) | Node::NewtypeVariant(..) | Node::TupleVariant(..) | Node::StructVariant(..) => s.enums = true,
            _ => {}
        }
        let inside = inside || self.is_container();
        for c in self.children() {
            c.shape_into(s, depth, inside);
        }
    }
}

// ---------------------------------------------------------------------------------------------
// serde

impl Serialize for Node {
    fn serialize<S: serde::Serializer>(&self, s: S) -> Result<S::Ok, S::Error> {
        match self {
            Node::Null => s.serialize_none(),
            Node::Unit => s.serialize_unit(),
            Node::Bool(v) => s.serialize_bool(*v),
            Node::I8(v) => s.serialize_i8(*v),
            Node::I16(v) => s.serialize_i16(*v),
            Node::I32(v) => s.serialize_i32(*v),
            Node::I64(v) => s.serialize_i64(*v),
            Node::I128(v) => s.serialize_i128(*v),
            Node::U8(v) => s.serialize_u8(*v),
            Node::U16(v) => s.serialize_u16(*v),
            Node::U32(v) => s.serialize_u32(*v),
            Node::U64(v) => s.serialize_u64(*v),
            Node::U128(v) => s.serialize_u128(*v),
            Node::F32(v) => s.serialize_f32(*v),
            Node::F64(v) => s.serialize_f64(*v),
            Node::Char(v) => s.serialize_char(*v),
            Node::Str(v) => s.serialize_str(v),
            Node::Bytes(v) => s.serialize_bytes(v),
            Node::NoneV => s.serialize_none(),
            Node::SomeV(v) => s.serialize_some(&**v),
            Node::Seq(v) => {
                let mut q = s.serialize_seq(Some(v.len()))?;
                for e in v {
                    q.serialize_element(e)?;
                }
                q.end()
            }
            Node::Tuple(v) => {
                let mut q = s.serialize_tuple(v.len())?;
                for e in v {
                    q.serialize_element(e)?;
                }
                q.end()
            }
            Node::Map(v) => {
                let mut m = s.serialize_map(Some(v.len()))?;
                for (k, e) in v {
                    m.serialize_entry(k, e)?;
                }
                m.end()
            }
            Node::MapK(v) => {
                let mut m = s.serialize_map(Some(v.len()))?;
                for (k, e) in v {
                    m.serialize_entry(k, e)?;
                }
                m.end()
            }
            Node::Struct(name, fs) => {
                let mut st = s.serialize_struct(name, fs.len())?;
                for (k, e) in fs {
                    st.serialize_field(k, e)?;
                }
                st.end()
            }
            Node::UnitStruct(name) => s.serialize_unit_struct(name),
            Node::NewtypeStruct(name, v) => s.serialize_newtype_struct(name, &**v),
            Node::TupleStruct(name, v) => {
                let mut t = s.serialize_tuple_struct(name, v.len())?;
                for e in v {
                    t.serialize_field(e)?;
                }
                t.end()
            }
            Node::UnitVariant(en, i, vn) => s.serialize_unit_variant(en, *i, vn),
            Node::NewtypeVariant(en, i, vn, v) => s.serialize_newtype_variant(en, *i, vn, &**v),
            Node::TupleVariant(en, i, vn, v) => {
                let mut t = s.serialize_tuple_variant(en, *i, vn, v.len())?;
                for e in v {
                    t.serialize_field(e)?;
                }
                t.end()
            }
            Node::StructVariant(en, i, vn, fs) => {
                let mut st = s.serialize_struct_variant(en, *i, vn, fs.len())?;
                for (k, e) in fs {
                    st.serialize_field(k, e)?;
                }
                st.end()
            }
        }
    }
}

// ---------------------------------------------------------------------------------------------
// sval

impl sval::Value for Node {
    fn stream<'sval, S: sval::Stream<'sval> + ?Sized>(&'sval self, s: &mut S) -> sval::Result {
        use sval::{tags, Index, Label};
        fn offset(i: usize) -> Index {
            Index::new(i).with_tag(&tags::VALUE_OFFSET)
        }
        fn ident(l: &'static str) -> Label<'static> {
            mk_label(l)
        }
        match self {
            Node::Null => s.null(),
            Node::Unit => s.tag(Some(&tags::RUST_UNIT), None, None),
            Node::Bool(v) => s.bool(*v),
            Node::I8(v) => s.i8(*v),
            Node::I16(v) => s.i16(*v),
            Node::I32(v) => s.i32(*v),
            Node::I64(v) => s.i64(*v),
            Node::I128(v) => s.i128(*v),
            Node::U8(v) => s.u8(*v),
            Node::U16(v) => s.u16(*v),
            Node::U32(v) => s.u32(*v),
            Node::U64(v) => s.u64(*v),
            Node::U128(v) => s.u128(*v),
            Node::F32(v) => s.f32(*v),
            Node::F64(v) => s.f64(*v),
            Node::Char(v) => s.value(v),
            Node::Str(v) => s.value(v.as_str()),
            Node::Bytes(v) => s.value(sval::BinarySlice::new(v.as_slice())),
            Node::NoneV => s.tag(Some(&tags::RUST_OPTION_NONE), Some(&ident("None")), Some(&offset(0))),
            Node::SomeV(v) => {
                s.tagged_begin(Some(&tags::RUST_OPTION_SOME), Some(&ident("Some")), Some(&offset(1)))?;
                s.value(&**v)?;
                s.tagged_end(Some(&tags::RUST_OPTION_SOME), Some(&ident("Some")), Some(&offset(1)))
            }
            Node::Seq(v) => {
                s.seq_begin(Some(v.len()))?;
                for e in v {
                    s.seq_value_begin()?;
                    s.value(e)?;
                    s.seq_value_end()?;
                }
                s.seq_end()
            }
            Node::Tuple(v) => stream_tuple(s, None, None, v),
            Node::Map(v) => {
                s.map_begin(Some(v.len()))?;
                for (k, e) in v {
                    s.map_key_begin()?;
                    s.value(k.as_str())?;
                    s.map_key_end()?;
                    s.map_value_begin()?;
                    s.value(e)?;
                    s.map_value_end()?;
                }
                s.map_end()
            }
            Node::MapK(v) => {
                s.map_begin(Some(v.len()))?;
                for (k, e) in v {
                    s.map_key_begin()?;
                    s.value(k)?;
                    s.map_key_end()?;
                    s.map_value_begin()?;
                    s.value(e)?;
                    s.map_value_end()?;
                }
                s.map_end()
            }
            Node::Struct(name, fs) => stream_record(s, Some(&ident(name)), None, fs),
            Node::UnitStruct(name) => s.tag(None, Some(&ident(name)), None),
            Node::NewtypeStruct(name, v) => {
                s.tagged_begin(None, Some(&ident(name)), None)?;
                s.value(&**v)?;
                s.tagged_end(None, Some(&ident(name)), None)
            }
            Node::TupleStruct(name, v) => stream_tuple(s, Some(&ident(name)), None, v),
            Node::UnitVariant(en, i, vn) => {
                s.enum_begin(None, Some(&ident(en)), None)?;
                s.tag(None, Some(&ident(vn)), Some(&offset(*i as usize)))?;
                s.enum_end(None, Some(&ident(en)), None)
            }
            Node::NewtypeVariant(en, i, vn, v) => {
                s.enum_begin(None, Some(&ident(en)), None)?;
                s.tagged_begin(None, Some(&ident(vn)), Some(&offset(*i as usize)))?;
                s.value(&**v)?;
                s.tagged_end(None, Some(&ident(vn)), Some(&offset(*i as usize)))?;
                s.enum_end(None, Some(&ident(en)), None)
            }
            Node::TupleVariant(en, i, vn, v) => {
                s.enum_begin(None, Some(&ident(en)), None)?;
                stream_tuple(s, Some(&ident(vn)), Some(&offset(*i as usize)), v)?;
                s.enum_end(None, Some(&ident(en)), None)
            }
            Node::StructVariant(en, i, vn, fs) => {
                s.enum_begin(None, Some(&ident(en)), None)?;
                stream_record(s, Some(&ident(vn)), Some(&offset(*i as usize)), fs)?;
                s.enum_end(None, Some(&ident(en)), None)
            }
        }
    }
}

/// Like the derive macro, labels that are Rust identifiers carry the `VALUE_IDENT` tag (a promise
/// that they need no escaping); any other label is left untagged.
fn mk_label(l: &'static str) -> sval::Label<'static> {
    let is_ident = !l.is_empty() && l.chars().all(|c| c.is_ascii_alphanumeric() || c == '_') && !l.starts_with(|c: char| c.is_ascii_digit());
    if is_ident {
        sval::Label::new(l).with_tag(&sval::tags::VALUE_IDENT)
    } else {
        sval::Label::new(l)
    }
}

fn stream_tuple<'sval, S: sval::Stream<'sval> + ?Sized>(
    s: &mut S,
    label: Option<&sval::Label>,
    index: Option<&sval::Index>,
    v: &'sval [Node],
) -> sval::Result {
    s.tuple_begin(None, label, index, Some(v.len()))?;
    for (i, e) in v.iter().enumerate() {
        let ix = sval::Index::new(i).with_tag(&sval::tags::VALUE_OFFSET);
        s.tuple_value_begin(None, &ix)?;
        s.value(e)?;
        s.tuple_value_end(None, &ix)?;
    }
    s.tuple_end(None, label, index)
}

fn stream_record<'sval, S: sval::Stream<'sval> + ?Sized>(
    s: &mut S,
    label: Option<&sval::Label>,
    index: Option<&sval::Index>,
    fs: &'sval [(&'static str, Node)],
) -> sval::Result {
    // what `#[derive(sval::Value)]` produces for a struct with named fields
    s.record_tuple_begin(None, label, index, Some(fs.len()))?;
    for (i, (k, e)) in fs.iter().enumerate() {
        let ix = sval::Index::new(i).with_tag(&sval::tags::VALUE_OFFSET);
        let l = mk_label(k);
        s.record_tuple_value_begin(None, &l, &ix)?;
        s.value(e)?;
        s.record_tuple_value_end(None, &l, &ix)?;
    }
    s.record_tuple_end(None, label, index)
}

// ---------------------------------------------------------------------------------------------
// strategies

pub fn f64_bits() -> impl Strategy<Value = u64> {
    prop_oneof![
        3 => any::<f64>().prop_map(f64::to_bits),
        2 => prop::sample::select(vec![
            0.0f64, -0.0, 1.0, -1.0, 0.1, 1.5, 1e21, 1e-7, 123456789.125, f64::MAX, f64::MIN, f64::MIN_POSITIVE, f64::EPSILON,
            f64::NAN, f64::INFINITY, f64::NEG_INFINITY, 9007199254740993.0, 4294967296.0, 5e-324, (1u64 << 63) as f64, 1.7976931348623157e308,
        ]).prop_map(f64::to_bits),
        1 => any::<u64>(),
        1 => any::<i32>().prop_map(|v| (v as f64).to_bits()),
    ]
}

pub fn f32_bits() -> impl Strategy<Value = u32> {
    prop_oneof![
        3 => any::<f32>().prop_map(f32::to_bits),
        2 => prop::sample::select(vec![
            0.0f32, -0.0, 1.0, -1.0, 0.1, 0.3, 1.5, 16777217.0, 1e10, 1e-10, f32::MAX, f32::MIN, f32::MIN_POSITIVE, f32::EPSILON, f32::NAN,
            f32::INFINITY, f32::NEG_INFINITY, 1e-45,
        ]).prop_map(f32::to_bits),
        1 => any::<u32>(),
    ]
}

macro_rules! int_strategy {
    ($name:ident, $t:ty) => {
        pub fn $name() -> impl Strategy<Value = $t> {
            prop_oneof![
                3 => any::<$t>(),
                2 => prop::sample::select(vec![<$t>::MIN, <$t>::MAX]),
                2 => prop::sample::select(vec![0 as $t, 1 as $t, <$t>::MAX - 1, <$t>::MIN + 1, (<$t>::MAX / 2) as $t, 10 as $t, 100 as $t]),
                1 => (0u32..<$t>::BITS).prop_map(|b| (1 as $t).wrapping_shl(b)),
                1 => (0u32..<$t>::BITS).prop_map(|b| (1 as $t).wrapping_shl(b).wrapping_sub(1)),
                1 => (-3i8..=3).prop_map(|d| (d as i128) as $t),
            ]
        }
    };
}
int_strategy!(any_i8, i8);
int_strategy!(any_i16, i16);
int_strategy!(any_i32, i32);
int_strategy!(any_i64, i64);
int_strategy!(any_i128, i128);
int_strategy!(any_isize, isize);
int_strategy!(any_u8, u8);
int_strategy!(any_u16, u16);
int_strategy!(any_u32, u32);
int_strategy!(any_u64, u64);
int_strategy!(any_u128, u128);
int_strategy!(any_usize, usize);

pub fn i128_wide() -> impl Strategy<Value = i128> {
    prop_oneof![
        3 => any_i128(),
        1 => any::<i64>().prop_map(|v| v as i128),
        1 => prop::sample::select(vec![u64::MAX as i128, u64::MAX as i128 + 1, i64::MIN as i128 - 1, i64::MAX as i128 + 1, -(1i128 << 53) - 1, (1i128 << 53) + 1]),
    ]
}

pub fn u128_wide() -> impl Strategy<Value = u128> {
    prop_oneof![
        3 => any_u128(),
        1 => any::<u64>().prop_map(|v| v as u128),
        1 => prop::sample::select(vec![u64::MAX as u128, u64::MAX as u128 + 1, i64::MAX as u128 + 1, (1u128 << 53) + 1, i128::MAX as u128, i128::MAX as u128 + 1]),
    ]
}

const CHARS: [char; 24] = [
    'a', 'Z', '0', ' ', '"', '\\', '/', '\n', '\r', '\t', '\0', '\u{1}', '\u{1f}', '\u{7f}', '\u{e9}', '\u{20ac}', '\u{1F600}', '\u{2028}', '\u{feff}',
    '\u{fffd}', '{', '}', ':', '\'',
];

pub fn any_char() -> impl Strategy<Value = char> {
    prop_oneof![3 => prop::sample::select(CHARS.to_vec()), 1 => any::<char>()]
}

/// Strings with control and non-ASCII characters, plus texts that look like other things.
pub fn any_text() -> impl Strategy<Value = String> {
    prop_oneof![
        4 => prop::collection::vec(any_char(), 0..12).prop_map(|v| v.into_iter().collect::<String>()),
        1 => prop::sample::select(vec!["", "null", "true", "1", "-0", "1e5", "NaN", "inf", "[]", "{}", "\"", "a b", "info", "0000000000000001", "x\u{0}y"]).prop_map(str::to_string),
        1 => prop::collection::vec(any_char(), 12..60).prop_map(|v| v.into_iter().collect::<String>()),
        1 => "[a-z]{1,8}",
    ]
}

pub fn leaf() -> impl Strategy<Value = Spec> {
    prop_oneof![
        1 => Just(Spec::Null),
        1 => Just(Spec::Unit),
        1 => Just(Spec::NoneV),
        2 => any::<bool>().prop_map(Spec::Bool),
        1 => any_i8().prop_map(Spec::I8),
        1 => any_i16().prop_map(Spec::I16),
        2 => any_i32().prop_map(Spec::I32),
        2 => any_i64().prop_map(Spec::I64),
        1 => i128_wide().prop_map(Spec::I128),
        1 => any_u8().prop_map(Spec::U8),
        1 => any_u16().prop_map(Spec::U16),
        1 => any_u32().prop_map(Spec::U32),
        2 => any_u64().prop_map(Spec::U64),
        1 => u128_wide().prop_map(Spec::U128),
        1 => f32_bits().prop_map(Spec::F32),
        3 => f64_bits().prop_map(Spec::F64),
        1 => any_char().prop_map(Spec::Char),
        4 => any_text().prop_map(Spec::Str),
        1 => prop::collection::vec(any::<u8>(), 0..6).prop_map(Spec::Bytes),
        1 => (0u8..4).prop_map(Spec::UnitStruct),
        2 => (0u8..3, 0u8..6).prop_map(|(e, v)| Spec::UnitVariant(e, v)),
    ]
}

/// Scalar keys for `MapK`.
pub fn key_leaf() -> impl Strategy<Value = Spec> {
    prop_oneof![
        2 => any_i32().prop_map(Spec::I32),
        2 => any_u64().prop_map(Spec::U64),
        1 => any_i8().prop_map(Spec::I8),
        1 => any::<bool>().prop_map(Spec::Bool),
        1 => any_char().prop_map(Spec::Char),
        1 => f64_bits().prop_map(Spec::F64),
        1 => Just(Spec::Unit),
        1 => Just(Spec::NoneV),
        1 => (0u8..3, 0u8..6).prop_map(|(e, v)| Spec::UnitVariant(e, v)),
        1 => any_i32().prop_map(|v| Spec::SomeV(Box::new(Spec::I32(v)))),
        1 => any_i32().prop_map(|v| Spec::NewtypeStruct(1, Box::new(Spec::I32(v)))),
    ]
}

fn containers(inner: BoxedStrategy<Spec>, seq_weight: u32) -> prop::strategy::Union<BoxedStrategy<Spec>> {
    let kids = |max: usize| prop::collection::vec(inner.clone(), 0..=max);
    let mut options: Vec<(u32, BoxedStrategy<Spec>)> = vec![
        (2, inner.clone().prop_map(|v| Spec::SomeV(Box::new(v))).boxed()),
        (2, prop::collection::vec(inner.clone(), 1..=4).prop_map(Spec::Tuple).boxed()),
        (3, prop::collection::vec((prop_oneof![3 => any_text(), 2 => "[a-c]"], inner.clone()), 0..=4).prop_map(Spec::Map).boxed()),
        (1, prop::collection::vec((key_leaf(), inner.clone()), 0..=3).prop_map(Spec::MapK).boxed()),
        (4, (0u8..4, 0u8..8, kids(4)).prop_map(|(n, f, v)| Spec::Struct(n, f, v)).boxed()),
        (1, (0u8..4, inner.clone()).prop_map(|(n, v)| Spec::NewtypeStruct(n, Box::new(v))).boxed()),
        (1, (0u8..4, prop::collection::vec(inner.clone(), 1..=3)).prop_map(|(n, v)| Spec::TupleStruct(n, v)).boxed()),
        (2, (0u8..3, 0u8..6, inner.clone()).prop_map(|(e, v, x)| Spec::NewtypeVariant(e, v, Box::new(x))).boxed()),
        (2, (0u8..3, 0u8..6, prop::collection::vec(inner.clone(), 1..=3)).prop_map(|(e, v, x)| Spec::TupleVariant(e, v, x)).boxed()),
        (2, (0u8..3, 0u8..6, 0u8..8, kids(3)).prop_map(|(e, v, f, x)| Spec::StructVariant(e, v, f, x)).boxed()),
    ];
    if seq_weight > 0 {
        options.push((seq_weight, kids(4).prop_map(Spec::Seq).boxed()));
    }
    prop::strategy::Union::new_weighted(options)
}

/// Recursive structured values. `seq_weight` tunes how often `Seq` is produced (0 = never).
/// Three out of four roots are forced to be a container (proptest's recursion alone is leaf-heavy).
pub fn tree(seq_weight: u32) -> impl Strategy<Value = Spec> {
    let rec = move || leaf().prop_recursive(4, 32, 4, move |inner| containers(inner, seq_weight)).boxed();
    prop_oneof![
        1 => rec(),
        2 => containers(rec(), seq_weight),
        1 => containers(containers(rec(), seq_weight).boxed(), seq_weight),
    ]
}

/// Trees whose only sequence (if any) is the root: clear of the nested-sequence shape.
pub fn tree_no_nested_seq() -> impl Strategy<Value = Spec> {
    prop_oneof![
        4 => tree(0),
        1 => prop::collection::vec(tree(0), 0..=4).prop_map(Spec::Seq),
    ]
}
