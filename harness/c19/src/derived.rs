//! Derive-based structured types: `serde::Serialize` derive + `sval_derive::Value` on the same
//! definition, covering struct / enum / option / seq / map / tuple shapes.

use std::collections::BTreeMap;

use serde::{Deserialize, Serialize};
use sval_derive::Value;
use vcore::proptest::prelude::*;

use crate::node::{any_char, any_i32, any_i64, any_i8, any_text, any_u64, u128_wide};

#[derive(Serialize, Value, Debug, Clone, PartialEq)]
pub struct DPoint {
    pub x: i32,
    pub y: f64,
    pub label: String,
}

#[derive(Serialize, Value, Debug, Clone, PartialEq)]
pub struct DWrap(pub u64);

#[derive(Serialize, Value, Debug, Clone, PartialEq)]
pub struct DPair(pub i8, pub String);

#[derive(Serialize, Value, Debug, Clone, PartialEq)]
pub enum DShape {
    Unit,
    Circle(f64),
    Rect(i32, i32),
    Named { name: String, tags: Vec<String> },
    Boxed(Box<DPoint>),
}

#[derive(Serialize, Value, Debug, Clone, PartialEq)]
pub struct DNested {
    pub id: u128,
    pub opt: Option<DPoint>,
    pub items: Vec<DShape>,
    pub map: BTreeMap<String, i64>,
    pub tuple: (bool, char),
    pub wrap: DWrap,
    pub pair: DPair,
    pub unit: (),
    pub more: Option<Vec<i64>>,
}

/// Case encoding for the derive-based subjects (finite floats as bit patterns, u128 split).
#[derive(Serialize, Deserialize, Debug, Clone, PartialEq)]
pub struct DSpec {
    /// which static type is captured: 0 DPoint, 1 DShape, 2 DNested, 3 Vec<DPoint>, 4 BTreeMap<String, DShape>, 5 Option<DNested>
    pub which: u8,
    pub x: i32,
    pub y_bits: u64,
    pub label: String,
    pub shape: u8,
    pub w: i32,
    pub tags: Vec<String>,
    pub id_hi: u64,
    pub id_lo: u64,
    pub opt: bool,
    pub n_items: u8,
    pub keys: Vec<(String, i64)>,
    pub flag: bool,
    pub ch: char,
    pub wrap: u64,
    pub small: i8,
    pub more: Option<Vec<i64>>,
}

impl DSpec {
    pub fn y(&self) -> f64 {
        let y = f64::from_bits(self.y_bits);
        if y.is_finite() {
            y
        } else {
            0.5
        }
    }

    pub fn point(&self) -> DPoint {
        DPoint { x: self.x, y: self.y(), label: self.label.clone() }
    }

    pub fn shape_n(&self, n: u8) -> DShape {
        match n % 5 {
            0 => DShape::Unit,
            1 => DShape::Circle(self.y()),
            2 => DShape::Rect(self.x, self.w),
            3 => DShape::Named { name: self.label.clone(), tags: self.tags.clone() },
            _ => DShape::Boxed(Box::new(self.point())),
        }
    }

    pub fn shape(&self) -> DShape {
        self.shape_n(self.shape)
    }

    pub fn nested(&self) -> DNested {
        DNested {
            id: ((self.id_hi as u128) << 64) | self.id_lo as u128,
            opt: if self.opt { Some(self.point()) } else { None },
            items: (0..self.n_items % 4).map(|i| self.shape_n(self.shape.wrapping_add(i))).collect(),
            map: self.keys.iter().cloned().collect(),
            tuple: (self.flag, self.ch),
            wrap: DWrap(self.wrap),
            pair: DPair(self.small, self.label.clone()),
            unit: (),
            more: self.more.clone(),
        }
    }

    pub fn points(&self) -> Vec<DPoint> {
        (0..self.n_items % 4)
            .map(|i| DPoint { x: self.x.wrapping_add(i as i32), y: self.y(), label: self.label.clone() })
            .collect()
    }

    pub fn shape_map(&self) -> BTreeMap<String, DShape> {
        self.keys.iter().enumerate().map(|(i, (k, _))| (k.clone(), self.shape_n(self.shape.wrapping_add(i as u8)))).collect()
    }

    pub fn opt_nested(&self) -> Option<DNested> {
        if self.opt {
            Some(self.nested())
        } else {
            None
        }
    }
}

fn shape_has_seq(s: &DShape) -> bool {
    matches!(s, DShape::Named { tags, .. } if !tags.is_empty())
}

/// Does the value contain a non-empty `Vec` below its root (the D17 shape)?
pub fn nested_seq(d: &DSpec) -> bool {
    let n = d.nested();
    let nested_has = !n.items.is_empty() || n.more.as_ref().map_or(false, |m| !m.is_empty());
    match d.which % 6 {
        0 => false,
        1 => shape_has_seq(&d.shape()),
        2 => nested_has,
        // Vec<DPoint>: the only sequence is the root
        3 => false,
        4 => d.shape_map().values().any(shape_has_seq),
        _ => d.opt && nested_has,
    }
}

pub fn dspec() -> impl Strategy<Value = DSpec> {
    (
        (0u8..6, any_i32(), crate::node::f64_bits(), any_text(), 0u8..5, any_i32()),
        (prop::collection::vec(any_text(), 0..3), u128_wide(), any::<bool>(), 0u8..4),
        (prop::collection::vec((prop_oneof![any_text(), "[a-c]"], any_i64()), 0..4), any::<bool>(), any_char(), any_u64(), any_i8()),
        prop::option::of(prop::collection::vec(any_i64(), 0..3)),
    )
        .prop_map(|((which, x, y_bits, label, shape, w), (tags, id, opt, n_items), (keys, flag, ch, wrap, small), more)| DSpec {
            which,
            x,
            y_bits,
            label,
            shape,
            w,
            tags,
            id_hi: (id >> 64) as u64,
            id_lo: id as u64,
            opt,
            n_items,
            keys,
            flag,
            ch,
            wrap,
            small,
            more,
        })
}
