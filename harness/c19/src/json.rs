//! A strict, order- and duplicate-preserving JSON reader used by the cross-framework oracle.
//! (Not serde_json: that one collapses duplicate keys and loses 128-bit integers, and the oracle
//! must not depend on the library under comparison to decide validity.)

#[derive(Debug, Clone, PartialEq)]
pub enum J {
    Null,
    Bool(bool),
    /// raw number text
    Num(String),
    Str(String),
    Arr(Vec<J>),
    Obj(Vec<(String, J)>),
}

pub fn parse(text: &str) -> Result<J, String> {
    let mut p = P { b: text.as_bytes(), i: 0, depth: 0 };
    p.ws();
    let v = p.value()?;
    p.ws();
    if p.i != p.b.len() {
        return Err(format!("trailing data at byte {}", p.i));
    }
    Ok(v)
}

struct P<'a> {
    b: &'a [u8],
    i: usize,
    depth: usize,
}

impl<'a> P<'a> {
    fn ws(&mut self) {
        while self.i < self.b.len() && matches!(self.b[self.i], b' ' | b'\t' | b'\n' | b'\r') {
            self.i += 1;
        }
    }

    fn eat(&mut self, c: u8) -> Result<(), String> {
        if self.b.get(self.i) == Some(&c) {
            self.i += 1;
            Ok(())
        } else {
            Err(format!("expected {:?} at byte {}", c as char, self.i))
        }
    }

    fn lit(&mut self, s: &str, v: J) -> Result<J, String> {
        if self.b[self.i..].starts_with(s.as_bytes()) {
            self.i += s.len();
            Ok(v)
        } else {
            Err(format!("bad literal at byte {}", self.i))
        }
    }

    fn value(&mut self) -> Result<J, String> {
        self.depth += 1;
        if self.depth > 200 {
            return Err("too deep".into());
        }
        let r = match self.b.get(self.i) {
            None => Err("unexpected end".to_string()),
            Some(b'n') => self.lit("null", J::Null),
            Some(b't') => self.lit("true", J::Bool(true)),
            Some(b'f') => self.lit("false", J::Bool(false)),
            Some(b'"') => self.string().map(J::Str),
            Some(b'[') => {
                self.i += 1;
                let mut v = Vec::new();
                self.ws();
                if self.b.get(self.i) == Some(&b']') {
                    self.i += 1;
                } else {
                    loop {
                        self.ws();
                        v.push(self.value()?);
                        self.ws();
                        match self.b.get(self.i) {
                            Some(b',') => self.i += 1,
                            Some(b']') => {
                                self.i += 1;
                                break;
                            }
                            _ => return Err(format!("expected , or ] at byte {}", self.i)),
                        }
                    }
                }
                Ok(J::Arr(v))
            }
            Some(b'{') => {
                self.i += 1;
                let mut v = Vec::new();
                self.ws();
                if self.b.get(self.i) == Some(&b'}') {
                    self.i += 1;
                } else {
                    loop {
                        self.ws();
                        let k = self.string()?;
                        self.ws();
                        self.eat(b':')?;
                        self.ws();
                        let val = self.value()?;
                        v.push((k, val));
                        self.ws();
                        match self.b.get(self.i) {
                            Some(b',') => self.i += 1,
                            Some(b'}') => {
                                self.i += 1;
                                break;
                            }
                            _ => return Err(format!("expected , or }} at byte {}", self.i)),
                        }
                    }
                }
                Ok(J::Obj(v))
            }
            Some(c) if *c == b'-' || c.is_ascii_digit() => self.number(),
            Some(c) => Err(format!("unexpected byte {:?} at {}", *c as char, self.i)),
        };
        self.depth -= 1;
        r
    }

    fn number(&mut self) -> Result<J, String> {
        let start = self.i;
        if self.b.get(self.i) == Some(&b'-') {
            self.i += 1;
        }
        match self.b.get(self.i) {
            Some(b'0') => self.i += 1,
            Some(c) if c.is_ascii_digit() => {
                while self.b.get(self.i).map_or(false, |c| c.is_ascii_digit()) {
                    self.i += 1;
                }
            }
            _ => return Err(format!("bad number at byte {}", self.i)),
        }
        if self.b.get(self.i) == Some(&b'.') {
            self.i += 1;
            let s = self.i;
            while self.b.get(self.i).map_or(false, |c| c.is_ascii_digit()) {
                self.i += 1;
            }
            if s == self.i {
                return Err(format!("bad fraction at byte {}", self.i));
            }
        }
        if matches!(self.b.get(self.i), Some(b'e') | Some(b'E')) {
            self.i += 1;
            if matches!(self.b.get(self.i), Some(b'+') | Some(b'-')) {
                self.i += 1;
            }
            let s = self.i;
            while self.b.get(self.i).map_or(false, |c| c.is_ascii_digit()) {
                self.i += 1;
            }
            if s == self.i {
                return Err(format!("bad exponent at byte {}", self.i));
            }
        }
        Ok(J::Num(String::from_utf8_lossy(&self.b[start..self.i]).into_owned()))
    }

    fn hex4(&mut self) -> Result<u32, String> {
        let s = self.b.get(self.i..self.i + 4).ok_or("short \\u escape")?;
        let s = std::str::from_utf8(s).map_err(|_| "bad \\u escape")?;
        let v = u32::from_str_radix(s, 16).map_err(|_| format!("bad \\u escape at byte {}", self.i))?;
        self.i += 4;
        Ok(v)
    }

    fn string(&mut self) -> Result<String, String> {
        self.eat(b'"')?;
        let mut out = String::new();
        loop {
            let start = self.i;
            while self.i < self.b.len() && self.b[self.i] != b'"' && self.b[self.i] != b'\\' && self.b[self.i] >= 0x20 {
                self.i += 1;
            }
            out.push_str(std::str::from_utf8(&self.b[start..self.i]).map_err(|_| "invalid utf8 in string")?);
            match self.b.get(self.i) {
                None => return Err("unterminated string".into()),
                Some(b'"') => {
                    self.i += 1;
                    return Ok(out);
                }
                Some(b'\\') => {
                    self.i += 1;
                    let c = *self.b.get(self.i).ok_or("unterminated escape")?;
                    self.i += 1;
                    match c {
                        b'"' => out.push('"'),
                        b'\\' => out.push('\\'),
                        b'/' => out.push('/'),
                        b'b' => out.push('\u{8}'),
                        b'f' => out.push('\u{c}'),
                        b'n' => out.push('\n'),
                        b'r' => out.push('\r'),
                        b't' => out.push('\t'),
                        b'u' => {
                            let hi = self.hex4()?;
                            let cp = if (0xD800..0xDC00).contains(&hi) {
                                if self.b.get(self.i) == Some(&b'\\') && self.b.get(self.i + 1) == Some(&b'u') {
                                    self.i += 2;
                                    let lo = self.hex4()?;
                                    if !(0xDC00..0xE000).contains(&lo) {
                                        return Err("bad low surrogate".into());
                                    }
                                    0x10000 + ((hi - 0xD800) << 10) + (lo - 0xDC00)
                                } else {
                                    return Err("lone surrogate".into());
                                }
                            } else {
                                hi
                            };
                            out.push(char::from_u32(cp).ok_or("bad code point")?);
                        }
                        _ => return Err(format!("bad escape at byte {}", self.i)),
                    }
                }
                Some(c) => return Err(format!("raw control byte {c:#x} in string at {}", self.i)),
            }
        }
    }
}

/// Numbers are compared by value: two integer texts by their (arbitrary size) digits, anything
/// with a fraction/exponent as the f64 both texts denote.
pub fn num_eq(a: &str, b: &str) -> bool {
    if a == b {
        return true;
    }
    let is_int = |s: &str| !s.contains(['.', 'e', 'E']);
    if is_int(a) && is_int(b) {
        let norm = |s: &str| {
            let (neg, digits) = match s.strip_prefix('-') {
                Some(d) => (true, d),
                None => (false, s),
            };
            let digits = digits.trim_start_matches('0');
            (neg && !digits.is_empty(), digits.to_string())
        };
        return norm(a) == norm(b);
    }
    match (a.parse::<f64>(), b.parse::<f64>()) {
        (Ok(x), Ok(y)) => x == y,
        _ => false,
    }
}

/// Same JSON document: same structure, same member order, duplicates kept, numbers by value.
pub fn same(a: &J, b: &J) -> bool {
    same_with(a, b, false)
}

/// `numeric_keys`: member names that are both numbers may also match by value (used only where two
/// different number formatters wrote the keys).
pub fn same_with(a: &J, b: &J, numeric_keys: bool) -> bool {
    match (a, b) {
        (J::Null, J::Null) => true,
        (J::Bool(x), J::Bool(y)) => x == y,
        (J::Num(x), J::Num(y)) => num_eq(x, y),
        (J::Str(x), J::Str(y)) => x == y,
        (J::Arr(x), J::Arr(y)) => x.len() == y.len() && x.iter().zip(y).all(|(p, q)| same_with(p, q, numeric_keys)),
        (J::Obj(x), J::Obj(y)) => {
            x.len() == y.len()
                && x.iter().zip(y).all(|((k1, p), (k2, q))| {
                    (k1 == k2 || (numeric_keys && matches!((k1.parse::<f64>(), k2.parse::<f64>()), (Ok(f), Ok(g)) if f == g))) && same_with(p, q, numeric_keys)
                })
        }
        _ => false,
    }
}

#[cfg(test)]
mod tests {
    use super::*;

    #[test]
    fn strict() {
        assert!(parse(r#"{"c":[],1,2]}"#).is_err());
        assert!(parse(r#"{"c":[1,2]}"#).is_ok());
        assert!(parse("[1,]").is_err());
        assert!(parse("01").is_err());
        assert!(parse("\"a\u{1}\"").is_err());
        assert!(same(&parse("[1.0,-0,1e2]").unwrap(), &parse("[1,0,100.0]").unwrap()));
        assert!(!same(&parse("340282366920938463463374607431768211455").unwrap(), &parse("340282366920938463463374607431768211454").unwrap()));
        assert!(same(&parse(r#""😀é""#).unwrap(), &parse("\"\u{1F600}\u{e9}\"").unwrap()));
    }
}
