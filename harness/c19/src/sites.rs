//! The call sites: one fixed `emit::props!` invocation per (static type, capture attribute,
//! optional wrapping), stamped out with macros and fed runtime-generated values.

use std::cell::RefCell;
use std::fmt;

use emit::Props;
use vcore::{Cx, Fail, Res};

use crate::check::*;
use crate::derived;
use crate::obs::{drive, Hop};

pub struct Site<'a, 'b, 'c> {
    pub case: &'a Case,
    pub exp: Expect,
    pub cx: &'b mut Cx<'c>,
}

impl<'a, 'b, 'c> Site<'a, 'b, 'c> {
    pub fn new(case: &'a Case, exp: Expect, cx: &'b mut Cx<'c>) -> Self {
        let exp = match case.opt {
            Opt::None => Expect::absent(exp.key),
            _ => exp,
        };
        Site { case, exp, cx }
    }

    /// The call site spells out `(inspect: false)` on its fmt/value/sval/serde attribute.
    pub fn inspect_false(&self) -> bool {
        self.case.effective_inspect_false()
    }

    pub fn finish<P: Props>(&mut self, props: &P) -> Res {
        let mut reads = Vec::new();
        if let Err(f) = drive(props, self.exp.key, &self.case.hops, 0, want_for(self.case), &mut reads) {
            self.cx.fail(f.sig, f.msg)?;
        }
        judge(&self.exp, &self.case.hops, &reads, self.cx)
    }
}

/// The runtime an `emit::emit!` call site emits through.
pub type Rt<'r> = emit::runtime::Runtime<Box<dyn emit::emitter::ErasedEmitter + 'r>>;

impl<'a, 'b, 'c> Site<'a, 'b, 'c> {
    /// `call` is the `emit::emit!` call site; the event it produces is read inside the emitter.
    pub fn finish_emit(&mut self, call: impl FnOnce(&Rt<'_>)) -> Res {
        if self.case.sinks {
            return self.finish_emit_sinks(call);
        }
        let result: RefCell<(Vec<crate::obs::Read>, Result<(), Fail>, usize)> = RefCell::new((Vec::new(), Ok(()), 0));
        {
            let key = self.exp.key;
            let case = self.case;
            let emitter = emit::emitter::from_fn(|evt| {
                let mut r = result.borrow_mut();
                let (reads, res, n) = &mut *r;
                *n += 1;
                *res = drive(evt.props(), key, &case.hops, 0, want_for(case), reads);
            });
            let rt: Rt = emit::runtime::Runtime::new().with_emitter(Box::new(emitter) as Box<dyn emit::emitter::ErasedEmitter + '_>);
            call(&rt);
        }
        let (reads, res, n) = result.into_inner();
        if n != 1 {
            self.cx.fail("emit-macro/event-count", format!("the call site produced {n} events"))?;
        }
        if let Err(f) = res {
            self.cx.fail(f.sig, f.msg)?;
        }
        judge(&self.exp, &self.case.hops, &reads, self.cx)
    }
}

macro_rules! emit_for {
    (Default, $rt:expr, $e:expr) => { emit::emit!(rt: $rt, "c19 {v}", v: $e) };
    (Display, $rt:expr, $e:expr) => { emit::emit!(rt: $rt, "c19 {v}", #[emit::as_display] v: $e) };
    (DisplayI, $rt:expr, $e:expr) => { emit::emit!(rt: $rt, "c19 {v}", #[emit::as_display(inspect: true)] v: $e) };
    (Debug, $rt:expr, $e:expr) => { emit::emit!(rt: $rt, "c19 {v}", #[emit::as_debug] v: $e) };
    (DebugI, $rt:expr, $e:expr) => { emit::emit!(rt: $rt, "c19 {v}", #[emit::as_debug(inspect: true)] v: $e) };
    (Value, $rt:expr, $e:expr) => { emit::emit!(rt: $rt, "c19 {v}", #[emit::as_value] v: $e) };
    (ValueI, $rt:expr, $e:expr) => { emit::emit!(rt: $rt, "c19 {v}", #[emit::as_value(inspect: true)] v: $e) };
    (Sval, $rt:expr, $e:expr) => { emit::emit!(rt: $rt, "c19 {v}", #[emit::as_sval] v: $e) };
    (SvalI, $rt:expr, $e:expr) => { emit::emit!(rt: $rt, "c19 {v}", #[emit::as_sval(inspect: true)] v: $e) };
    (Serde, $rt:expr, $e:expr) => { emit::emit!(rt: $rt, "c19 {v}", #[emit::as_serde] v: $e) };
    (SerdeI, $rt:expr, $e:expr) => { emit::emit!(rt: $rt, "c19 {v}", #[emit::as_serde(inspect: true)] v: $e) };
    (Error, $rt:expr, $e:expr) => { emit::emit!(rt: $rt, "c19 {v}", #[emit::as_error] v: $e) };
}

macro_rules! opt_emit_for {
    (Default, $rt:expr, $e:expr) => { emit::emit!(rt: $rt, "c19 {v}", #[emit::optional] v: $e) };
    (Display, $rt:expr, $e:expr) => { emit::emit!(rt: $rt, "c19 {v}", #[emit::optional] #[emit::as_display] v: $e) };
    (DisplayI, $rt:expr, $e:expr) => { emit::emit!(rt: $rt, "c19 {v}", #[emit::optional] #[emit::as_display(inspect: true)] v: $e) };
    (Debug, $rt:expr, $e:expr) => { emit::emit!(rt: $rt, "c19 {v}", #[emit::optional] #[emit::as_debug] v: $e) };
    (DebugI, $rt:expr, $e:expr) => { emit::emit!(rt: $rt, "c19 {v}", #[emit::optional] #[emit::as_debug(inspect: true)] v: $e) };
    (Value, $rt:expr, $e:expr) => { emit::emit!(rt: $rt, "c19 {v}", #[emit::optional] #[emit::as_value] v: $e) };
    (ValueI, $rt:expr, $e:expr) => { emit::emit!(rt: $rt, "c19 {v}", #[emit::optional] #[emit::as_value(inspect: true)] v: $e) };
    (Sval, $rt:expr, $e:expr) => { emit::emit!(rt: $rt, "c19 {v}", #[emit::optional] #[emit::as_sval] v: $e) };
    (SvalI, $rt:expr, $e:expr) => { emit::emit!(rt: $rt, "c19 {v}", #[emit::optional] #[emit::as_sval(inspect: true)] v: $e) };
    (Serde, $rt:expr, $e:expr) => { emit::emit!(rt: $rt, "c19 {v}", #[emit::optional] #[emit::as_serde] v: $e) };
    (SerdeI, $rt:expr, $e:expr) => { emit::emit!(rt: $rt, "c19 {v}", #[emit::optional] #[emit::as_serde(inspect: true)] v: $e) };
    (Error, $rt:expr, $e:expr) => { emit::emit!(rt: $rt, "c19 {v}", #[emit::optional] #[emit::as_error] v: $e) };
}

// ---- `(inspect: false)` spelled out: a third stamping of the fmt/value/sval/serde attribute sites.
// An explicit `inspect: false` can only mean "no inspection": judged with exactly the bare attribute's clauses.

macro_rules! site_plain {
    (Display, $site:ident, $k:ident, $e:expr) => {
        if $site.inspect_false() {
            let p = emit::props! { #[emit::as_display(inspect: false)] $k: $e };
            $site.finish(&p)
        } else {
            let p = props_for!(Display, $k, $e);
            $site.finish(&p)
        }
    };
    (Debug, $site:ident, $k:ident, $e:expr) => {
        if $site.inspect_false() {
            let p = emit::props! { #[emit::as_debug(inspect: false)] $k: $e };
            $site.finish(&p)
        } else {
            let p = props_for!(Debug, $k, $e);
            $site.finish(&p)
        }
    };
    (Value, $site:ident, $k:ident, $e:expr) => {
        if $site.inspect_false() {
            let p = emit::props! { #[emit::as_value(inspect: false)] $k: $e };
            $site.finish(&p)
        } else {
            let p = props_for!(Value, $k, $e);
            $site.finish(&p)
        }
    };
    (Sval, $site:ident, $k:ident, $e:expr) => {
        if $site.inspect_false() {
            let p = emit::props! { #[emit::as_sval(inspect: false)] $k: $e };
            $site.finish(&p)
        } else {
            let p = props_for!(Sval, $k, $e);
            $site.finish(&p)
        }
    };
    (Serde, $site:ident, $k:ident, $e:expr) => {
        if $site.inspect_false() {
            let p = emit::props! { #[emit::as_serde(inspect: false)] $k: $e };
            $site.finish(&p)
        } else {
            let p = props_for!(Serde, $k, $e);
            $site.finish(&p)
        }
    };
    ($m:ident, $site:ident, $k:ident, $e:expr) => {{
        let p = props_for!($m, $k, $e);
        $site.finish(&p)
    }};
}
macro_rules! site_opt {
    (Display, $site:ident, $k:ident, $e:expr) => {
        if $site.inspect_false() {
            let p = emit::props! { #[emit::optional] #[emit::as_display(inspect: false)] $k: $e };
            $site.finish(&p)
        } else {
            let p = opt_props_for!(Display, $k, $e);
            $site.finish(&p)
        }
    };
    (Debug, $site:ident, $k:ident, $e:expr) => {
        if $site.inspect_false() {
            let p = emit::props! { #[emit::optional] #[emit::as_debug(inspect: false)] $k: $e };
            $site.finish(&p)
        } else {
            let p = opt_props_for!(Debug, $k, $e);
            $site.finish(&p)
        }
    };
    (Value, $site:ident, $k:ident, $e:expr) => {
        if $site.inspect_false() {
            let p = emit::props! { #[emit::optional] #[emit::as_value(inspect: false)] $k: $e };
            $site.finish(&p)
        } else {
            let p = opt_props_for!(Value, $k, $e);
            $site.finish(&p)
        }
    };
    (Sval, $site:ident, $k:ident, $e:expr) => {
        if $site.inspect_false() {
            let p = emit::props! { #[emit::optional] #[emit::as_sval(inspect: false)] $k: $e };
            $site.finish(&p)
        } else {
            let p = opt_props_for!(Sval, $k, $e);
            $site.finish(&p)
        }
    };
    (Serde, $site:ident, $k:ident, $e:expr) => {
        if $site.inspect_false() {
            let p = emit::props! { #[emit::optional] #[emit::as_serde(inspect: false)] $k: $e };
            $site.finish(&p)
        } else {
            let p = opt_props_for!(Serde, $k, $e);
            $site.finish(&p)
        }
    };
    ($m:ident, $site:ident, $k:ident, $e:expr) => {{
        let p = opt_props_for!($m, $k, $e);
        $site.finish(&p)
    }};
}
macro_rules! esite_plain {
    (Display, $site:ident, $e:expr) => {
        if $site.inspect_false() {
            $site.finish_emit(|rt| emit::emit!(rt: rt, "c19 {v}", #[emit::as_display(inspect: false)] v: $e))
        } else {
            $site.finish_emit(|rt| emit_for!(Display, rt, $e))
        }
    };
    (Debug, $site:ident, $e:expr) => {
        if $site.inspect_false() {
            $site.finish_emit(|rt| emit::emit!(rt: rt, "c19 {v}", #[emit::as_debug(inspect: false)] v: $e))
        } else {
            $site.finish_emit(|rt| emit_for!(Debug, rt, $e))
        }
    };
    (Value, $site:ident, $e:expr) => {
        if $site.inspect_false() {
            $site.finish_emit(|rt| emit::emit!(rt: rt, "c19 {v}", #[emit::as_value(inspect: false)] v: $e))
        } else {
            $site.finish_emit(|rt| emit_for!(Value, rt, $e))
        }
    };
    (Sval, $site:ident, $e:expr) => {
        if $site.inspect_false() {
            $site.finish_emit(|rt| emit::emit!(rt: rt, "c19 {v}", #[emit::as_sval(inspect: false)] v: $e))
        } else {
            $site.finish_emit(|rt| emit_for!(Sval, rt, $e))
        }
    };
    (Serde, $site:ident, $e:expr) => {
        if $site.inspect_false() {
            $site.finish_emit(|rt| emit::emit!(rt: rt, "c19 {v}", #[emit::as_serde(inspect: false)] v: $e))
        } else {
            $site.finish_emit(|rt| emit_for!(Serde, rt, $e))
        }
    };
    ($m:ident, $site:ident, $e:expr) => {
        $site.finish_emit(|rt| emit_for!($m, rt, $e))
    };
}
macro_rules! esite_opt {
    (Display, $site:ident, $e:expr) => {
        if $site.inspect_false() {
            $site.finish_emit(|rt| emit::emit!(rt: rt, "c19 {v}", #[emit::optional] #[emit::as_display(inspect: false)] v: $e))
        } else {
            $site.finish_emit(|rt| opt_emit_for!(Display, rt, $e))
        }
    };
    (Debug, $site:ident, $e:expr) => {
        if $site.inspect_false() {
            $site.finish_emit(|rt| emit::emit!(rt: rt, "c19 {v}", #[emit::optional] #[emit::as_debug(inspect: false)] v: $e))
        } else {
            $site.finish_emit(|rt| opt_emit_for!(Debug, rt, $e))
        }
    };
    (Value, $site:ident, $e:expr) => {
        if $site.inspect_false() {
            $site.finish_emit(|rt| emit::emit!(rt: rt, "c19 {v}", #[emit::optional] #[emit::as_value(inspect: false)] v: $e))
        } else {
            $site.finish_emit(|rt| opt_emit_for!(Value, rt, $e))
        }
    };
    (Sval, $site:ident, $e:expr) => {
        if $site.inspect_false() {
            $site.finish_emit(|rt| emit::emit!(rt: rt, "c19 {v}", #[emit::optional] #[emit::as_sval(inspect: false)] v: $e))
        } else {
            $site.finish_emit(|rt| opt_emit_for!(Sval, rt, $e))
        }
    };
    (Serde, $site:ident, $e:expr) => {
        if $site.inspect_false() {
            $site.finish_emit(|rt| emit::emit!(rt: rt, "c19 {v}", #[emit::optional] #[emit::as_serde(inspect: false)] v: $e))
        } else {
            $site.finish_emit(|rt| opt_emit_for!(Serde, rt, $e))
        }
    };
    ($m:ident, $site:ident, $e:expr) => {
        $site.finish_emit(|rt| opt_emit_for!($m, rt, $e))
    };
}

/// The `emit::emit!` twin of `sites!`.
macro_rules! emit_sites {
    ($site:ident, $x:expr, $some:expr; $($mode:ident)+) => {
        match ($site.case.mode, $site.case.opt) {
            $(
                (Mode::$mode, Opt::Plain) => esite_plain!($mode, $site, $x),
                (Mode::$mode, o) => {
                    let ov = if o == Opt::Some { $some } else { None };
                    esite_opt!($mode, $site, ov)
                }
            )+
            #[allow(unreachable_patterns)]
            (m, _) => Err(Fail::new("harness/unsupported-mode", format!("capture mode {m:?} is not stamped out for this subject"))),
        }
    };
}

macro_rules! props_for {
    (Default, $k:ident, $e:expr) => { emit::props! { $k: $e } };
    (WellKnown, $k:ident, $e:expr) => { emit::props! { $k: $e } };
    (Display, $k:ident, $e:expr) => { emit::props! { #[emit::as_display] $k: $e } };
    (DisplayI, $k:ident, $e:expr) => { emit::props! { #[emit::as_display(inspect: true)] $k: $e } };
    (Debug, $k:ident, $e:expr) => { emit::props! { #[emit::as_debug] $k: $e } };
    (DebugI, $k:ident, $e:expr) => { emit::props! { #[emit::as_debug(inspect: true)] $k: $e } };
    (Value, $k:ident, $e:expr) => { emit::props! { #[emit::as_value] $k: $e } };
    (ValueI, $k:ident, $e:expr) => { emit::props! { #[emit::as_value(inspect: true)] $k: $e } };
    (Sval, $k:ident, $e:expr) => { emit::props! { #[emit::as_sval] $k: $e } };
    (SvalI, $k:ident, $e:expr) => { emit::props! { #[emit::as_sval(inspect: true)] $k: $e } };
    (Serde, $k:ident, $e:expr) => { emit::props! { #[emit::as_serde] $k: $e } };
    (SerdeI, $k:ident, $e:expr) => { emit::props! { #[emit::as_serde(inspect: true)] $k: $e } };
    (Error, $k:ident, $e:expr) => { emit::props! { #[emit::as_error] $k: $e } };
}

macro_rules! opt_props_for {
    (Default, $k:ident, $e:expr) => { emit::props! { #[emit::optional] $k: $e } };
    (WellKnown, $k:ident, $e:expr) => { emit::props! { #[emit::optional] $k: $e } };
    (Display, $k:ident, $e:expr) => { emit::props! { #[emit::optional] #[emit::as_display] $k: $e } };
    (DisplayI, $k:ident, $e:expr) => { emit::props! { #[emit::optional] #[emit::as_display(inspect: true)] $k: $e } };
    (Debug, $k:ident, $e:expr) => { emit::props! { #[emit::optional] #[emit::as_debug] $k: $e } };
    (DebugI, $k:ident, $e:expr) => { emit::props! { #[emit::optional] #[emit::as_debug(inspect: true)] $k: $e } };
    (Value, $k:ident, $e:expr) => { emit::props! { #[emit::optional] #[emit::as_value] $k: $e } };
    (ValueI, $k:ident, $e:expr) => { emit::props! { #[emit::optional] #[emit::as_value(inspect: true)] $k: $e } };
    (Sval, $k:ident, $e:expr) => { emit::props! { #[emit::optional] #[emit::as_sval] $k: $e } };
    (SvalI, $k:ident, $e:expr) => { emit::props! { #[emit::optional] #[emit::as_sval(inspect: true)] $k: $e } };
    (Serde, $k:ident, $e:expr) => { emit::props! { #[emit::optional] #[emit::as_serde] $k: $e } };
    (SerdeI, $k:ident, $e:expr) => { emit::props! { #[emit::optional] #[emit::as_serde(inspect: true)] $k: $e } };
    (Error, $k:ident, $e:expr) => { emit::props! { #[emit::optional] #[emit::as_error] $k: $e } };
}

/// Stamp out the call sites of one static type: `$x` is a place of that type, `$some` an
/// `Option<&T>` holding it, `$mode...` the attributes the type supports.
macro_rules! sites {
    ($site:ident, $k:ident, $x:expr, $some:expr; $($mode:ident)+) => {
        match ($site.case.mode, $site.case.opt) {
            $(
                (Mode::$mode, Opt::Plain) => site_plain!($mode, $site, $k, $x),
                (Mode::$mode, o) => {
                    let ov = if o == Opt::Some { $some } else { None };
                    site_opt!($mode, $site, $k, ov)
                }
            )+
            #[allow(unreachable_patterns)]
            (m, _) => Err(Fail::new("harness/unsupported-mode", format!("capture mode {m:?} is not stamped out for this subject"))),
        }
    };
}

macro_rules! prim_site {
    ($case:ident, $cx:ident, $x:expr, $t:ty, $kind:expr, $typed:expr) => {{
        let x: $t = $x;
        let exp = expect_prim(&orig(&x), $kind, $typed, $case.mode, false);
        let mut site = Site::new($case, exp, $cx);
        sites!(site, v, x, Some(&x); Default Display DisplayI Debug DebugI Value ValueI Sval SvalI Serde SerdeI)
    }};
}

/// no `sval::Value`: isize, usize (`$as` is the fixed-width type whose sval rendering is the same number)
macro_rules! prim_site_nosval {
    ($case:ident, $cx:ident, $x:expr, $t:ty, $as:ty, $kind:expr, $typed:expr) => {{
        let x: $t = $x;
        let o = Orig { display: format!("{x}"), debug: format!("{x:?}"), a: sj(&x), b: vj(&(x as $as)), pspec: display_table(&x), dspec: debug_table(&x) };
        let exp = expect_prim(&o, $kind, $typed, $case.mode, false);
        let mut site = Site::new($case, exp, $cx);
        sites!(site, v, x, Some(&x); Default Display DisplayI Debug DebugI Value ValueI Serde SerdeI)
    }};
}

/// no `ToValue`: f32, char
macro_rules! prim_site_novalue {
    ($case:ident, $cx:ident, $x:expr, $t:ty, $kind:expr, $typed:expr) => {{
        let x: $t = $x;
        let exp = expect_prim(&orig(&x), $kind, $typed, $case.mode, false);
        let mut site = Site::new($case, exp, $cx);
        sites!(site, v, x, Some(&x); Default Display DisplayI Debug DebugI Sval SvalI Serde SerdeI)
    }};
}

macro_rules! structured_site {
    ($case:ident, $cx:ident, $x:expr, $nested:expr) => {{
        let x = $x;
        let exp = expect_structured(&x, $case.mode, $nested);
        let mut site = Site::new($case, exp, $cx);
        sites!(site, v, x, Some(&x); Debug DebugI Sval SvalI Serde SerdeI)
    }};
}

pub(crate) fn expect_fmt<T: fmt::Display + fmt::Debug + ?Sized>(x: &T, kind: Kind, mode: Mode) -> Expect {
    let mut e = Expect::new("v", kind);
    match mode {
        Mode::Default | Mode::Display | Mode::DisplayI => {
            let pspec = display_table(x);
            e.display = Some(pspec[0].clone());
            e.specs = Some(SpecExpect::display_capture(&pspec));
        }
        Mode::Debug | Mode::DebugI => {
            let dspec = debug_table(x);
            e.display = Some(dspec[0].clone());
            e.specs = Some(SpecExpect::debug_capture(&dspec));
        }
        _ => {}
    }
    e
}

pub(crate) fn int_typed_i(v: i128, ty: IntTy) -> Option<Typed> {
    Some(Typed::Int(Big::i(v), ty))
}

pub(crate) fn int_typed_u(v: u128, ty: IntTy) -> Option<Typed> {
    Some(Typed::Int(Big::u(v), ty))
}

pub(crate) fn str_expect(s: &str, mode: Mode, key: &'static str) -> Expect {
    let mut e = expect_prim(&orig(s), Kind::Str, Some(Typed::Str(s.to_string())), mode, true);
    e.key = key;
    if let Some((alt, _)) = &mut e.alt {
        alt.key = key;
    }
    e
}

fn level(i: u8) -> emit::Level {
    [emit::Level::Debug, emit::Level::Info, emit::Level::Warn, emit::Level::Error][i as usize % 4]
}

fn trace_id(v: u128) -> emit::TraceId {
    emit::TraceId::from_u128(v.max(1)).unwrap()
}

fn span_id(v: u64) -> emit::SpanId {
    emit::SpanId::from_u64(v.max(1)).unwrap()
}

fn check_wk(case: &Case, wk: &Wk, cx: &mut Cx) -> Res {
    let mode = case.mode;
    match wk {
        Wk::Lvl(i) => {
            let x = level(*i);
            let mut exp = Expect::new("lvl", Kind::Other);
            exp.display = Some(x.to_string());
            exp.lvl = Some(Some(x));
            let mut site = Site::new(case, exp, cx);
            sites!(site, lvl, x, Some(&x); WellKnown)
        }
        Wk::LvlStr(s) => {
            let x: &str = s;
            let mut exp = str_expect(x, mode, "lvl");
            exp.lvl = Some(x.parse().ok());
            let mut site = Site::new(case, exp, cx);
            sites!(site, lvl, x, Some(x); WellKnown)
        }
        Wk::LvlOpt(o) => {
            // these sites have no `#[emit::optional]` form
            let case = &Case { opt: Opt::Plain, ..case.clone() };
            let x: Option<emit::Level> = o.map(level);
            let mut exp = Expect::new("lvl", Kind::Other);
            match x {
                Some(l) => {
                    exp.display = Some(l.to_string());
                    exp.lvl = Some(Some(l));
                }
                None => exp.presence = Presence::AbsentOrNull,
            }
            let mut site = Site::new(case, exp, cx);
            let p = emit::props! { lvl: x };
            site.finish(&p)
        }
        Wk::TraceId(v) => {
            let x = trace_id(*v);
            let mut exp = Expect::new("trace_id", Kind::Other);
            exp.display = Some(x.to_string());
            exp.trace_id = Some(Some(x));
            let mut site = Site::new(case, exp, cx);
            sites!(site, trace_id, x, Some(&x); WellKnown)
        }
        Wk::TraceIdNum(v) => {
            let x: u128 = *v;
            let mut exp = expect_prim(&orig(&x), Kind::Number, int_typed_u(x, IntTy::U128), mode, false);
            exp.key = "trace_id";
            exp.trace_id = Some(emit::TraceId::from_u128(x));
            let mut site = Site::new(case, exp, cx);
            sites!(site, trace_id, x, Some(&x); WellKnown)
        }
        Wk::TraceIdStr(s) => {
            let x: &str = s;
            let mut exp = str_expect(x, mode, "trace_id");
            exp.trace_id = Some(emit::TraceId::try_from_hex(x).ok());
            let mut site = Site::new(case, exp, cx);
            sites!(site, trace_id, x, Some(x); WellKnown)
        }
        Wk::TraceIdOpt(o) => {
            // these sites have no `#[emit::optional]` form
            let case = &Case { opt: Opt::Plain, ..case.clone() };
            let x: Option<emit::TraceId> = o.map(|v| trace_id(v as u128));
            let mut exp = Expect::new("trace_id", Kind::Other);
            match x {
                Some(t) => {
                    exp.display = Some(t.to_string());
                    exp.trace_id = Some(Some(t));
                }
                None => exp.presence = Presence::AbsentOrNull,
            }
            let mut site = Site::new(case, exp, cx);
            let p = emit::props! { trace_id: x };
            site.finish(&p)
        }
        Wk::SpanId(v) => {
            let x = span_id(*v);
            let mut exp = Expect::new("span_id", Kind::Other);
            exp.display = Some(x.to_string());
            exp.span_id = Some(Some(x));
            let mut site = Site::new(case, exp, cx);
            sites!(site, span_id, x, Some(&x); WellKnown)
        }
        Wk::SpanIdNum(v) => {
            let x: u64 = *v;
            let mut exp = expect_prim(&orig(&x), Kind::Number, int_typed_u(x as u128, IntTy::U64), mode, false);
            exp.key = "span_id";
            exp.span_id = Some(emit::SpanId::from_u64(x));
            let mut site = Site::new(case, exp, cx);
            sites!(site, span_id, x, Some(&x); WellKnown)
        }
        Wk::SpanIdStr(s) => {
            let x: &str = s;
            let mut exp = str_expect(x, mode, "span_id");
            exp.span_id = Some(emit::SpanId::try_from_hex(x).ok());
            let mut site = Site::new(case, exp, cx);
            sites!(site, span_id, x, Some(x); WellKnown)
        }
        Wk::SpanIdOpt(o) => {
            // these sites have no `#[emit::optional]` form
            let case = &Case { opt: Opt::Plain, ..case.clone() };
            let x: Option<emit::SpanId> = o.map(span_id);
            let mut exp = Expect::new("span_id", Kind::Other);
            match x {
                Some(t) => {
                    exp.display = Some(t.to_string());
                    exp.span_id = Some(Some(t));
                }
                None => exp.presence = Presence::AbsentOrNull,
            }
            let mut site = Site::new(case, exp, cx);
            let p = emit::props! { span_id: x };
            site.finish(&p)
        }
        Wk::SpanParent(v) => {
            let x = span_id(*v);
            let mut exp = Expect::new("span_parent", Kind::Other);
            exp.display = Some(x.to_string());
            exp.span_id = Some(Some(x));
            let mut site = Site::new(case, exp, cx);
            sites!(site, span_parent, x, Some(&x); WellKnown)
        }
        Wk::SpanParentNum(v) => {
            let x: u64 = *v;
            let mut exp = expect_prim(&orig(&x), Kind::Number, int_typed_u(x as u128, IntTy::U64), mode, false);
            exp.key = "span_parent";
            exp.span_id = Some(emit::SpanId::from_u64(x));
            let mut site = Site::new(case, exp, cx);
            sites!(site, span_parent, x, Some(&x); WellKnown)
        }
        Wk::SpanParentStr(s) => {
            let x: &str = s;
            let mut exp = str_expect(x, mode, "span_parent");
            exp.span_id = Some(emit::SpanId::try_from_hex(x).ok());
            let mut site = Site::new(case, exp, cx);
            sites!(site, span_parent, x, Some(x); WellKnown)
        }
        Wk::Err(msgs) => {
            let x = ChainErr::build(msgs);
            let mut exp = Expect::new("err", Kind::Error);
            exp.err_chain = Some(x.messages());
            let mut site = Site::new(case, exp, cx);
            sites!(site, err, x, Some(&x); WellKnown)
        }
        Wk::ErrStr(s) => {
            let x: &str = s;
            let exp = str_expect(x, mode, "err");
            let mut site = Site::new(case, exp, cx);
            sites!(site, err, x, Some(x); WellKnown)
        }
        Wk::ErrDyn(msgs) => {
            let e = ChainErr::build(msgs);
            let x: &(dyn std::error::Error + 'static) = &e;
            let mut exp = Expect::new("err", Kind::Error);
            exp.err_chain = Some(e.messages());
            let mut site = Site::new(case, exp, cx);
            sites!(site, err, x, Some(x); WellKnown)
        }
    }
}

fn check_derived(case: &Case, d: &derived::DSpec, cx: &mut Cx) -> Res {
    let nested = derived::nested_seq(d);
    match d.which % 6 {
        0 => structured_site!(case, cx, d.point(), nested),
        1 => structured_site!(case, cx, d.shape(), nested),
        2 => structured_site!(case, cx, d.nested(), nested),
        3 => structured_site!(case, cx, d.points(), nested),
        4 => structured_site!(case, cx, d.shape_map(), nested),
        _ => structured_site!(case, cx, d.opt_nested(), nested),
    }
}

fn classify(case: &Case, cx: &mut Cx) {
    cx.class(case.mode.class());
    cx.class_if(case.mode.inspect(), "attr:inspect");
    cx.class_if(case.effective_inspect_false() && !case.stacked.is_some(), "attr:inspect-false");
    match case.opt {
        Opt::Plain => {}
        Opt::Some => cx.class("optional:some"),
        Opt::None => cx.class("optional:none"),
    }
    if case.hops.is_empty() {
        cx.class("path:direct-only");
    }
    for h in &case.hops {
        cx.class(h.label());
    }
    cx.class_if(case.hops.iter().any(|h| h.ambient()), "path:ambient");
    cx.class_if(case.hops.iter().any(|h| h.thread()), "path:thread");
    cx.class_if(case.hops.iter().any(|h| matches!(h, Hop::Erase | Hop::Event | Hop::Ambient)), "path:erased");
    cx.class_if(case.hops.iter().any(|h| matches!(h, Hop::Owned | Hop::Shared | Hop::OwnedThread)), "path:owned-copy");
    cx.class_if(case.as_map, "read:as_map");
    let mut nontrivial = case.hops.len() >= 2;
    match &case.subj {
        Subj::Node(spec) => {
            let shape = spec.build().shape();
            cx.class("subject:node");
            cx.class_if(shape.depth >= 2, "shape:depth>=2");
            cx.class_if(shape.depth >= 4, "shape:depth>=4");
            cx.class_if(shape.nested_seq, "shape:nested-seq");
            cx.class_if(!shape.nested_seq, "shape:no-nested-seq");
            cx.class_if(shape.nonfinite, "shape:non-finite-float");
            cx.class_if(shape.big128, "shape:128-bit-beyond-64");
            cx.class_if(shape.bytes, "shape:bytes");
            cx.class_if(shape.nonstring_keys, "shape:non-string-keys");
            cx.class_if(shape.dup_keys, "shape:duplicate-keys");
            cx.class_if(shape.enums, "shape:enum-variant");
            nontrivial |= shape.depth >= 2 || shape.extreme_num;
        }
        Subj::Derived(d) => {
            cx.class("subject:derived");
            cx.class_if(derived::nested_seq(d), "shape:nested-seq");
            cx.class_if(!derived::nested_seq(d), "shape:no-nested-seq");
            let deep = matches!(d.which % 6, 2 | 4) || (d.which % 6 == 5 && d.opt) || (d.which % 6 == 3 && d.n_items % 4 > 0) || (d.which % 6 == 1 && d.shape % 5 >= 3);
            cx.class_if(deep, "shape:depth>=2");
            nontrivial |= deep;
        }
        Subj::Err(m) | Subj::DynErr(m) | Subj::Wk(Wk::Err(m)) | Subj::Wk(Wk::ErrDyn(m)) => {
            cx.class("subject:error");
            cx.class_if(matches!(case.subj, Subj::Wk(_)), "mode:error");
            cx.class(match m.len() {
                0 | 1 => "error:depth-0",
                2 => "error:depth-1",
                3 => "error:depth-2",
                4 => "error:depth-3",
                _ => "error:depth-4",
            });
        }
        Subj::Str(_) | Subj::String(_) | Subj::Static(_) => cx.class("subject:string"),
        Subj::Wk(Wk::ErrStr(_)) => {
            cx.class("subject:well-known");
            cx.class("mode:error");
        }
        Subj::Wk(_) => cx.class("subject:well-known"),
        Subj::Disp(_) | Subj::Dyn(_) | Subj::Char(_) => cx.class("subject:display-only"),
        Subj::Bool(_) => cx.class("subject:bool"),
        Subj::OptI32(_) => cx.class("subject:option"),
        Subj::F32(b) => {
            cx.class("subject:float");
            let v = f32::from_bits(*b);
            nontrivial |= !v.is_finite() || v == f32::MAX || v == f32::MIN || v == f32::MIN_POSITIVE || (v == 0.0 && v.is_sign_negative());
        }
        Subj::F64(b) => {
            cx.class("subject:float");
            let v = f64::from_bits(*b);
            nontrivial |= !v.is_finite() || v == f64::MAX || v == f64::MIN || v == f64::MIN_POSITIVE || (v == 0.0 && v.is_sign_negative());
        }
        other => {
            cx.class("subject:integer");
            let extreme = match other {
                Subj::I8(v) => *v == i8::MIN || *v == i8::MAX,
                Subj::I16(v) => *v == i16::MIN || *v == i16::MAX,
                Subj::I32(v) => *v == i32::MIN || *v == i32::MAX,
                Subj::I64(v) | Subj::Isize(v) => *v == i64::MIN || *v == i64::MAX,
                Subj::I128(v) => *v == i128::MIN || *v == i128::MAX,
                Subj::U8(v) => *v == u8::MAX,
                Subj::U16(v) => *v == u16::MAX,
                Subj::U32(v) => *v == u32::MAX,
                Subj::U64(v) | Subj::Usize(v) => *v == u64::MAX,
                Subj::U128(v) => *v == u128::MAX,
                _ => false,
            };
            cx.class_if(extreme, "number:extreme");
            nontrivial |= extreme;
        }
    }
    cx.nontrivial(nontrivial);
}

fn check_emit(case: &Case, cx: &mut Cx) -> Res {
    let mode = case.mode;
    macro_rules! prim {
        ($x:expr, $t:ty, $kind:expr, $typed:expr; $($mode:ident)+) => {{
            let x: $t = $x;
            let exp = expect_prim(&orig(&x), $kind, $typed, mode, false);
            let mut site = Site::new(case, exp, cx);
            emit_sites!(site, x, Some(&x); $($mode)+)
        }};
    }
    match &case.subj {
        Subj::I64(v) => prim!(*v, i64, Kind::Number, int_typed_i(*v as i128, IntTy::I64); Default Display DisplayI Debug DebugI Value ValueI Sval SvalI Serde SerdeI),
        Subj::U64(v) => prim!(*v, u64, Kind::Number, int_typed_u(*v as u128, IntTy::U64); Default Display DisplayI Debug DebugI Value ValueI Sval SvalI Serde SerdeI),
        Subj::U128(v) => prim!(*v, u128, Kind::Number, int_typed_u(*v, IntTy::U128); Default Display DisplayI Debug DebugI Value ValueI Sval SvalI Serde SerdeI),
        Subj::F64(b) => prim!(f64::from_bits(*b), f64, Kind::Number, Some(Typed::F64(f64::from_bits(*b))); Default Display DisplayI Debug DebugI Value ValueI Sval SvalI Serde SerdeI),
        Subj::Bool(v) => prim!(*v, bool, Kind::Bool, Some(Typed::Bool(*v)); Default Display DisplayI Debug DebugI Value ValueI Sval SvalI Serde SerdeI),
        Subj::F32(b) => prim!(f32::from_bits(*b), f32, Kind::Number, Some(Typed::F32(f32::from_bits(*b))); Default Display DisplayI Debug DebugI Sval SvalI Serde SerdeI),
        Subj::Str(s) => {
            let x: &str = s;
            let exp = str_expect(x, mode, "v");
            let mut site = Site::new(case, exp, cx);
            emit_sites!(site, x, Some(x); Default Display DisplayI Debug DebugI Value ValueI Sval SvalI Serde SerdeI Error)
        }
        Subj::String(s) => {
            let x: String = s.clone();
            let exp = expect_prim(&orig(&x), Kind::Str, Some(Typed::Str(x.clone())), mode, false);
            let mut site = Site::new(case, exp, cx);
            emit_sites!(site, x, Some(&x); Default Display DisplayI Debug DebugI Value ValueI Sval SvalI Serde SerdeI)
        }
        Subj::Node(spec) => {
            let x = spec.build();
            let exp = expect_structured(&x, mode, x.shape().nested_seq);
            let mut site = Site::new(case, exp, cx);
            emit_sites!(site, x, Some(&x); Debug DebugI Sval SvalI Serde SerdeI)
        }
        Subj::Err(msgs) => {
            let x = ChainErr::build(msgs);
            let mut exp = expect_fmt(&x, Kind::Error, mode);
            if mode == Mode::Error {
                exp.err_chain = Some(x.messages());
            }
            let mut site = Site::new(case, exp, cx);
            emit_sites!(site, x, Some(&x); Error Default Display DisplayI Debug DebugI)
        }
        other => Err(Fail::new("harness/unsupported-mode", format!("no emit! call sites are stamped out for {other:?}"))),
    }
}

/// The oracle: run the case's value through its call site and every read path.
pub fn check(case: &Case, cx: &mut Cx) -> Res {
    classify(case, cx);
    if case.dbg_macro {
        cx.class("site:dbg-macro");
        cx.class_if(case.mode != Mode::Default, "site:dbg-macro-with-attribute");
        cx.class_if(case.mode == Mode::Default, "site:dbg-macro-no-attribute");
        return crate::dbg::check_dbg(case, cx);
    }
    if case.stacked.is_some() {
        cx.class("site:stacked-attributes");
        return crate::dbg::check_stacked(case, cx);
    }
    if case.emit_macro {
        cx.class("site:emit-macro");
        return check_emit(case, cx);
    }
    cx.class("site:props-macro");
    let mode = case.mode;
    match &case.subj {
        Subj::I8(v) => prim_site!(case, cx, *v, i8, Kind::Number, int_typed_i(*v as i128, IntTy::I8)),
        Subj::I16(v) => prim_site!(case, cx, *v, i16, Kind::Number, int_typed_i(*v as i128, IntTy::I16)),
        Subj::I32(v) => prim_site!(case, cx, *v, i32, Kind::Number, int_typed_i(*v as i128, IntTy::I32)),
        Subj::I64(v) => prim_site!(case, cx, *v, i64, Kind::Number, int_typed_i(*v as i128, IntTy::I64)),
        Subj::I128(v) => prim_site!(case, cx, *v, i128, Kind::Number, int_typed_i(*v, IntTy::I128)),
        Subj::Isize(v) => prim_site_nosval!(case, cx, *v as isize, isize, i64, Kind::Number, int_typed_i(*v as isize as i128, IntTy::Isize)),
        Subj::U8(v) => prim_site!(case, cx, *v, u8, Kind::Number, int_typed_u(*v as u128, IntTy::U8)),
        Subj::U16(v) => prim_site!(case, cx, *v, u16, Kind::Number, int_typed_u(*v as u128, IntTy::U16)),
        Subj::U32(v) => prim_site!(case, cx, *v, u32, Kind::Number, int_typed_u(*v as u128, IntTy::U32)),
        Subj::U64(v) => prim_site!(case, cx, *v, u64, Kind::Number, int_typed_u(*v as u128, IntTy::U64)),
        Subj::U128(v) => prim_site!(case, cx, *v, u128, Kind::Number, int_typed_u(*v, IntTy::U128)),
        Subj::Usize(v) => prim_site_nosval!(case, cx, *v as usize, usize, u64, Kind::Number, int_typed_u(*v as usize as u128, IntTy::Usize)),
        Subj::F64(b) => prim_site!(case, cx, f64::from_bits(*b), f64, Kind::Number, Some(Typed::F64(f64::from_bits(*b)))),
        Subj::Bool(v) => prim_site!(case, cx, *v, bool, Kind::Bool, Some(Typed::Bool(*v))),
        Subj::F32(b) => prim_site_novalue!(case, cx, f32::from_bits(*b), f32, Kind::Number, Some(Typed::F32(f32::from_bits(*b)))),
        Subj::Char(c) => prim_site_novalue!(case, cx, *c, char, Kind::Other, None),
        Subj::Str(s) => {
            let x: &str = s;
            let exp = str_expect(x, mode, "v");
            let mut site = Site::new(case, exp, cx);
            sites!(site, v, x, Some(x); Default Display DisplayI Debug DebugI Value ValueI Sval SvalI Serde SerdeI Error)
        }
        Subj::Static(i) => {
            let x: &'static str = STATICS[*i as usize % STATICS.len()];
            let exp = str_expect(x, mode, "v");
            let mut site = Site::new(case, exp, cx);
            sites!(site, v, x, Some(x); Default Display DisplayI Debug DebugI Value ValueI Sval SvalI Serde SerdeI Error)
        }
        Subj::String(s) => {
            let x: String = s.clone();
            let exp = expect_prim(&orig(&x), Kind::Str, Some(Typed::Str(x.clone())), mode, false);
            let mut site = Site::new(case, exp, cx);
            sites!(site, v, x, Some(&x); Default Display DisplayI Debug DebugI Value ValueI Sval SvalI Serde SerdeI)
        }
        Subj::Disp(s) => {
            let x = Disp(s.clone());
            let exp = expect_fmt(&x, Kind::Other, mode);
            let mut site = Site::new(case, exp, cx);
            sites!(site, v, x, Some(&x); Default Display DisplayI Debug DebugI)
        }
        Subj::Dyn(s) => {
            let d = Disp(s.clone());
            let exp = expect_fmt(&d, Kind::Other, mode);
            let mut site = Site::new(case, exp, cx);
            match mode {
                Mode::DisplayI => {
                    let x: &dyn fmt::Display = &d;
                    sites!(site, v, x, Some(x); DisplayI)
                }
                _ => {
                    let x: &dyn fmt::Debug = &d;
                    sites!(site, v, x, Some(x); DebugI)
                }
            }
        }
        Subj::OptI32(o) => {
            let x: Option<i32> = *o;
            let mut exp = Expect::new("v", Kind::Number);
            match mode {
                Mode::Value | Mode::ValueI => match x {
                    Some(i) => exp = expect_prim(&orig(&i), Kind::Number, int_typed_i(i as i128, IntTy::I32), mode, false),
                    None => {
                        exp.null = true;
                        exp.json = Some(JsonExpect { by: Fw::Typed, a: sj(&x), b: vj(&x), nested_seq: false });
                    }
                },
                Mode::Serde | Mode::SerdeI => exp.json = Some(JsonExpect { by: Fw::Serde, a: sj(&x), b: vj(&x), nested_seq: false }),
                Mode::Sval | Mode::SvalI => exp.json = Some(JsonExpect { by: Fw::Sval, a: sj(&x), b: vj(&x), nested_seq: false }),
                _ => {
                    let dspec = debug_table(&x);
                    exp.display = Some(dspec[0].clone());
                    exp.specs = Some(SpecExpect::debug_capture(&dspec));
                }
            }
            if mode.inspect() && mode != Mode::ValueI {
                // `inspect: true` may capture the primitive inside the option (or null) instead
                let mut alt = Expect::new("v", Kind::Number);
                match x {
                    Some(i) => alt = expect_prim(&orig(&i), Kind::Number, int_typed_i(i as i128, IntTy::I32), Mode::Value, false),
                    None => alt.null = true,
                }
                exp.alt = Some((Box::new(alt), "dontcare:inspect-captures-typed-primitive"));
            }
            let mut site = Site::new(case, exp, cx);
            sites!(site, v, x, Some(&x); Debug DebugI Value ValueI Sval SvalI Serde SerdeI)
        }
        Subj::Node(spec) => {
            let node = spec.build();
            let nested = node.shape().nested_seq;
            structured_site!(case, cx, node, nested)
        }
        Subj::Derived(d) => check_derived(case, d, cx),
        Subj::Err(msgs) => {
            let x = ChainErr::build(msgs);
            let mut exp = expect_fmt(&x, Kind::Error, mode);
            if mode == Mode::Error {
                exp.err_chain = Some(x.messages());
            }
            let mut site = Site::new(case, exp, cx);
            sites!(site, v, x, Some(&x); Error Default Display DisplayI Debug DebugI)
        }
        Subj::DynErr(msgs) => {
            let e = ChainErr::build(msgs);
            let x: &(dyn std::error::Error + 'static) = &e;
            let mut exp = Expect::new("v", Kind::Error);
            exp.err_chain = Some(e.messages());
            let mut site = Site::new(case, exp, cx);
            sites!(site, v, x, Some(x); Error)
        }
        Subj::Wk(wk) => check_wk(case, wk, cx),
    }
}

/// What the sinks must show for the property: `None` = this (subject, attribute) has no sink clause,
/// `Some(None)` = the property must be absent, `Some(Some(rv))` = it must denote `rv`.
fn sink_want(case: &Case, exp: &Expect) -> Option<Option<c13::event::RV>> {
    use c13::event::RV;
    if exp.presence == Presence::Absent {
        return Some(None);
    }
    if exp.alt.is_some() || case.mode.inspect() {
        return None;
    }
    match case.mode {
        Mode::Display | Mode::Debug => exp.display.clone().map(|d| Some(RV::Str(d))),
        Mode::Default | Mode::Value | Mode::Sval | Mode::Serde => match &case.subj {
            Subj::I64(v) => Some(Some(RV::Int(v.to_string()))),
            Subj::U64(v) => Some(Some(RV::Int(v.to_string()))),
            Subj::U128(v) => Some(Some(RV::Int(v.to_string()))),
            Subj::F64(b) => Some(Some(RV::F64(*b))),
            Subj::F32(b) => Some(Some(RV::F32(*b))),
            Subj::Bool(b) => Some(Some(RV::Bool(*b))),
            Subj::Str(s) | Subj::String(s) => Some(Some(RV::Str(s.clone()))),
            _ => None,
        },
        _ => None,
    }
}

impl<'a, 'b, 'c> Site<'a, 'b, 'c> {
    /// The event the `emit::emit!` call site produces goes to the real sinks; the property is read
    /// back from the rolling-file line and from the OTLP log record (JSON and protobuf encodings).
    fn finish_emit_sinks(&mut self, call: impl FnOnce(&Rt<'_>)) -> Res {
        let Some(want) = sink_want(self.case, &self.exp) else {
            self.cx.class("dontcare:no-sink-clause-for-this-capture");
            self.cx.dont_care();
            return Ok(());
        };
        self.cx.class("path:sinks");
        self.cx.class_if(matches!(&self.case.subj, Subj::U64(v) if *v > i64::MAX as u64) || matches!(&self.case.subj, Subj::U128(v) if *v > i64::MAX as u128), "sinks:integer-beyond-i64");
        self.cx.class_if(matches!(&self.case.subj, Subj::F64(b) if !f64::from_bits(*b).is_finite()) || matches!(&self.case.subj, Subj::F32(b) if !f32::from_bits(*b).is_finite()), "sinks:non-finite-float");
        self.cx.nontrivial(true);
        let views = match c13::prop_through_sinks(self.exp.key, self.cx, |em| {
            let rt: Rt = emit::runtime::Runtime::new().with_emitter(Box::new(em) as Box<dyn emit::emitter::ErasedEmitter + '_>);
            call(&rt);
        }) {
            Ok(v) => v,
            Err(f) => return self.cx.fail(f.sig, f.msg),
        };
        let what = format!("{:?} under {:?} ({:?})", self.case.subj, self.case.mode, self.case.opt);
        match &want {
            None => {
                for (sink, present) in [("file", views.file.is_some()), ("otlp-json", views.otlp_json.is_some()), ("otlp-proto", views.otlp_proto.is_some())] {
                    if present {
                        self.cx.fail(format!("sinks/{sink}/optional-none-present"), format!("{what}: the sink wrote a property for an optional capture of None"))?;
                    }
                }
            }
            Some(rv) => {
                match &views.file {
                    None => self.cx.fail("sinks/file/property-missing", format!("{what}: the file line has no such property"))?,
                    Some(jv) => {
                        if let Err(m) = c13::match_json(rv, jv, self.exp.key) {
                            self.cx.fail("sinks/file/value-mismatch", format!("{what}: {}; the line has {jv:?}", m.detail))?;
                        }
                    }
                }
                for (sink, av, is_json) in [("otlp-json", &views.otlp_json, true), ("otlp-proto", &views.otlp_proto, false)] {
                    match av {
                        None => self.cx.fail(format!("sinks/{sink}/property-missing"), format!("{what}: the log record has no such attribute"))?,
                        Some(av) => {
                            if let Err(m) = c13::match_av(rv, av, is_json, self.exp.key) {
                                self.cx.fail(format!("sinks/{sink}/value-mismatch"), format!("{what}: {}; the record has {av:?}", m.detail))?;
                            }
                        }
                    }
                }
            }
        }
        Ok(())
    }
}
