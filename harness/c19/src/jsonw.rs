//! A small serde `Serializer` that writes JSON with serde_json's data-model conventions but
//! IGNORES the length hints of `serialize_seq` / `serialize_map`. It is only used to characterise
//! the known finding D17 precisely: serde_json trusts a (wrong) `Some(0)` hint and closes the
//! array eagerly; a serializer that does not look at the hint still sees every element, so when
//! its output is the right document the *only* thing wrong with what serde consumers see is the
//! hint. Anything else wrong gets a different signature.

use serde::ser::{self, Serialize};
use std::fmt::{self, Write};

#[derive(Debug)]
pub struct Error(String);

impl fmt::Display for Error {
    fn fmt(&self, f: &mut fmt::Formatter) -> fmt::Result {
        f.write_str(&self.0)
    }
}

impl std::error::Error for Error {}

impl ser::Error for Error {
    fn custom<T: fmt::Display>(msg: T) -> Self {
        Error(msg.to_string())
    }
}

pub fn to_json<T: Serialize + ?Sized>(v: &T) -> Result<String, String> {
    let mut out = String::new();
    v.serialize(W { out: &mut out }).map_err(|e| e.0)?;
    Ok(out)
}

fn write_str(out: &mut String, s: &str) {
    out.push('"');
    for c in s.chars() {
        match c {
            '"' => out.push_str("\\\""),
            '\\' => out.push_str("\\\\"),
            '\n' => out.push_str("\\n"),
            '\r' => out.push_str("\\r"),
            '\t' => out.push_str("\\t"),
            c if (c as u32) < 0x20 => {
                let _ = write!(out, "\\u{:04x}", c as u32);
            }
            c => out.push(c),
        }
    }
    out.push('"');
}

struct W<'a> {
    out: &'a mut String,
}

struct Compound<'a> {
    out: &'a mut String,
    first: bool,
    close: &'static str,
}

impl<'a> Compound<'a> {
    fn sep(&mut self) {
        if !self.first {
            self.out.push(',');
        }
        self.first = false;
    }
}

macro_rules! num {
    ($($f:ident $t:ty),*) => {
        $(fn $f(self, v: $t) -> Result<(), Error> {
            let _ = write!(self.out, "{v}");
            Ok(())
        })*
    };
}

impl<'a> ser::Serializer for W<'a> {
    type Ok = ();
    type Error = Error;
    type SerializeSeq = Compound<'a>;
    type SerializeTuple = Compound<'a>;
    type SerializeTupleStruct = Compound<'a>;
    type SerializeTupleVariant = Compound<'a>;
    type SerializeMap = Compound<'a>;
    type SerializeStruct = Compound<'a>;
    type SerializeStructVariant = Compound<'a>;

    num!(serialize_i8 i8, serialize_i16 i16, serialize_i32 i32, serialize_i64 i64, serialize_i128 i128, serialize_u8 u8, serialize_u16 u16, serialize_u32 u32, serialize_u64 u64, serialize_u128 u128);

    fn serialize_bool(self, v: bool) -> Result<(), Error> {
        self.out.push_str(if v { "true" } else { "false" });
        Ok(())
    }
    // scalars have no length hints: floats are formatted by serde_json itself so that the digits are
    // the ones the reference rendering uses
    fn serialize_f32(self, v: f32) -> Result<(), Error> {
        self.out.push_str(&serde_json::to_string(&v).map_err(|e| Error(e.to_string()))?);
        Ok(())
    }
    fn serialize_f64(self, v: f64) -> Result<(), Error> {
        self.out.push_str(&serde_json::to_string(&v).map_err(|e| Error(e.to_string()))?);
        Ok(())
    }
    fn serialize_char(self, v: char) -> Result<(), Error> {
        write_str(self.out, v.encode_utf8(&mut [0; 4]));
        Ok(())
    }
    fn serialize_str(self, v: &str) -> Result<(), Error> {
        write_str(self.out, v);
        Ok(())
    }
    fn serialize_bytes(self, v: &[u8]) -> Result<(), Error> {
        self.out.push('[');
        for (i, b) in v.iter().enumerate() {
            if i > 0 {
                self.out.push(',');
            }
            let _ = write!(self.out, "{b}");
        }
        self.out.push(']');
        Ok(())
    }
    fn serialize_none(self) -> Result<(), Error> {
        self.out.push_str("null");
        Ok(())
    }
    fn serialize_some<T: Serialize + ?Sized>(self, v: &T) -> Result<(), Error> {
        v.serialize(self)
    }
    fn serialize_unit(self) -> Result<(), Error> {
        self.out.push_str("null");
        Ok(())
    }
    fn serialize_unit_struct(self, _: &'static str) -> Result<(), Error> {
        self.out.push_str("null");
        Ok(())
    }
    fn serialize_unit_variant(self, _: &'static str, _: u32, variant: &'static str) -> Result<(), Error> {
        write_str(self.out, variant);
        Ok(())
    }
    fn serialize_newtype_struct<T: Serialize + ?Sized>(self, _: &'static str, v: &T) -> Result<(), Error> {
        v.serialize(self)
    }
    fn serialize_newtype_variant<T: Serialize + ?Sized>(self, _: &'static str, _: u32, variant: &'static str, v: &T) -> Result<(), Error> {
        self.out.push('{');
        write_str(self.out, variant);
        self.out.push(':');
        v.serialize(W { out: self.out })?;
        self.out.push('}');
        Ok(())
    }
    fn serialize_seq(self, _len: Option<usize>) -> Result<Compound<'a>, Error> {
        self.out.push('[');
        Ok(Compound { out: self.out, first: true, close: "]" })
    }
    fn serialize_tuple(self, _: usize) -> Result<Compound<'a>, Error> {
        self.serialize_seq(None)
    }
    fn serialize_tuple_struct(self, _: &'static str, _: usize) -> Result<Compound<'a>, Error> {
        self.serialize_seq(None)
    }
    fn serialize_tuple_variant(self, _: &'static str, _: u32, variant: &'static str, _: usize) -> Result<Compound<'a>, Error> {
        self.out.push('{');
        write_str(self.out, variant);
        self.out.push_str(":[");
        Ok(Compound { out: self.out, first: true, close: "]}" })
    }
    fn serialize_map(self, _len: Option<usize>) -> Result<Compound<'a>, Error> {
        self.out.push('{');
        Ok(Compound { out: self.out, first: true, close: "}" })
    }
    fn serialize_struct(self, _: &'static str, _: usize) -> Result<Compound<'a>, Error> {
        self.serialize_map(None)
    }
    fn serialize_struct_variant(self, _: &'static str, _: u32, variant: &'static str, _: usize) -> Result<Compound<'a>, Error> {
        self.out.push('{');
        write_str(self.out, variant);
        self.out.push_str(":{");
        Ok(Compound { out: self.out, first: true, close: "}}" })
    }
}

impl<'a> ser::SerializeSeq for Compound<'a> {
    type Ok = ();
    type Error = Error;
    fn serialize_element<T: Serialize + ?Sized>(&mut self, v: &T) -> Result<(), Error> {
        self.sep();
        v.serialize(W { out: self.out })
    }
    fn end(self) -> Result<(), Error> {
        self.out.push_str(self.close);
        Ok(())
    }
}

impl<'a> ser::SerializeTuple for Compound<'a> {
    type Ok = ();
    type Error = Error;
    fn serialize_element<T: Serialize + ?Sized>(&mut self, v: &T) -> Result<(), Error> {
        ser::SerializeSeq::serialize_element(self, v)
    }
    fn end(self) -> Result<(), Error> {
        ser::SerializeSeq::end(self)
    }
}

impl<'a> ser::SerializeTupleStruct for Compound<'a> {
    type Ok = ();
    type Error = Error;
    fn serialize_field<T: Serialize + ?Sized>(&mut self, v: &T) -> Result<(), Error> {
        ser::SerializeSeq::serialize_element(self, v)
    }
    fn end(self) -> Result<(), Error> {
        ser::SerializeSeq::end(self)
    }
}

impl<'a> ser::SerializeTupleVariant for Compound<'a> {
    type Ok = ();
    type Error = Error;
    fn serialize_field<T: Serialize + ?Sized>(&mut self, v: &T) -> Result<(), Error> {
        ser::SerializeSeq::serialize_element(self, v)
    }
    fn end(self) -> Result<(), Error> {
        ser::SerializeSeq::end(self)
    }
}

impl<'a> ser::SerializeMap for Compound<'a> {
    type Ok = ();
    type Error = Error;
    fn serialize_key<T: Serialize + ?Sized>(&mut self, k: &T) -> Result<(), Error> {
        self.sep();
        // keys: the scalar forms serde_json accepts, written as strings
        let mut text = String::new();
        k.serialize(W { out: &mut text })?;
        if text.starts_with('"') {
            self.out.push_str(&text);
        } else if text.starts_with(['[', '{']) || text == "null" {
            return Err(Error("key must be a string".into()));
        } else {
            write_str(self.out, &text);
        }
        self.out.push(':');
        Ok(())
    }
    fn serialize_value<T: Serialize + ?Sized>(&mut self, v: &T) -> Result<(), Error> {
        v.serialize(W { out: self.out })
    }
    fn end(self) -> Result<(), Error> {
        self.out.push_str(self.close);
        Ok(())
    }
}

impl<'a> ser::SerializeStruct for Compound<'a> {
    type Ok = ();
    type Error = Error;
    fn serialize_field<T: Serialize + ?Sized>(&mut self, k: &'static str, v: &T) -> Result<(), Error> {
        self.sep();
        write_str(self.out, k);
        self.out.push(':');
        v.serialize(W { out: self.out })
    }
    fn end(self) -> Result<(), Error> {
        self.out.push_str(self.close);
        Ok(())
    }
}

impl<'a> ser::SerializeStructVariant for Compound<'a> {
    type Ok = ();
    type Error = Error;
    fn serialize_field<T: Serialize + ?Sized>(&mut self, k: &'static str, v: &T) -> Result<(), Error> {
        ser::SerializeStruct::serialize_field(self, k, v)
    }
    fn end(self) -> Result<(), Error> {
        ser::SerializeStruct::end(self)
    }
}
