//! Cases, expectations (what each capture mode promises for each kind of value, derived from the
//! property text) and the comparison of what a reader observes against them.

use std::fmt;

use serde::{Deserialize, Serialize};
use vcore::{Cx, Fail, Res};

use crate::derived::DSpec;
use crate::json;
use crate::node::{dec, Spec};
use crate::obs::{Hop, Obs, Read, Want};

pub const D17: &str = "sval-capture/nested-seq/serde-read";

#[derive(Serialize, Deserialize, Debug, Clone, Copy, PartialEq, Eq)]
pub enum Mode {
    /// no attribute
    Default,
    /// `#[emit::as_display]`
    Display,
    /// `#[emit::as_display(inspect: true)]`
    DisplayI,
    Debug,
    DebugI,
    Value,
    ValueI,
    Sval,
    SvalI,
    Serde,
    SerdeI,
    /// `#[emit::as_error]`
    Error,
    /// no attribute, well-known key (`lvl`, `err`, `trace_id`, `span_id`, `span_parent`)
    WellKnown,
}

impl Mode {
    pub fn class(self) -> &'static str {
        match self {
            Mode::Default => "mode:default",
            Mode::Display | Mode::DisplayI => "mode:display",
            Mode::Debug | Mode::DebugI => "mode:debug",
            Mode::Value | Mode::ValueI => "mode:value",
            Mode::Sval | Mode::SvalI => "mode:sval",
            Mode::Serde | Mode::SerdeI => "mode:serde",
            Mode::Error => "mode:error",
            Mode::WellKnown => "mode:well-known-key",
        }
    }
    pub fn inspect(self) -> bool {
        matches!(self, Mode::DisplayI | Mode::DebugI | Mode::ValueI | Mode::SvalI | Mode::SerdeI)
    }
}

/// `#[emit::optional]` wrapping of the call site.
#[derive(Serialize, Deserialize, Debug, Clone, Copy, PartialEq, Eq)]
pub enum Opt {
    /// no `#[emit::optional]`
    Plain,
    /// `#[emit::optional] v: Some(&x)`
    Some,
    /// `#[emit::optional] v: None`
    None,
}

/// The value at the call site (its variant is the STATIC TYPE of the captured expression).
#[derive(Serialize, Deserialize, Debug, Clone, PartialEq)]
pub enum Subj {
    I8(i8),
    I16(i16),
    I32(i32),
    I64(i64),
    I128(#[serde(with = "dec")] i128),
    Isize(i64),
    U8(u8),
    U16(u16),
    U32(u32),
    U64(u64),
    U128(#[serde(with = "dec")] u128),
    Usize(u64),
    /// bits
    F32(u32),
    /// bits
    F64(u64),
    Bool(bool),
    Char(char),
    /// `&str` borrowed from the case
    Str(String),
    /// `String` (captured by reference)
    String(String),
    /// `&'static str` literal (index into STATICS)
    Static(u8),
    /// a type with `Display` and `Debug` only (different texts)
    Disp(String),
    /// `&dyn Display` / `&dyn Debug`
    Dyn(String),
    /// `Option<i32>` (under as_value/as_serde/as_sval/as_debug: `None` is a null value, not an absent one)
    OptI32(Option<i32>),
    /// hand-written serde+sval structured value
    Node(Spec),
    /// derive-based structured value
    Derived(DSpec),
    /// error chain: message of the error followed by the messages of its sources (depth 0-4)
    Err(Vec<String>),
    /// the same as `&(dyn Error + 'static)`
    DynErr(Vec<String>),
    /// well-known keys
    Wk(Wk),
}

#[derive(Serialize, Deserialize, Debug, Clone, PartialEq)]
pub enum Wk {
    Lvl(u8),
    LvlStr(String),
    LvlOpt(Option<u8>),
    TraceId(#[serde(with = "dec")] u128),
    TraceIdNum(#[serde(with = "dec")] u128),
    TraceIdStr(String),
    TraceIdOpt(Option<u64>),
    SpanId(u64),
    SpanIdNum(u64),
    SpanIdStr(String),
    SpanIdOpt(Option<u64>),
    SpanParent(u64),
    SpanParentNum(u64),
    SpanParentStr(String),
    Err(Vec<String>),
    ErrStr(String),
    ErrDyn(Vec<String>),
}

#[derive(Serialize, Deserialize, Debug, Clone, PartialEq)]
pub struct Case {
    pub subj: Subj,
    pub mode: Mode,
    pub opt: Opt,
    pub hops: Vec<Hop>,
    /// also serialise the whole collection through `Props::as_map()`
    pub as_map: bool,
    /// the call site is `emit::emit!(rt: .., "c19 {v}", <attr> v: x)` (value interpolated in the
    /// template, event built by the macro, emitted through a `Runtime`, read inside the emitter)
    /// instead of `emit::props! { <attr> v: x }`
    #[serde(default)]
    pub emit_macro: bool,
    /// (emit! sites only) the event is handed to the real sinks -- rolling file, OTLP logs as JSON and as
    /// protobuf -- and the property is read back from what they wrote ("via each sink")
    #[serde(default)]
    pub sinks: bool,
    /// what the ambient context already holds under the case's key when an ambient hop pushes the props
    #[serde(default)]
    pub enclosing: crate::obs::Enclosing,
    /// the call site is `emit::dbg!(<attr> v: x)` (emits through the SHARED runtime; read inside the
    /// emitter installed there). `mode == Default` means no attribute: dbg! documents Debug capture.
    #[serde(default)]
    pub dbg_macro: bool,
    /// a second capture attribute written BEFORE the one in `mode` on the same property
    /// (`#[emit::as_<stacked>] #[emit::as_<mode>] v: x`), props! / emit! sites
    #[serde(default)]
    pub stacked: Option<Mode>,
    /// the fmt/value/sval/serde attribute in `mode` is written with `(inspect: false)` spelled out
    /// (ignored for the other modes and for stacked sites); promised: exactly the bare attribute
    #[serde(default)]
    pub inspect_false: bool,
}

impl Case {
    pub fn effective_inspect_false(&self) -> bool {
        self.inspect_false && self.stacked.is_none() && matches!(self.mode, Mode::Display | Mode::Debug | Mode::Value | Mode::Sval | Mode::Serde)
    }
}

pub const STATICS: [&str; 8] = ["", "static text", "info", "0000000000000001", "caf\u{e9} \u{1F600}", "line\nbreak\t\"q\"", "1.5", "null"];

// ---------------------------------------------------------------------------------------------
// auxiliary call-site types

/// Only `Display` and `Debug`, with different texts.
pub struct Disp(pub String);

impl fmt::Display for Disp {
    fn fmt(&self, f: &mut fmt::Formatter) -> fmt::Result {
        write!(f, "{}", self.0)
    }
}

impl fmt::Debug for Disp {
    fn fmt(&self, f: &mut fmt::Formatter) -> fmt::Result {
        write!(f, "Disp<{:?}>", self.0)
    }
}

#[derive(Debug)]
pub struct ChainErr {
    pub msg: String,
    pub source: Option<Box<ChainErr>>,
}

impl ChainErr {
    pub fn build(msgs: &[String]) -> ChainErr {
        let (first, rest) = match msgs.split_first() {
            Some((f, r)) => (f.clone(), r),
            None => (String::new(), &[][..]),
        };
        ChainErr { msg: first, source: if rest.is_empty() { None } else { Some(Box::new(ChainErr::build(rest))) } }
    }

    pub fn messages(&self) -> Vec<String> {
        let mut out = vec![self.msg.clone()];
        let mut cur = &self.source;
        while let Some(s) = cur {
            out.push(s.msg.clone());
            cur = &s.source;
        }
        out
    }
}

impl fmt::Display for ChainErr {
    fn fmt(&self, f: &mut fmt::Formatter) -> fmt::Result {
        f.write_str(&self.msg)
    }
}

impl std::error::Error for ChainErr {
    fn source(&self) -> Option<&(dyn std::error::Error + 'static)> {
        self.source.as_deref().map(|e| e as &(dyn std::error::Error + 'static))
    }
}

// ---------------------------------------------------------------------------------------------
// expectations

/// A signed 129-bit integer value: enough to compare any two Rust integers numerically.
#[derive(Debug, Clone, Copy, PartialEq, Eq)]
pub struct Big {
    pub neg: bool,
    pub mag: u128,
}

impl Big {
    pub fn i(v: i128) -> Big {
        Big { neg: v < 0, mag: v.unsigned_abs() }
    }
    pub fn u(v: u128) -> Big {
        Big { neg: false, mag: v }
    }
    pub fn as_f64(self) -> f64 {
        if self.neg {
            -(self.mag as f64)
        } else {
            self.mag as f64
        }
    }
}

#[derive(Debug, Clone, Copy, PartialEq, Eq)]
pub enum IntTy {
    I8,
    I16,
    I32,
    I64,
    I128,
    Isize,
    U8,
    U16,
    U32,
    U64,
    U128,
    Usize,
}

#[derive(Debug, Clone, PartialEq)]
pub enum Typed {
    Int(Big, IntTy),
    F64(f64),
    F32(f32),
    Bool(bool),
    /// text, and whether the original is a borrowed string that `&str` casts must see
    Str(String),
}

#[derive(Debug, Clone, Copy, PartialEq, Eq)]
pub enum Kind {
    Number,
    Bool,
    Str,
    Structured,
    /// chars, Display-only types, ids, levels
    Other,
    Error,
}

#[derive(Debug, Clone, Copy, PartialEq, Eq)]
pub enum Fw {
    Serde,
    Sval,
    /// a typed primitive (default / as_value capture of a number, bool or string): both renderings are promised
    Typed,
}

#[derive(Debug, Clone)]
pub struct JsonExpect {
    pub by: Fw,
    /// serde_json of the original
    pub a: Result<String, String>,
    /// sval_json of the original
    pub b: Result<String, String>,
    pub nested_seq: bool,
}

#[derive(Debug, Clone, Copy, PartialEq, Eq)]
pub enum Presence {
    Present,
    Absent,
    /// `Option::None` under a well-known key: the text does not say whether the property is absent or null
    AbsentOrNull,
}

#[derive(Debug, Clone)]
pub struct Expect {
    pub key: &'static str,
    pub presence: Presence,
    pub kind: Kind,
    /// exact `to_string()` of the captured value
    pub display: Option<String>,
    pub typed: Option<Typed>,
    pub json: Option<JsonExpect>,
    pub err_chain: Option<Vec<String>>,
    /// the value must be the null value
    pub null: bool,
    pub lvl: Option<Option<emit::Level>>,
    pub trace_id: Option<Option<emit::TraceId>>,
    pub span_id: Option<Option<emit::SpanId>>,
    /// formatting under non-default format specs
    pub specs: Option<SpecExpect>,
    /// If the primary expectation fails but this one holds, the outcome is one the property text
    /// leaves open (with the label given): counted as don't-care instead of a failure.
    pub alt: Option<(Box<Expect>, &'static str)>,
}

impl Expect {
    /// Append a further tolerated alternative at the end of the chain.
    pub fn or_else(&mut self, alt: Expect, label: &'static str) {
        let mut cur = self;
        while cur.alt.is_some() {
            cur = &mut cur.alt.as_mut().unwrap().0;
        }
        cur.alt = Some((Box::new(alt), label));
    }

    pub fn new(key: &'static str, kind: Kind) -> Expect {
        Expect {
            key,
            presence: Presence::Present,
            kind,
            display: None,
            typed: None,
            json: None,
            err_chain: None,
            null: false,
            lvl: None,
            trace_id: None,
            span_id: None,
            specs: None,
            alt: None,
        }
    }
    pub fn absent(key: &'static str) -> Expect {
        let mut e = Expect::new(key, Kind::Other);
        e.presence = Presence::Absent;
        e
    }
}

pub fn sj<T: Serialize + ?Sized>(v: &T) -> Result<String, String> {
    serde_json::to_string(v).map_err(|e| e.to_string())
}

pub fn vj<T: sval::Value + ?Sized>(v: &T) -> Result<String, String> {
    sval_json::stream_to_string(v).map_err(|e| e.to_string())
}

/// The original's own renderings, computed at the call site from the value of its static type.
#[derive(Debug, Clone)]
pub struct Orig {
    pub display: String,
    pub debug: String,
    /// serde_json of the original
    pub a: Result<String, String>,
    /// sval_json of the original
    pub b: Result<String, String>,
    /// `Display` of the original under every spec of `SPECS`
    pub pspec: Vec<String>,
    /// `Debug` of the original under every spec of `SPECS` followed by `DEBUG_ONLY_SPECS`
    pub dspec: Vec<String>,
}

pub fn orig<T: fmt::Display + fmt::Debug + Serialize + sval::Value + ?Sized>(x: &T) -> Orig {
    Orig { display: format!("{x}"), debug: format!("{x:?}"), a: sj(x), b: vj(x), pspec: display_table(x), dspec: debug_table(x) }
}

// ---------------------------------------------------------------------------------------------
// formatter specs: the CONSUMER's format spec (alternate flag, width, fill, alignment, sign, zero padding,
// precision, debug-hex) must reach the original value's own `Display` / `Debug` impl

/// Format specs that exist for both traits: `{:S}` (Display) and `{:S?}` (Debug).
pub const SPECS: [&str; 11] = ["", "#", ">12", "<8", "^9", "08", "+", ".3", "*>10.2", "+09.1", "#012.1"];
/// Debug-only flags: `{:x?}`, `{:#X?}` (indices `SPECS.len()..` of a debug table).
pub const DEBUG_ONLY_SPECS: [&str; 2] = ["x", "#X"];

/// How the spec at index `i` of a debug table is spelled.
pub fn debug_spec_name(i: usize) -> String {
    format!("{{:{}?}}", if i < SPECS.len() { SPECS[i] } else { DEBUG_ONLY_SPECS[i - SPECS.len()] })
}

pub fn display_spec_name(i: usize) -> String {
    format!("{{:{}}}", SPECS[i])
}

/// `Display` of `x` under every spec of `SPECS` (same order).
pub fn display_table<T: fmt::Display + ?Sized>(x: &T) -> Vec<String> {
    vec![
        format!("{}", x),
        format!("{:#}", x),
        format!("{:>12}", x),
        format!("{:<8}", x),
        format!("{:^9}", x),
        format!("{:08}", x),
        format!("{:+}", x),
        format!("{:.3}", x),
        format!("{:*>10.2}", x),
        format!("{:+09.1}", x),
        format!("{:#012.1}", x),
    ]
}

/// `Debug` of `x` under every spec of `SPECS` followed by `DEBUG_ONLY_SPECS` (same order).
pub fn debug_table<T: fmt::Debug + ?Sized>(x: &T) -> Vec<String> {
    vec![
        format!("{:?}", x),
        format!("{:#?}", x),
        format!("{:>12?}", x),
        format!("{:<8?}", x),
        format!("{:^9?}", x),
        format!("{:08?}", x),
        format!("{:+?}", x),
        format!("{:.3?}", x),
        format!("{:*>10.2?}", x),
        format!("{:+09.1?}", x),
        format!("{:#012.1?}", x),
        format!("{:x?}", x),
        format!("{:#X?}", x),
    ]
}

/// What formatting the captured `Value` under non-default format specs must give.
#[derive(Debug, Clone)]
pub struct SpecExpect {
    /// the capture promises a typed number / boolean / string (default capture, `as_value`): the clause is
    /// kept after buffering; the debug-hex flags are not asserted (integers are stored widened)
    pub typed: bool,
    /// `format!("{:S}", value)` for every `S` of `SPECS`
    pub via_display: Vec<String>,
    /// `format!("{:S?}", value)` for every `S` of `SPECS` + `DEBUG_ONLY_SPECS`; `None`: the text does not
    /// say what the `Debug` impl of a value captured this way shows
    pub via_debug: Option<Vec<String>>,
}

impl SpecExpect {
    /// captured through `Debug` (`as_debug`, `dbg!`): both traits of the value forward to the original's `Debug`
    pub fn debug_capture(dspec: &[String]) -> SpecExpect {
        SpecExpect { typed: false, via_display: dspec[..SPECS.len()].to_vec(), via_debug: Some(dspec.to_vec()) }
    }
    /// captured through `Display` (`as_display`, default capture of a non-primitive)
    pub fn display_capture(pspec: &[String]) -> SpecExpect {
        SpecExpect { typed: false, via_display: pspec.to_vec(), via_debug: None }
    }
    /// a typed number / boolean / string: it formats as the original does, through either trait
    pub fn typed_capture(pspec: &[String], dspec: &[String]) -> SpecExpect {
        SpecExpect { typed: true, via_display: pspec.to_vec(), via_debug: Some(dspec.to_vec()) }
    }
}

/// Expectation for a value of a primitive-like static type (number, bool, string, char).
pub fn expect_prim(x: &Orig, kind: Kind, typed: Option<Typed>, mode: Mode, is_str_slice: bool) -> Expect {
    let mut e = Expect::new("v", kind);
    // format specs are not asserted under the well-known keys / `as_error` (a string there is the only
    // primitive case and the text is about ids, levels and error chains)
    let spec_clause = !matches!(mode, Mode::WellKnown | Mode::Error);
    let default = |e: &mut Expect| match &typed {
        // numbers, booleans and strings come back as the same typed value ...
        Some(t) => {
            e.typed = Some(t.clone());
            if !matches!(t, Typed::F32(_)) {
                e.json = Some(JsonExpect { by: Fw::Typed, a: x.a.clone(), b: x.b.clone(), nested_seq: false });
                // ... which formats exactly as the original does, whatever spec the consumer uses
                if spec_clause {
                    e.specs = Some(SpecExpect::typed_capture(&x.pspec, &x.dspec));
                }
            }
        }
        // ... anything else displays as its Display text
        None => {
            e.display = Some(x.display.clone());
            if spec_clause {
                e.specs = Some(SpecExpect::display_capture(&x.pspec));
            }
        }
    };
    match mode {
        Mode::Default | Mode::Value | Mode::ValueI | Mode::WellKnown | Mode::Error => default(&mut e),
        Mode::Display | Mode::DisplayI => {
            e.display = Some(x.display.clone());
            e.specs = Some(SpecExpect::display_capture(&x.pspec));
        }
        Mode::Debug | Mode::DebugI => {
            e.display = Some(x.debug.clone());
            e.specs = Some(SpecExpect::debug_capture(&x.dspec));
        }
        Mode::Serde | Mode::SerdeI => e.json = Some(JsonExpect { by: Fw::Serde, a: x.a.clone(), b: x.b.clone(), nested_seq: false }),
        Mode::Sval | Mode::SvalI => e.json = Some(JsonExpect { by: Fw::Sval, a: x.a.clone(), b: x.b.clone(), nested_seq: false }),
    }
    // `inspect: true` (undocumented; the repository's own tests use it to get a typed primitive back
    // out of an `as_display` capture) and every capture of a `str` (which emit deliberately stores
    // as the string itself under every attribute) may legitimately behave like the default capture.
    let fmt_mode = matches!(mode, Mode::Display | Mode::DisplayI | Mode::Debug | Mode::DebugI);
    if (mode.inspect() && !matches!(mode, Mode::ValueI)) || (fmt_mode && is_str_slice) {
        let mut alt = Expect::new("v", kind);
        default(&mut alt);
        e.alt = Some((Box::new(alt), if is_str_slice { "dontcare:str-captured-as-string-under-fmt-attribute" } else { "dontcare:inspect-captures-typed-primitive" }));
    }
    e
}

/// Expectation for a structured value.
pub fn expect_structured<T: fmt::Debug + Serialize + sval::Value + ?Sized>(x: &T, mode: Mode, nested_seq: bool) -> Expect {
    let mut e = Expect::new("v", Kind::Structured);
    match mode {
        Mode::Debug | Mode::DebugI => {
            let dspec = debug_table(x);
            e.display = Some(dspec[0].clone());
            e.specs = Some(SpecExpect::debug_capture(&dspec));
        }
        Mode::Serde | Mode::SerdeI => e.json = Some(JsonExpect { by: Fw::Serde, a: sj(x), b: vj(x), nested_seq }),
        Mode::Sval | Mode::SvalI => e.json = Some(JsonExpect { by: Fw::Sval, a: sj(x), b: vj(x), nested_seq }),
        _ => unreachable!("mode {mode:?} is not stamped out for structured values"),
    }
    e
}

/// The integer an f64 denotes exactly, if it denotes one.
fn big_from_f64(f: f64) -> Option<Big> {
    if !f.is_finite() || f.fract() != 0.0 || f.abs() >= 3.402823669209385e38 {
        return None;
    }
    let mag = f.abs() as u128;
    Some(Big { neg: f < 0.0 && mag != 0, mag })
}

fn f64_same(a: f64, b: f64) -> bool {
    (a.is_nan() && b.is_nan()) || a.to_bits() == b.to_bits()
}

fn int_casts(o: &Obs) -> [(IntTy, Option<Big>); 12] {
    let c = &o.casts;
    [
        (IntTy::I8, c.i8.map(|v| Big::i(v as i128))),
        (IntTy::I16, c.i16.map(|v| Big::i(v as i128))),
        (IntTy::I32, c.i32.map(|v| Big::i(v as i128))),
        (IntTy::I64, c.i64.map(|v| Big::i(v as i128))),
        (IntTy::I128, c.i128.map(Big::i)),
        (IntTy::Isize, c.isize.map(|v| Big::i(v as i128))),
        (IntTy::U8, c.u8.map(|v| Big::u(v as u128))),
        (IntTy::U16, c.u16.map(|v| Big::u(v as u128))),
        (IntTy::U32, c.u32.map(|v| Big::u(v as u128))),
        (IntTy::U64, c.u64.map(|v| Big::u(v as u128))),
        (IntTy::U128, c.u128.map(Big::u)),
        (IntTy::Usize, c.usize.map(|v| Big::u(v as u128))),
    ]
}

struct Eval {
    fails: Vec<Fail>,
    dont_care: Vec<&'static str>,
    classes: Vec<&'static str>,
}

impl Eval {
    fn fail(&mut self, sig: &str, msg: String) {
        self.fails.push(Fail::new(sig, msg));
    }
}

fn eval_typed(t: &Typed, o: &Obs, buffered: bool, ev: &mut Eval, at: &str) {
    match t {
        Typed::Int(v, ty) => {
            for (target, got) in int_casts(o) {
                match got {
                    Some(w) if w != *v => ev.fail("typed/int-cast-wrong-number", format!("{at}: {ty:?} {v:?} cast to {target:?} gave {w:?}")),
                    None if target == *ty => ev.fail("typed/int-not-pulled-back", format!("{at}: {ty:?} {v:?} cannot be pulled back as {target:?}")),
                    _ => {}
                }
            }
            if let Some(f) = o.casts.f64 {
                // an integer may or may not cast to f64 (undocumented); if it does it must be the same number
                if big_from_f64(f) != Some(*v) {
                    ev.fail("typed/int-cast-wrong-number", format!("{at}: {ty:?} {v:?} cast to f64 gave {f:?}"));
                }
            }
            // documented on Value::as_f64: numeric values convert with `as`
            if !f64_same(o.as_f64, v.as_f64()) {
                ev.fail("typed/as_f64", format!("{at}: {ty:?} {v:?}.as_f64() gave {:?}, expected {:?}", o.as_f64, v.as_f64()));
            }
        }
        Typed::F64(v) => {
            match o.casts.f64 {
                Some(w) if f64_same(w, *v) => {}
                other => ev.fail("typed/f64-not-pulled-back", format!("{at}: f64 {v:?} pulled back as {other:?}")),
            }
            for (target, got) in int_casts(o) {
                if let Some(w) = got {
                    if big_from_f64(*v) != Some(w) {
                        ev.fail("typed/float-cast-wrong-number", format!("{at}: f64 {v:?} cast to {target:?} gave {w:?}"));
                    }
                }
            }
            if !f64_same(o.as_f64, *v) && !(v.is_nan() && o.as_f64.is_nan()) {
                ev.fail("typed/as_f64", format!("{at}: f64 {v:?}.as_f64() gave {:?}", o.as_f64));
            }
        }
        Typed::F32(v) => {
            // there is no FromValue for f32: the same typed value is its exact f64 widening
            let wide = *v as f64;
            match o.casts.f64 {
                Some(w) if f64_same(w, wide) => {}
                other => ev.fail("typed/f32-not-pulled-back", format!("{at}: f32 {v:?} pulled back (as f64) as {other:?}")),
            }
            if !f64_same(o.as_f64, wide) {
                ev.fail("typed/as_f64", format!("{at}: f32 {v:?}.as_f64() gave {:?}", o.as_f64));
            }
        }
        Typed::Bool(v) => {
            if o.casts.bool != Some(*v) {
                ev.fail("typed/bool-not-pulled-back", format!("{at}: bool {v} pulled back as {:?}", o.casts.bool));
            }
        }
        Typed::Str(s) => {
            for (name, got) in [("String", &o.casts.string), ("Cow<str>", &o.casts.cow), ("emit::Str", &o.casts.estr)] {
                if got.as_deref() != Some(s.as_str()) {
                    ev.fail("typed/str-not-pulled-back", format!("{at}: string {s:?} pulled back as {name} gave {got:?}"));
                }
            }
            for (name, got) in [("&str", &o.casts.str_ref), ("to_borrowed_str", &o.casts.borrowed)] {
                match got {
                    Some(g) if g == s => {}
                    // documented: `&str` only casts while the value is still the original borrowed string
                    None if buffered => ev.dont_care.push("dontcare:borrowed-str-after-buffering"),
                    other => ev.fail("typed/str-not-pulled-back", format!("{at}: string {s:?} pulled back as {name} gave {other:?}")),
                }
            }
            // documented on Value::as_f64 / Value::parse: a string is parsed
            let want = s.parse::<f64>().unwrap_or(f64::NAN);
            if !f64_same(o.as_f64, want) && !(want.is_nan() && o.as_f64.is_nan()) {
                ev.fail("typed/as_f64", format!("{at}: string {s:?}.as_f64() gave {:?}, expected {want:?}", o.as_f64));
            }
        }
    }
}

fn both_err_or_eq(got: &Result<String, String>, want: &Result<String, String>) -> bool {
    match (got, want) {
        (Ok(a), Ok(b)) => a == b,
        // the serializer refuses the original in the same way it refuses the captured value; the
        // error text itself is not part of the promise
        (Err(_), Err(_)) => true,
        _ => false,
    }
}

fn eval_json(j: &JsonExpect, o: &Obs, ev: &mut Eval, at: &str) {
    // same framework: exactly the original's output
    if matches!(j.by, Fw::Serde | Fw::Typed) && !both_err_or_eq(&o.serde, &j.a) {
        ev.fail(
            if j.by == Fw::Serde { "serde-capture/serde-read/differs" } else { "typed-capture/serde-read/differs" },
            format!("{at}: serde_json(captured) = {:?}, serde_json(original) = {:?}", o.serde, j.a),
        );
    }
    if matches!(j.by, Fw::Sval | Fw::Typed) && !both_err_or_eq(&o.sval, &j.b) {
        ev.fail(
            if j.by == Fw::Sval { "sval-capture/sval-read/differs" } else { "typed-capture/sval-read/differs" },
            format!("{at}: sval_json(captured) = {:?}, sval_json(original) = {:?}", o.sval, j.b),
        );
    }
    if j.by == Fw::Typed {
        return;
    }
    // cross framework: only comparable when the original's own two renderings denote the same document
    let comparable = match (&j.a, &j.b) {
        (Ok(a), Ok(b)) => match (json::parse(a), json::parse(b)) {
            (Ok(pa), Ok(pb)) => json::same(&pa, &pb),
            _ => false,
        },
        _ => false,
    };
    if !comparable {
        ev.dont_care.push("dontcare:cross-framework-noncomparable");
        return;
    }
    ev.classes.push("cross:comparable");
    let (other, reference, sig) = match j.by {
        Fw::Serde => (&o.sval, j.a.as_ref().unwrap(), "serde-capture/sval-read/json-mismatch"),
        _ => (&o.serde, j.b.as_ref().unwrap(), "sval-capture/serde-read/json-mismatch"),
    };
    let ok = match other {
        Ok(text) => match (json::parse(text), json::parse(reference)) {
            (Ok(x), Ok(y)) => json::same(&x, &y),
            _ => false,
        },
        Err(_) => false,
    };
    if !ok {
        // D17: exactly "captured via sval, read via serde, a non-empty sequence nested in another
        // container, serde_json's output is not the document" AND a serde serializer that ignores the
        // sequence length hint does see the right document (so the wrong hint is all that is wrong).
        let mut sig = sig;
        let mut extra = String::new();
        if j.by == Fw::Sval && j.nested_seq {
            let hint_only = match &o.serde_nohint {
                Some(Ok(text)) => match (json::parse(text), json::parse(reference)) {
                    (Ok(x), Ok(y)) => json::same_with(&x, &y, true),
                    _ => false,
                },
                _ => false,
            };
            if hint_only {
                sig = D17;
            } else {
                sig = "sval-capture/serde-read/structure-mismatch";
                extra = format!("; a length-hint-insensitive serde writer renders it as {:?}", o.serde_nohint);
            }
        }
        ev.fail(sig, format!("{at}: the other framework renders the captured value as {other:?}, the capturing framework renders the original as {reference:?}{extra}"));
    }
}

pub const SPEC_DEBUG_READ: &str = "fmt-spec:debug-capture/unbuffered-read";
pub const SPEC_DEBUG_PRETTY: &str = "fmt-spec:debug-capture/pretty-form-differs-from-compact";
pub const SPEC_DISPLAY_READ: &str = "fmt-spec:display-capture/unbuffered-read";
pub const SPEC_TYPED_READ: &str = "fmt-spec:typed-capture/unbuffered-read";
pub const SPEC_TYPED_BUFFERED: &str = "fmt-spec:typed-capture/after-buffering";
pub const SPEC_TYPED_OWNED: &str = "fmt-spec:typed-capture/owned-value-itself";
pub const SPEC_DONTCARE: &str = "dontcare:format-flags-after-buffering-a-formatted-capture";

/// The consumer's format spec must reach the original's own `Display` / `Debug` impl: the captured value
/// formatted under `{:S}` / `{:S?}` equals the original formatted under the spec its capture mode maps to.
fn eval_specs(sp: &SpecExpect, so: &crate::obs::SpecObs, kind: Kind, buffered: bool, ev: &mut Eval, at: &str) {
    let n = SPECS.len();
    let typed = sp.typed && matches!(kind, Kind::Number | Kind::Bool | Kind::Str);
    let compare = |got_display: &[String], got_debug: &[String], hex: bool| -> Vec<(bool, usize, String, String)> {
        let mut out = Vec::new();
        for i in 0..n {
            if got_display[i] != sp.via_display[i] {
                out.push((false, i, got_display[i].clone(), sp.via_display[i].clone()));
            }
        }
        if let Some(w) = &sp.via_debug {
            for i in 0..(if hex { w.len() } else { n }) {
                if got_debug[i] != w[i] {
                    out.push((true, i, got_debug[i].clone(), w[i].clone()));
                }
            }
        }
        out
    };
    let report = |ev: &mut Eval, what: &str, diffs: Vec<(bool, usize, String, String)>| {
        for (dbg, i, got, want) in diffs {
            if dbg {
                ev.fail("format-spec/debug-trait-read-differs", format!("{at}: format!({:?}, {what}) = {got:?}, the capture mode promises {want:?}", debug_spec_name(i)));
            } else {
                ev.fail("format-spec/display-trait-read-differs", format!("{at}: format!({:?}, {what}) = {got:?}, the capture mode promises {want:?}", display_spec_name(i)));
            }
        }
    };
    if !buffered {
        // the original's own impl is still what formats: every flag must arrive there
        ev.classes.push(if typed {
            SPEC_TYPED_READ
        } else if sp.via_debug.is_some() {
            SPEC_DEBUG_READ
        } else {
            SPEC_DISPLAY_READ
        });
        if let (Some(w), false) = (&sp.via_debug, typed) {
            if w[0] != w[1] {
                ev.classes.push(SPEC_DEBUG_PRETTY);
            }
        }
        // (a typed integer is stored widened -- i32 as i64, in an owned value as i128 -- and `{:x?}` of a
        // negative number shows the storage width: the debug-hex flags are not asserted for typed captures)
        report(ev, "value", compare(&so.display, &so.debug, !typed));
    } else if typed {
        // numbers, booleans and strings survive buffering unchanged
        ev.classes.push(SPEC_TYPED_BUFFERED);
        report(ev, "value", compare(&so.display, &so.debug, false));
    } else if !compare(&so.display, &so.debug, true).is_empty() {
        // a formatted capture is buffered as text: flags that are not plain padding act on the text
        ev.dont_care.push(SPEC_DONTCARE);
    }
    // "copied into an owned value": the OwnedValue's own impls, for numbers, booleans and strings
    if let (Some((od, og)), true) = (&so.owned, typed) {
        ev.classes.push(SPEC_TYPED_OWNED);
        report(ev, "value.to_owned()", compare(od, og, false));
    }
}

fn eval_one(exp: &Expect, o: &Obs, buffered: bool, ev: &mut Eval, at: &str) {
    if exp.null && !o.is_null {
        ev.fail("null/not-null", format!("{at}: expected the null value, got {:?}", o.display));
    }
    if let Some(d) = &exp.display {
        if o.display != *d {
            // buffering is only promised for numbers, booleans, strings and structured values
            if buffered && matches!(exp.kind, Kind::Other | Kind::Error) {
                ev.dont_care.push("dontcare:non-primitive-display-after-buffering");
            } else {
                ev.fail("format/text-differs", format!("{at}: to_string() = {:?}, expected {d:?}", o.display));
            }
        }
    }
    if let Some(t) = &exp.typed {
        eval_typed(t, o, buffered, ev, at);
    }
    if let (Some(sp), Some(so)) = (&exp.specs, &o.specs) {
        eval_specs(sp, so, exp.kind, buffered, ev, at);
    }
    if let Some(chain) = &exp.err_chain {
        if buffered {
            // errors are not among the values promised to survive buffering
            if o.err_chain.as_ref() != Some(chain) {
                ev.dont_care.push("dontcare:error-after-buffering");
            }
        } else {
            if o.err_chain.as_ref() != Some(chain) {
                ev.fail("error/chain-differs", format!("{at}: to_borrowed_error() chain = {:?}, expected {chain:?}", o.err_chain));
            }
            if o.err_cast.as_ref() != Some(chain) {
                ev.fail("error/chain-differs", format!("{at}: cast::<&dyn Error>() chain = {:?}, expected {chain:?}", o.err_cast));
            }
        }
    }
    // a Level / TraceId / SpanId *object* is not a number, boolean, string or structured value: only
    // promised on unbuffered paths (ids given as numbers or strings are promised everywhere)
    let open = buffered && exp.kind == Kind::Other;
    let id_check = |ok: bool, sig: &str, msg: String, ev: &mut Eval| {
        if !ok {
            if open {
                ev.dont_care.push("dontcare:id-object-after-buffering");
            } else {
                ev.fail(sig, msg);
            }
        }
    };
    if let Some(l) = &exp.lvl {
        id_check(o.lvl == *l, "well-known/level", format!("{at}: pull::<Level>() = {:?}, expected {l:?}", o.lvl), ev);
    }
    if let Some(t) = &exp.trace_id {
        id_check(o.trace_id == *t, "well-known/trace-id", format!("{at}: pull::<TraceId>() = {:?}, expected {t:?}", o.trace_id), ev);
    }
    if let Some(s) = &exp.span_id {
        id_check(o.span_id == *s, "well-known/span-id", format!("{at}: pull::<SpanId>() = {:?}, expected {s:?}", o.span_id), ev);
    }
    // last, so that a D17 hit does not hide anything else about this read
    if let Some(j) = &exp.json {
        eval_json(j, o, ev, at);
    }
}

fn eval_read(exp: &Expect, r: &Read, buffered: bool, ev: &mut Eval, at: &str) {
    match exp.presence {
        Presence::Absent => {
            if r.got.is_some() || r.enumerated != 0 {
                ev.fail(
                    "optional/none-present",
                    format!("{at}: an optional None must contribute no property; get = {:?}, enumerated {} times", r.got.as_ref().map(|o| &o.display), r.enumerated),
                );
            }
            if let Some(m) = &r.map_serde {
                if r.total == 0 && m.as_deref() != Ok("{}") {
                    ev.fail("optional/none-present", format!("{at}: as_map() of the empty collection serialises as {m:?}"));
                }
            }
            return;
        }
        Presence::AbsentOrNull => {
            match &r.got {
                None if r.enumerated == 0 => ev.dont_care.push("dontcare:well-known-none-absent"),
                Some(o) if o.is_null && r.enumerated == 1 => ev.dont_care.push("dontcare:well-known-none-null"),
                other => ev.fail("well-known/none-has-value", format!("{at}: None under a well-known key reads as {:?}", other.as_ref().map(|o| &o.display))),
            }
            return;
        }
        Presence::Present => {}
    }
    let Some(o) = &r.got else {
        ev.fail("lookup/missing", format!("{at}: get({:?}) = None (enumerated {} times)", exp.key, r.enumerated));
        return;
    };
    if r.enumerated != 1 {
        ev.fail("lookup/enumeration-count", format!("{at}: key {:?} enumerated {} times", exp.key, r.enumerated));
    }
    if r.first_enumerated.as_deref() != Some(o.display.as_str()) {
        ev.fail("lookup/enumeration-differs", format!("{at}: enumeration shows {:?}, get shows {:?}", r.first_enumerated, o.display));
    }
    eval_one(exp, o, buffered, ev, at);
    // the whole collection through Props::as_map(): same-framework text embeds the value's text
    if let (Some(j), true) = (&exp.json, r.total == 1) {
        let key = serde_json::to_string(exp.key).unwrap();
        if let (Some(m), Ok(a), true) = (&r.map_serde, &j.a, matches!(j.by, Fw::Serde | Fw::Typed)) {
            if m.as_deref() != Ok(format!("{{{key}:{a}}}").as_str()) {
                ev.fail("as-map/serde-differs", format!("{at}: serde_json(as_map) = {m:?}, value alone = {a:?}"));
            }
        }
        if let (Some(m), Ok(b), true) = (&r.map_sval, &j.b, matches!(j.by, Fw::Sval | Fw::Typed)) {
            if m.as_deref() != Ok(format!("{{{key}:{b}}}").as_str()) {
                ev.fail("as-map/sval-differs", format!("{at}: sval_json(as_map) = {m:?}, value alone = {b:?}"));
            }
        }
    }
}

/// Compare every read along the path with the expectation.
pub fn judge(exp: &Expect, hops: &[Hop], reads: &[Read], cx: &mut Cx) -> Res {
    for r in reads {
        if let Some(label) = r.enclosing {
            cx.class(label);
        }
        let prefix = &hops[..r.hops];
        let buffered = prefix.iter().any(|h| h.buffers());
        let at = if prefix.is_empty() { "direct".to_string() } else { format!("after {prefix:?}") };
        let mut ev = Eval { fails: Vec::new(), dont_care: Vec::new(), classes: Vec::new() };
        eval_read(exp, r, buffered, &mut ev, &at);
        // walk the chain of tolerated alternatives: the first one that holds turns the outcome into a
        // (labelled) don't-care; if none holds the PRIMARY failures are reported
        let mut cur = exp;
        let mut holds = ev.fails.is_empty();
        while !holds {
            let Some((alt, label)) = &cur.alt else { break };
            let mut ev2 = Eval { fails: Vec::new(), dont_care: Vec::new(), classes: Vec::new() };
            eval_read(alt, r, buffered, &mut ev2, &at);
            if ev2.fails.is_empty() {
                ev2.dont_care.push(label);
                ev = ev2;
                holds = true;
            }
            cur = alt;
        }
        for c in ev.classes {
            cx.class(c);
        }
        for d in ev.dont_care {
            cx.dont_care();
            cx.class(d);
        }
        for f in ev.fails {
            cx.fail(f.sig, f.msg)?;
        }
    }
    Ok(())
}

pub fn want_for(case: &Case) -> Want {
    let nohint = matches!(case.mode, Mode::Sval | Mode::SvalI)
        && match &case.subj {
            Subj::Node(spec) => spec.build().shape().nested_seq,
            Subj::Derived(d) => crate::derived::nested_seq(d),
            _ => false,
        };
    // non-default format specs: only where the capture mode has a formatting clause; the OwnedValue copy
    // only for the small subjects (numbers, booleans, strings: what the text promises for owned copies)
    let specs = match case.mode {
        Mode::Default | Mode::Value | Mode::ValueI | Mode::Display | Mode::DisplayI | Mode::Debug | Mode::DebugI => match &case.subj {
            Subj::Node(_) | Subj::Derived(_) | Subj::Err(_) | Subj::DynErr(_) | Subj::Wk(_) => 1,
            _ => 2,
        },
        _ => 0,
    };
    Want { ids: matches!(case.subj, Subj::Wk(_)), as_map: case.as_map, nohint, enc: case.enclosing, specs }
}
