//! Shadowed keys: the SAME key captured at the call site and ALSO present, with a value of a different type,
//! in each of the places an event's props are joined with others -- `props:` base props, an `evt:` base
//! event, ambient context frames, the context a span pushed, the completion event of a span.
//!
//! The property text: "a value captured at a macro call site is observed downstream with the meaning its
//! capture mode promises ... numbers, booleans and strings can be pulled back as the same typed value ...
//! when the property is read directly or through a type-erased event". What a reader observes for the key
//! is therefore the call-site value with its captured type, on EVERY typed read path: a typed read of
//! another type (`pull::<T>`, `get(..).cast::<T>()`, the `Value::to_*` accessors; generic, `&dyn
//! ErasedProps`, `dedup()`, `as_map()`, erased event, inside a generic `Filter`) answers exactly what the
//! same read of the call-site value ALONE answers -- it never falls through to a shadowed value.
//!
//! Oracle: (a) every typed view of the key on the joined props equals the view of the stand-alone
//! `emit::props! { <attr> v: x }` of the same site (differential, every `FromValue` type of emit);
//! (b) the de-duplicated joined props satisfy the established absolute clauses (`check::judge`) for the key.

use std::borrow::Cow;
use std::cell::{Cell, RefCell};
use std::ops::ControlFlow;

use emit::event::ToEvent;
use emit::platform::thread_local_ctxt::ThreadLocalCtxt;
use emit::props::ErasedProps;
use emit::value::{FromValue, OwnedValue, ToValue};
use emit::{Props, Str, Value};
use serde::{Deserialize, Serialize};
use vcore::proptest::prelude::*;
use vcore::{pick, Cx, Fail, Res};

use crate::check::{self, expect_prim, orig, sj, vj, Expect, IntTy, Kind, Mode, Orig, Subj, Typed};
use crate::node::{self, dec};
use crate::obs::{self, Hop, Want};
use crate::sites::{int_typed_i, int_typed_u, str_expect};

pub const KEY: &str = "v";

/// Where the shadowed duplicate(s) of the key live.
#[derive(Serialize, Deserialize, Debug, Clone, Copy, PartialEq, Eq)]
pub enum Place {
    /// `emit::props! { v: x }.and_props(base)`, read directly
    AndProps,
    /// `emit::evt!(props: base, "..", v: x)`, the event read directly
    EvtBaseProps,
    /// `emit::emit!(rt, props: base, "..", v: x)`; a second shadow sits in the ambient context
    EmitBaseProps,
    /// `emit::emit!(rt, "..", v: x)` inside a pushed frame that holds the key (a second shadow in an
    /// enclosing frame)
    EmitAmbient,
    /// `emit::emit!(rt, evt: emit::evt!(props: base, ".."), "..", v: x)`; a second shadow in the ambient context
    EmitBaseEvent,
    /// `emit::new_span!(rt, "..", v: <shadow>)`, completed manually with
    /// `emit::emit!(rt, evt: span, "..", v: x)` (book: manual span completion); a second shadow in an enclosing frame
    SpanCompletion,
    /// `emit::new_span!(rt, "..", v: x)` completed by its default completion, inside frames that hold the key:
    /// the span's begin filter sees the call-site props joined with the span and the current context, the
    /// completion event sees the completion props joined with the span and the context the span pushed
    SpanProps,
}

impl Place {
    pub fn label(self) -> &'static str {
        match self {
            Place::AndProps => "shadow:place/and_props",
            Place::EvtBaseProps => "shadow:place/evt-base-props",
            Place::EmitBaseProps => "shadow:place/emit-base-props",
            Place::EmitAmbient => "shadow:place/emit-ambient-frame",
            Place::EmitBaseEvent => "shadow:place/emit-base-event",
            Place::SpanCompletion => "shadow:place/span-props-vs-completion-call",
            Place::SpanProps => "shadow:place/span-call-vs-enclosing-frames",
        }
    }
    pub const ALL: [Place; 7] = [Place::AndProps, Place::EvtBaseProps, Place::EmitBaseProps, Place::EmitAmbient, Place::EmitBaseEvent, Place::SpanCompletion, Place::SpanProps];
}

/// The shadowed value (built at run time; never the call site's own static type, see `resolve`).
#[derive(Serialize, Deserialize, Debug, Clone, PartialEq)]
pub enum ShadowVal {
    I8(i8),
    I16(i16),
    I32(i32),
    I64(i64),
    I128(#[serde(with = "dec")] i128),
    Isize(i64),
    U8(u8),
    U16(u16),
    U32(u32),
    U64(u64),
    U128(#[serde(with = "dec")] u128),
    Usize(u64),
    /// bits
    F64(u64),
    Bool(bool),
    Str(String),
    /// the call-site value's Display text as a string (a Display-only value when the site is a string)
    SiteText,
    Null,
    Level(u8),
    TraceId(#[serde(with = "dec")] u128),
    SpanId(u64),
    /// a Display-only value
    Disp(String),
}

/// A value in a joined collection: owned, except for the id objects, which stay typed.
pub enum SV {
    Owned(OwnedValue),
    Lvl(emit::Level),
    Trace(emit::TraceId),
    Span(emit::SpanId),
}

impl ToValue for SV {
    fn to_value(&self) -> Value<'_> {
        match self {
            SV::Owned(v) => v.to_value(),
            SV::Lvl(v) => v.to_value(),
            SV::Trace(v) => v.to_value(),
            SV::Span(v) => v.to_value(),
        }
    }
}

fn owned<'a>(v: impl Into<Value<'a>>) -> SV {
    SV::Owned(v.into().to_owned())
}

#[derive(Debug, Clone, Copy, PartialEq, Eq)]
pub enum TyClass {
    Int,
    Float,
    Bool,
    Str,
    Other,
}

impl TyClass {
    fn name(self) -> &'static str {
        match self {
            TyClass::Int => "int",
            TyClass::Float => "float",
            TyClass::Bool => "bool",
            TyClass::Str => "str",
            TyClass::Other => "other",
        }
    }
}

/// (class, name of the Rust type) of the call site's static type.
fn site_type(s: &Subj) -> (TyClass, &'static str) {
    match s {
        Subj::I8(_) => (TyClass::Int, "i8"),
        Subj::I16(_) => (TyClass::Int, "i16"),
        Subj::I32(_) => (TyClass::Int, "i32"),
        Subj::I64(_) => (TyClass::Int, "i64"),
        Subj::I128(_) => (TyClass::Int, "i128"),
        Subj::Isize(_) => (TyClass::Int, "isize"),
        Subj::U8(_) => (TyClass::Int, "u8"),
        Subj::U16(_) => (TyClass::Int, "u16"),
        Subj::U32(_) => (TyClass::Int, "u32"),
        Subj::U64(_) => (TyClass::Int, "u64"),
        Subj::U128(_) => (TyClass::Int, "u128"),
        Subj::Usize(_) => (TyClass::Int, "usize"),
        Subj::F32(_) => (TyClass::Float, "f32"),
        Subj::F64(_) => (TyClass::Float, "f64"),
        Subj::Bool(_) => (TyClass::Bool, "bool"),
        Subj::Str(_) => (TyClass::Str, "&str"),
        Subj::String(_) => (TyClass::Str, "String"),
        _ => (TyClass::Other, "?"),
    }
}

fn site_text(s: &Subj) -> String {
    match s {
        Subj::I8(v) => v.to_string(),
        Subj::I16(v) => v.to_string(),
        Subj::I32(v) => v.to_string(),
        Subj::I64(v) => v.to_string(),
        Subj::I128(v) => v.to_string(),
        Subj::Isize(v) => (*v as isize).to_string(),
        Subj::U8(v) => v.to_string(),
        Subj::U16(v) => v.to_string(),
        Subj::U32(v) => v.to_string(),
        Subj::U64(v) => v.to_string(),
        Subj::U128(v) => v.to_string(),
        Subj::Usize(v) => (*v as usize).to_string(),
        Subj::F32(b) => f32::from_bits(*b).to_string(),
        Subj::F64(b) => f64::from_bits(*b).to_string(),
        Subj::Bool(v) => v.to_string(),
        Subj::Str(s) | Subj::String(s) => s.clone(),
        other => format!("{other:?}"),
    }
}

impl ShadowVal {
    fn rust_type(&self) -> (TyClass, &'static str) {
        match self {
            ShadowVal::I8(_) => (TyClass::Int, "i8"),
            ShadowVal::I16(_) => (TyClass::Int, "i16"),
            ShadowVal::I32(_) => (TyClass::Int, "i32"),
            ShadowVal::I64(_) => (TyClass::Int, "i64"),
            ShadowVal::I128(_) => (TyClass::Int, "i128"),
            ShadowVal::Isize(_) => (TyClass::Int, "isize"),
            ShadowVal::U8(_) => (TyClass::Int, "u8"),
            ShadowVal::U16(_) => (TyClass::Int, "u16"),
            ShadowVal::U32(_) => (TyClass::Int, "u32"),
            ShadowVal::U64(_) => (TyClass::Int, "u64"),
            ShadowVal::U128(_) => (TyClass::Int, "u128"),
            ShadowVal::Usize(_) => (TyClass::Int, "usize"),
            ShadowVal::F64(_) => (TyClass::Float, "f64"),
            ShadowVal::Bool(_) => (TyClass::Bool, "bool"),
            ShadowVal::Str(_) | ShadowVal::SiteText => (TyClass::Str, "&str"),
            _ => (TyClass::Other, "other"),
        }
    }

    /// The value that goes into the joined collection and its type class. A shadow of the call site's own
    /// Rust type is re-typed (its text as a string; for a string site a Display-only value): by
    /// construction the shadowed value always has a DIFFERENT type.
    pub fn resolve(&self, site: &Subj) -> (SV, TyClass) {
        let (site_class, site_ty) = site_type(site);
        let (class, ty) = self.rust_type();
        let text_as_other_type = |text: String| {
            if site_class == TyClass::Str {
                (SV::Owned(Value::from_display(&text).to_owned()), TyClass::Other)
            } else {
                (owned(text.as_str()), TyClass::Str)
            }
        };
        if ty == site_ty || (class == TyClass::Str && site_class == TyClass::Str) {
            let text = match self {
                ShadowVal::SiteText => site_text(site),
                ShadowVal::Str(s) => s.clone(),
                other => other.build().to_value().to_string(),
            };
            return text_as_other_type(text);
        }
        match self {
            ShadowVal::SiteText => text_as_other_type(site_text(site)),
            other => (other.build(), class),
        }
    }

    fn build(&self) -> SV {
        match self {
            ShadowVal::I8(v) => owned(*v),
            ShadowVal::I16(v) => owned(*v),
            ShadowVal::I32(v) => owned(*v),
            ShadowVal::I64(v) => owned(*v),
            ShadowVal::I128(v) => owned(*v),
            ShadowVal::Isize(v) => owned(*v as isize),
            ShadowVal::U8(v) => owned(*v),
            ShadowVal::U16(v) => owned(*v),
            ShadowVal::U32(v) => owned(*v),
            ShadowVal::U64(v) => owned(*v),
            ShadowVal::U128(v) => owned(*v),
            ShadowVal::Usize(v) => owned(*v as usize),
            ShadowVal::F64(b) => owned(f64::from_bits(*b)),
            ShadowVal::Bool(v) => owned(*v),
            ShadowVal::Str(s) => owned(s.as_str()),
            ShadowVal::SiteText => owned(""),
            ShadowVal::Null => SV::Owned(Value::null().to_owned()),
            ShadowVal::Level(i) => SV::Lvl([emit::Level::Debug, emit::Level::Info, emit::Level::Warn, emit::Level::Error][*i as usize % 4]),
            ShadowVal::TraceId(v) => SV::Trace(emit::TraceId::from_u128((*v).max(1)).unwrap()),
            ShadowVal::SpanId(v) => SV::Span(emit::SpanId::from_u64((*v).max(1)).unwrap()),
            ShadowVal::Disp(s) => SV::Owned(Value::from_display(s).to_owned()),
        }
    }
}

#[derive(Serialize, Deserialize, Debug, Clone, PartialEq)]
pub struct SCase {
    /// the call site: its variant is the static type of the captured expression (integers, f32, f64, bool,
    /// `&str`, `String`)
    pub site: Subj,
    /// capture attribute of the call site: Default, Value, Display, Sval, Serde
    pub mode: Mode,
    pub place: Place,
    /// the nearest shadowed value
    pub first: ShadowVal,
    /// a second shadowed value one join further out
    pub second: Option<ShadowVal>,
    /// the joined collections also hold another key
    pub other_keys: bool,
}

fn modes_for(s: &Subj) -> &'static [Mode] {
    use Mode::*;
    match s {
        Subj::I32(_) | Subj::U64(_) | Subj::I128(_) | Subj::F64(_) | Subj::Bool(_) | Subj::Str(_) | Subj::String(_) => &[Default, Default, Default, Default, Value, Display, Sval, Serde],
        Subj::F32(_) => &[Default, Default, Default, Display, Sval, Serde],
        _ => &[Default],
    }
}

fn site() -> impl Strategy<Value = Subj> {
    prop_oneof![
        1 => node::any_i8().prop_map(Subj::I8),
        1 => node::any_i16().prop_map(Subj::I16),
        3 => node::any_i32().prop_map(Subj::I32),
        2 => node::any_i64().prop_map(Subj::I64),
        2 => node::i128_wide().prop_map(Subj::I128),
        1 => node::any_isize().prop_map(|v| Subj::Isize(v as i64)),
        1 => node::any_u8().prop_map(Subj::U8),
        1 => node::any_u16().prop_map(Subj::U16),
        1 => node::any_u32().prop_map(Subj::U32),
        3 => node::any_u64().prop_map(Subj::U64),
        1 => node::u128_wide().prop_map(Subj::U128),
        1 => node::any_usize().prop_map(|v| Subj::Usize(v as u64)),
        2 => node::f32_bits().prop_map(Subj::F32),
        5 => node::f64_bits().prop_map(Subj::F64),
        4 => any::<bool>().prop_map(Subj::Bool),
        5 => text().prop_map(Subj::Str),
        4 => text().prop_map(Subj::String),
    ]
}

/// Strings, a good share of which read as something else (a number, a bool, a level, an id).
fn text() -> impl Strategy<Value = String> {
    prop_oneof![
        4 => node::any_text(),
        2 => prop::sample::select(vec!["42", "-1", "1.5", "true", "false", "info", "warn", "error", "debug", "0000000000000001", "00000000000000000000000000000001", "span", "metric", "NaN", "text"]).prop_map(str::to_string),
        1 => any::<i64>().prop_map(|v| v.to_string()),
    ]
}

fn shadow_val() -> impl Strategy<Value = ShadowVal> {
    prop_oneof![
        1 => node::any_i8().prop_map(ShadowVal::I8),
        1 => node::any_i16().prop_map(ShadowVal::I16),
        2 => node::any_i32().prop_map(ShadowVal::I32),
        2 => node::any_i64().prop_map(ShadowVal::I64),
        1 => node::i128_wide().prop_map(ShadowVal::I128),
        1 => node::any_isize().prop_map(|v| ShadowVal::Isize(v as i64)),
        1 => node::any_u8().prop_map(ShadowVal::U8),
        1 => node::any_u16().prop_map(ShadowVal::U16),
        1 => node::any_u32().prop_map(ShadowVal::U32),
        2 => node::any_u64().prop_map(ShadowVal::U64),
        1 => node::u128_wide().prop_map(ShadowVal::U128),
        1 => node::any_usize().prop_map(|v| ShadowVal::Usize(v as u64)),
        5 => node::f64_bits().prop_map(ShadowVal::F64),
        4 => any::<bool>().prop_map(ShadowVal::Bool),
        5 => text().prop_map(ShadowVal::Str),
        2 => Just(ShadowVal::SiteText),
        1 => Just(ShadowVal::Null),
        1 => (0u8..4).prop_map(ShadowVal::Level),
        1 => node::u128_wide().prop_map(ShadowVal::TraceId),
        1 => node::any_u64().prop_map(ShadowVal::SpanId),
        1 => text().prop_map(ShadowVal::Disp),
    ]
}

pub fn scase() -> impl Strategy<Value = SCase> {
    (site(), any::<u32>(), any::<u32>(), shadow_val(), prop::option::weighted(0.4, shadow_val()), prop::bool::weighted(0.3)).prop_map(|(site, mi, pi, first, second, other_keys)| {
        let modes = modes_for(&site);
        let mode = modes[pick(mi, modes.len())];
        let place = Place::ALL[pick(pi, Place::ALL.len())];
        SCase { site, mode, place, first, second, other_keys }
    })
}

// ---------------------------------------------------------------------------------------------
// typed views

type Entry = (&'static str, Option<String>);

fn chain(e: &(dyn std::error::Error + 'static)) -> Vec<String> {
    let mut out = vec![e.to_string()];
    let mut cur = e.source();
    while let Some(s) = cur {
        out.push(s.to_string());
        cur = s.source();
        if out.len() > 16 {
            break;
        }
    }
    out
}

fn f64_text(f: f64) -> String {
    format!("{f:?} (bits {:016x})", f.to_bits())
}

/// A source of typed reads of one key.
trait Src<'kv> {
    fn rd<T: FromValue<'kv>>(&self) -> Option<T>;
}

/// `props.pull::<T>(key)`
struct PullSrc<'kv, P: ?Sized>(&'kv P);

impl<'kv, P: Props + ?Sized> Src<'kv> for PullSrc<'kv, P> {
    fn rd<T: FromValue<'kv>>(&self) -> Option<T> {
        self.0.pull::<T, _>(KEY)
    }
}

/// `value.cast::<T>()`
struct CastSrc<'kv>(Option<Value<'kv>>);

impl<'kv> Src<'kv> for CastSrc<'kv> {
    fn rd<T: FromValue<'kv>>(&self) -> Option<T> {
        self.0.clone().and_then(|v| v.cast::<T>())
    }
}

/// One read per type that implements emit's `FromValue`.
fn typed<'kv, S: Src<'kv>>(s: &S) -> Vec<Entry> {
    let mut out: Vec<Entry> = Vec::with_capacity(32);
    macro_rules! shown {
        ($($name:literal : $t:ty),* $(,)?) => { $( out.push(($name, s.rd::<$t>().map(|v| v.to_string()))); )* };
    }
    shown!(
        "i8": i8, "i16": i16, "i32": i32, "i64": i64, "i128": i128, "isize": isize,
        "u8": u8, "u16": u16, "u32": u32, "u64": u64, "u128": u128, "usize": usize,
        "bool": bool,
        "&str": &'kv str, "String": String, "Cow<str>": Cow<'kv, str>, "emit::Str": Str<'kv>,
        "Level": emit::Level, "TraceId": emit::TraceId, "SpanId": emit::SpanId, "Kind": emit::Kind,
        "Path": emit::Path<'kv>, "Timestamp": emit::Timestamp,
    );
    out.push(("f64", s.rd::<f64>().map(f64_text)));
    out.push(("&dyn Error", s.rd::<&'kv (dyn std::error::Error + 'static)>().map(|e| format!("{:?}", chain(e)))));
    out.push(("Value", s.rd::<Value<'kv>>().map(|v| format!("{} / {:?}", v, serde_json::to_string(&v).map_err(|e| e.to_string())))));
    out
}

/// The `Value::to_*` style accessors and renderings of the value `get` returns.
fn accessors(v: Option<&Value>) -> Vec<Entry> {
    let Some(v) = v else {
        return vec![("get", None)];
    };
    vec![
        ("get", Some(v.to_string())),
        ("is_null", Some(v.is_null().to_string())),
        ("to_borrowed_str", v.to_borrowed_str().map(str::to_string)),
        ("to_cow_str", v.to_cow_str().map(|c| c.into_owned())),
        ("as_f64", Some(f64_text(v.as_f64()))),
        ("to_borrowed_error", v.to_borrowed_error().map(|e| format!("{:?}", chain(e)))),
        ("to_f64_sequence", v.to_f64_sequence().map(|s| format!("{s:?}"))),
        ("parse::<i64>", v.parse::<i64>().map(|n| n.to_string())),
        ("parse::<bool>", v.parse::<bool>().map(|n| n.to_string())),
        ("parse::<Level>", v.parse::<emit::Level>().map(|n| n.to_string())),
        ("serde_json", Some(format!("{:?}", serde_json::to_string(v).map_err(|e| e.to_string())))),
        ("sval_json", Some(format!("{:?}", sval_json::stream_to_string(v).map_err(|e| e.to_string())))),
    ]
}

/// What one read path shows for the key.
#[derive(Debug, Clone)]
pub struct PathView {
    pub name: &'static str,
    pub typed: Vec<Entry>,
    pub acc: Option<Vec<Entry>>,
}

/// Everything read at one observation point (directly, inside the emitter, inside the filter).
#[derive(Debug, Clone)]
pub struct Snapshot {
    pub at: &'static str,
    /// the call-site value went through the ambient context before this read
    pub buffered: bool,
    pub paths: Vec<PathView>,
    /// how many pairs `dedup().for_each` yields for the key
    pub dedup_enumerated: usize,
    /// how many pairs the joined props themselves enumerate for the key
    pub enumerated: usize,
    /// the established read (get + for_each + every cast + renderings) of the de-duplicated props
    pub dedup_read: obs::Read,
}

const WANT: Want = Want { ids: false, as_map: false, nohint: false, enc: obs::Enclosing::None, specs: 0 };

fn first_with_key<'kv, P: Props + ?Sized>(p: &'kv P) -> (Option<Value<'kv>>, usize) {
    let mut first = None;
    let mut n = 0;
    let _ = p.for_each(|k, v| {
        if k.get() == KEY {
            n += 1;
            if first.is_none() {
                first = Some(v);
            }
        }
        ControlFlow::Continue(())
    });
    (first, n)
}

pub fn snapshot<P: Props>(at: &'static str, p: &P, buffered: bool, full: bool) -> Snapshot {
    let mut paths = Vec::with_capacity(12);
    paths.push(PathView { name: "generic/pull", typed: typed(&PullSrc(p)), acc: None });
    let got = p.get(KEY);
    paths.push(PathView { name: "generic/get-cast", acc: Some(accessors(got.as_ref())), typed: typed(&CastSrc(got)) });
    let erased: &dyn ErasedProps = p;
    paths.push(PathView { name: "erased/pull", typed: typed(&PullSrc(erased)), acc: None });
    let dedup = p.dedup();
    let (first, enumerated) = first_with_key(p);
    let (dfirst, dedup_enumerated) = first_with_key(dedup);
    if full {
        let by_ref = &p;
        paths.push(PathView { name: "by-ref/pull", typed: typed(&PullSrc(by_ref)), acc: None });
        let got = erased.get(KEY);
        paths.push(PathView { name: "erased/get-cast", acc: Some(accessors(got.as_ref())), typed: typed(&CastSrc(got)) });
        paths.push(PathView { name: "dedup/pull", typed: typed(&PullSrc(dedup)), acc: None });
        let got = dedup.get(KEY);
        paths.push(PathView { name: "dedup/get-cast", acc: Some(accessors(got.as_ref())), typed: typed(&CastSrc(got)) });
        let dedup_erased: &dyn ErasedProps = dedup;
        paths.push(PathView { name: "dedup-erased/pull", typed: typed(&PullSrc(dedup_erased)), acc: None });
        paths.push(PathView { name: "as-map/pull", typed: typed(&PullSrc(p.as_map())), acc: None });
        paths.push(PathView { name: "for_each/first", acc: Some(accessors(first.as_ref())), typed: typed(&CastSrc(first)) });
        paths.push(PathView { name: "dedup/for_each", acc: Some(accessors(dfirst.as_ref())), typed: typed(&CastSrc(dfirst)) });
    }
    let dedup_read = obs::read(dedup, KEY, usize::from(buffered), WANT);
    Snapshot { at, buffered, paths, dedup_enumerated, enumerated, dedup_read }
}

/// The call-site value alone: the stand-alone `emit::props! { <attr> v: x }` (no join anywhere).
#[derive(Debug, Clone)]
pub struct Reference {
    pub typed: Vec<Entry>,
    pub acc: Vec<Entry>,
    /// the stand-alone props' own `pull` (control: must be the same as get-then-cast)
    pub pulled: Vec<Entry>,
}

impl Reference {
    pub fn of<P: Props>(alone: &P) -> Reference {
        let got = alone.get(KEY);
        Reference { acc: accessors(got.as_ref()), typed: typed(&CastSrc(got)), pulled: typed(&PullSrc(alone)) }
    }
}

// ---------------------------------------------------------------------------------------------
// the joined collections

pub type Layer = Vec<(Str<'static>, SV)>;

pub struct Layers {
    pub l0: Layer,
    pub l1: Layer,
    pub has_second: bool,
    empty: Layer,
}

impl Layers {
    fn of(case: &SCase) -> (Layers, TyClass, Option<TyClass>) {
        let (v0, c0) = case.first.resolve(&case.site);
        let mut l0: Layer = Vec::new();
        let mut l1: Layer = Vec::new();
        if case.other_keys {
            l0.push((Str::new("u"), owned("before the shadowed key")));
        }
        l0.push((Str::new(KEY), v0));
        if case.other_keys {
            l0.push((Str::new("w"), owned(7i64)));
        }
        let c1 = case.second.as_ref().map(|s| {
            let (v1, c1) = s.resolve(&case.site);
            l1.push((Str::new(KEY), v1));
            if case.other_keys {
                l1.push((Str::new("w"), owned(true)));
            }
            c1
        });
        (Layers { l0, l1, has_second: case.second.is_some(), empty: Vec::new() }, c0, c1)
    }

    /// both shadows as one base collection: `l0.and_props(l1)`
    pub fn base_both(&self) -> impl Props + '_ {
        (&self.l0[..]).and_props(&self.l1[..])
    }

    /// only the nearest shadow as the base collection (the second one goes to the ambient context)
    pub fn base_first(&self) -> impl Props + '_ {
        (&self.l0[..]).and_props(&self.empty[..])
    }

    /// the nearest shadowed value
    pub fn first_value(&self) -> &SV {
        &self.l0.iter().find(|(k, _)| k.get() == KEY).expect("the first layer holds the key").1
    }

    /// ambient frames, outermost first
    fn ambient(&self, place: Place) -> Vec<&Layer> {
        match place {
            Place::AndProps | Place::EvtBaseProps => vec![],
            Place::EmitBaseProps | Place::EmitBaseEvent | Place::SpanCompletion => {
                if self.has_second {
                    vec![&self.l1]
                } else {
                    vec![]
                }
            }
            Place::EmitAmbient | Place::SpanProps => {
                if self.has_second {
                    vec![&self.l1, &self.l0]
                } else {
                    vec![&self.l0]
                }
            }
        }
    }

    fn describe(&self) -> String {
        let show = |l: &Layer| l.iter().map(|(k, v)| format!("{}: {}", k, v.to_value())).collect::<Vec<_>>().join(", ");
        if self.has_second {
            format!("shadowed {{{}}}, further out {{{}}}", show(&self.l0), show(&self.l1))
        } else {
            format!("shadowed {{{}}}", show(&self.l0))
        }
    }
}

thread_local! {
    static CTXT: ThreadLocalCtxt = ThreadLocalCtxt::new();
}

fn in_frames<R, F: FnOnce() -> R>(c: ThreadLocalCtxt, layers: &[&Layer], f: F) -> R {
    match layers.split_first() {
        None => f(),
        Some((l, rest)) => emit::Frame::push(c, &l[..]).call(|| in_frames(c, rest, f)),
    }
}

/// Emitter AND filter of the runtime the call sites emit through: both are GENERIC readers (no erasure
/// between the join and the read).
pub struct Reader {
    armed: Cell<bool>,
    /// the call-site value reaches the EMITTER through the ambient context (span props)
    buffered_at_emitter: bool,
    emits: Cell<usize>,
    snaps: RefCell<Vec<Snapshot>>,
}

impl Reader {
    pub fn arm(&self) {
        self.armed.set(true);
    }
    pub fn disarm(&self) {
        self.armed.set(false);
    }
}

impl emit::Emitter for Reader {
    fn emit<E: ToEvent>(&self, evt: E) {
        if !self.armed.get() {
            return;
        }
        self.emits.set(self.emits.get() + 1);
        let evt = evt.to_event();
        let mut snap = snapshot("emitter", evt.props(), self.buffered_at_emitter, true);
        let erased = evt.erase();
        snap.paths.push(PathView { name: "erased-event/pull", typed: typed(&PullSrc(erased.props())), acc: None });
        let got = erased.props().get(KEY);
        snap.paths.push(PathView { name: "erased-event/get-cast", acc: Some(accessors(got.as_ref())), typed: typed(&CastSrc(got)) });
        self.snaps.borrow_mut().push(snap);
    }

    fn blocking_flush(&self, _: std::time::Duration) -> bool {
        true
    }
}

impl emit::Filter for Reader {
    fn matches<E: ToEvent>(&self, evt: E) -> bool {
        if self.armed.get() {
            let evt = evt.to_event();
            // the filter runs before anything reached the context
            let snap = snapshot("filter", evt.props(), false, false);
            self.snaps.borrow_mut().push(snap);
        }
        true
    }
}

pub type SRt<'r> = emit::runtime::Runtime<&'r Reader, &'r Reader, ThreadLocalCtxt>;

pub struct SCtx<'a, 'b, 'c> {
    pub case: &'a SCase,
    pub exp: Expect,
    pub cx: &'b mut Cx<'c>,
}

const TYPED_MODES: [Mode; 2] = [Mode::Default, Mode::Value];

impl<'a, 'b, 'c> SCtx<'a, 'b, 'c> {
    /// The joined props are read where they are built.
    pub fn direct<P: Props>(&mut self, reference: &Reference, lay: &Layers, props: &P) -> Res {
        let snap = snapshot("direct", props, false, true);
        self.judge(reference, lay, &[snap])
    }

    /// The call site emits through a runtime whose emitter and filter read the event generically, inside
    /// the ambient frames the place asks for. `call` arms the reader around the call site.
    pub fn emitted(&mut self, reference: &Reference, lay: &Layers, call: impl FnOnce(&SRt<'_>, &Reader)) -> Res {
        let c = CTXT.with(|c| *c);
        let reader = Reader { armed: Cell::new(false), buffered_at_emitter: self.case.place == Place::SpanProps, emits: Cell::new(0), snaps: RefCell::new(Vec::new()) };
        {
            let rt: SRt = emit::runtime::Runtime::new().with_emitter(&reader).with_filter(&reader).with_ctxt(c);
            let frames = lay.ambient(self.case.place);
            in_frames(c, &frames, || call(&rt, &reader));
        }
        let emits = reader.emits.get();
        let snaps = reader.snaps.into_inner();
        if emits != 1 {
            self.cx.fail("shadowed-key/event-count", format!("{:?}: the call site produced {emits} events", self.case.place))?;
        }
        self.cx.class_if(snaps.iter().any(|s| s.at == "filter"), "shadow:read/inside-a-generic-filter");
        self.judge(reference, lay, &snaps)
    }

    fn judge(&mut self, reference: &Reference, lay: &Layers, snaps: &[Snapshot]) -> Res {
        let case = self.case;
        let what = || format!("{:?}: call site `{:?}` captured as {:?}; {}", case.place, case.site, case.mode, lay.describe());
        if reference.pulled != reference.typed {
            let d = first_difference(&reference.pulled, &reference.typed, false);
            self.cx.fail("shadowed-key/stand-alone-pull-differs-from-get-then-cast", format!("{}: {d:?}", what()))?;
        }
        for s in snaps {
            // After the ambient context only numbers, booleans and strings captured as typed values are
            // promised to read the same as the value alone; for the other capture modes the read paths
            // must still agree with one another (reference = this snapshot's own get-then-cast).
            let (rt, ra): (Vec<Entry>, Vec<Entry>) = if s.buffered && !TYPED_MODES.contains(&case.mode) {
                let own = s.paths.iter().find(|p| p.name == "generic/get-cast").expect("every snapshot has generic/get-cast");
                self.cx.class("shadow:buffered-untyped-capture-paths-compared-with-each-other");
                (own.typed.clone(), own.acc.clone().expect("get-cast has accessors"))
            } else {
                (reference.typed.clone(), reference.acc.clone())
            };
            for p in &s.paths {
                self.cx.class(&format!("shadow:read/{}", p.name));
                if let Some((ty, got, want)) = first_difference(&p.typed, &rt, s.buffered) {
                    self.cx.fail(
                        format!("shadowed-key/typed-read-differs-from-the-call-site-value/{}", p.name),
                        format!("{}: at the {} `{}::<{ty}>` answers {got:?}; the call-site value alone answers {want:?}", what(), s.at, p.name),
                    )?;
                }
                if let Some(acc) = &p.acc {
                    if let Some((name, got, want)) = first_difference(acc, &ra, s.buffered) {
                        self.cx.fail(
                            format!("shadowed-key/value-read-differs-from-the-call-site-value/{}", p.name),
                            format!("{}: at the {} `{}` then `{name}` answers {got:?}; the call-site value alone answers {want:?}", what(), s.at, p.name),
                        )?;
                    }
                }
            }
            if s.dedup_enumerated != 1 {
                self.cx.fail("shadowed-key/dedup-enumeration-count", format!("{}: at the {} dedup().for_each yields the key {} times", what(), s.at, s.dedup_enumerated))?;
            }
            self.cx.class_if(s.enumerated >= 2, "shadow:key-enumerated-more-than-once-before-dedup");
            // the established absolute clauses, on the de-duplicated view
            let hops: &[Hop] = if s.buffered { &[Hop::CtxtPush] } else { &[] };
            check::judge(&self.exp, hops, std::slice::from_ref(&s.dedup_read), self.cx)?;
        }
        Ok(())
    }
}

/// First entry where `got` differs from `want` (entries that depend on the value still being borrowed
/// are skipped after buffering: documented to be lost).
fn first_difference(got: &[Entry], want: &[Entry], buffered: bool) -> Option<(&'static str, Option<String>, Option<String>)> {
    if got.len() != want.len() {
        return Some(("<number of reads>", Some(got.len().to_string()), Some(want.len().to_string())));
    }
    for ((n, g), (m, w)) in got.iter().zip(want) {
        if buffered && matches!(*n, "&str" | "to_borrowed_str" | "&dyn Error" | "to_borrowed_error") {
            continue;
        }
        if n != m || g != w {
            return Some((n, g.clone(), w.clone()));
        }
    }
    None
}

// ---------------------------------------------------------------------------------------------
// the call sites

macro_rules! with_attr {
    (Default, $go:ident, $($a:tt)*) => { $go!([] $($a)*) };
    (Value, $go:ident, $($a:tt)*) => { $go!([#[emit::as_value]] $($a)*) };
    (Display, $go:ident, $($a:tt)*) => { $go!([#[emit::as_display]] $($a)*) };
    (Sval, $go:ident, $($a:tt)*) => { $go!([#[emit::as_sval]] $($a)*) };
    (Serde, $go:ident, $($a:tt)*) => { $go!([#[emit::as_serde]] $($a)*) };
}

/// One fixed call site per place for the attribute list `[$attr]` and the expression `$x`.
macro_rules! place_sites {
    ([$($attr:tt)*] $ctx:ident, $lay:ident, $x:expr) => {{
        let alone = emit::props! { $($attr)* v: $x };
        let reference = Reference::of(&alone);
        match $ctx.case.place {
            Place::AndProps => {
                let base = $lay.base_both();
                let joined = (&alone).and_props(&base);
                $ctx.direct(&reference, &$lay, &joined)
            }
            Place::EvtBaseProps => {
                let base = $lay.base_both();
                let evt = emit::evt!(props: base, "c19 shadowed {v}", $($attr)* v: $x);
                $ctx.direct(&reference, &$lay, evt.props())
            }
            Place::EmitBaseProps => $ctx.emitted(&reference, &$lay, |rt, reader| {
                let base = $lay.base_first();
                reader.arm();
                emit::emit!(rt: rt, props: base, "c19 shadowed {v}", $($attr)* v: $x);
                reader.disarm();
            }),
            Place::EmitAmbient => $ctx.emitted(&reference, &$lay, |rt, reader| {
                reader.arm();
                emit::emit!(rt: rt, "c19 shadowed {v}", $($attr)* v: $x);
                reader.disarm();
            }),
            Place::EmitBaseEvent => $ctx.emitted(&reference, &$lay, |rt, reader| {
                let base = $lay.base_first();
                reader.arm();
                emit::emit!(rt: rt, evt: emit::evt!(props: base, "c19 base event"), "c19 shadowed {v}", $($attr)* v: $x);
                reader.disarm();
            }),
            Place::SpanCompletion => $ctx.emitted(&reference, &$lay, |rt, reader| {
                let shadowed = $lay.first_value();
                let (mut guard, frame) = emit::new_span!(rt: rt, "c19 shadowed span", #[emit::as_value] v: shadowed);
                frame.call(|| {
                    guard.start();
                    guard.complete_with(emit::span::completion::from_fn(|span| {
                        reader.arm();
                        emit::emit!(rt: rt, evt: span, "c19 shadowed span done {v}", $($attr)* v: $x);
                        reader.disarm();
                    }));
                });
            }),
            Place::SpanProps => $ctx.emitted(&reference, &$lay, |rt, reader| {
                reader.arm();
                let (mut guard, frame) = emit::new_span!(rt: rt, "c19 shadowed span {v}", $($attr)* v: $x);
                frame.call(|| {
                    guard.start();
                    drop(guard);
                });
                reader.disarm();
            }),
        }
    }};
}

macro_rules! ssites {
    ($ctx:ident, $lay:ident, $x:expr; $($mode:ident)+) => {
        match $ctx.case.mode {
            $( Mode::$mode => with_attr!($mode, place_sites, $ctx, $lay, $x), )+
            #[allow(unreachable_patterns)]
            m => Err(Fail::new("harness/unsupported-mode", format!("capture mode {m:?} is not stamped out for this shadowed-key subject"))),
        }
    };
}

pub fn check(case: &SCase, cx: &mut Cx) -> Res {
    let (lay, c0, c1) = Layers::of(case);
    let (site_class, _) = site_type(&case.site);
    cx.class("site:shadowed-key");
    cx.class(case.place.label());
    cx.class(case.mode.class());
    cx.class(&format!("shadow:pair/site-{}/shadowed-{}", site_class.name(), c0.name()));
    if let Some(c1) = c1 {
        cx.class("shadow:two-shadowing-layers");
        cx.class(&format!("shadow:pair/site-{}/shadowed-{}", site_class.name(), c1.name()));
    }
    cx.class_if(case.other_keys, "shadow:other-keys-around");
    cx.nontrivial(true);

    let mode = case.mode;
    macro_rules! prim {
        ($x:expr, $t:ty, $kind:expr, $typed:expr; $($mode:ident)+) => {{
            let x: $t = $x;
            let exp = expect_prim(&orig(&x), $kind, $typed, mode, false);
            finish!(x, exp; $($mode)+)
        }};
    }
    macro_rules! prim_nosval {
        ($x:expr, $t:ty, $as:ty, $typed:expr) => {{
            let x: $t = $x;
            let o = Orig { display: format!("{x}"), debug: format!("{x:?}"), a: sj(&x), b: vj(&(x as $as)), pspec: check::display_table(&x), dspec: check::debug_table(&x) };
            let exp = expect_prim(&o, Kind::Number, $typed, mode, false);
            finish!(x, exp; Default)
        }};
    }
    macro_rules! finish {
        ($x:ident, $exp:expr; $($mode:ident)+) => {{
            let exp: Expect = $exp;
            // which typed reads tell the call-site value and the shadowed one apart?
            {
                let shadow_view = typed(&CastSrc(Some(Value::from_any(lay.first_value()))));
                let probe = site_probe(&case.site);
                let site_view = typed(&CastSrc(Some(probe.by_ref())));
                let falls = shadow_view.iter().zip(&site_view).any(|((n, s), (_, c))| *n != "Value" && s.is_some() && c.is_none());
                cx.class_if(falls, "shadow:call-site-value-does-not-cast-shadowed-one-does");
            }
            let mut ctx = SCtx { case, exp, cx };
            ssites!(ctx, lay, $x; $($mode)+)
        }};
    }
    match &case.site {
        Subj::I8(v) => prim!(*v, i8, Kind::Number, int_typed_i(*v as i128, IntTy::I8); Default),
        Subj::I16(v) => prim!(*v, i16, Kind::Number, int_typed_i(*v as i128, IntTy::I16); Default),
        Subj::I32(v) => prim!(*v, i32, Kind::Number, int_typed_i(*v as i128, IntTy::I32); Default Value Display Sval Serde),
        Subj::I64(v) => prim!(*v, i64, Kind::Number, int_typed_i(*v as i128, IntTy::I64); Default),
        Subj::I128(v) => prim!(*v, i128, Kind::Number, int_typed_i(*v, IntTy::I128); Default Value Display Sval Serde),
        Subj::Isize(v) => prim_nosval!(*v as isize, isize, i64, int_typed_i(*v as isize as i128, IntTy::Isize)),
        Subj::U8(v) => prim!(*v, u8, Kind::Number, int_typed_u(*v as u128, IntTy::U8); Default),
        Subj::U16(v) => prim!(*v, u16, Kind::Number, int_typed_u(*v as u128, IntTy::U16); Default),
        Subj::U32(v) => prim!(*v, u32, Kind::Number, int_typed_u(*v as u128, IntTy::U32); Default),
        Subj::U64(v) => prim!(*v, u64, Kind::Number, int_typed_u(*v as u128, IntTy::U64); Default Value Display Sval Serde),
        Subj::U128(v) => prim!(*v, u128, Kind::Number, int_typed_u(*v, IntTy::U128); Default),
        Subj::Usize(v) => prim_nosval!(*v as usize, usize, u64, int_typed_u(*v as usize as u128, IntTy::Usize)),
        Subj::F32(b) => prim!(f32::from_bits(*b), f32, Kind::Number, Some(Typed::F32(f32::from_bits(*b))); Default Display Sval Serde),
        Subj::F64(b) => prim!(f64::from_bits(*b), f64, Kind::Number, Some(Typed::F64(f64::from_bits(*b))); Default Value Display Sval Serde),
        Subj::Bool(v) => prim!(*v, bool, Kind::Bool, Some(Typed::Bool(*v)); Default Value Display Sval Serde),
        Subj::Str(s) => {
            let x: &str = s;
            let exp = str_expect(x, mode, KEY);
            finish!(x, exp; Default Value Display Sval Serde)
        }
        Subj::String(s) => {
            let x: String = s.clone();
            let exp = expect_prim(&orig(&x), Kind::Str, Some(Typed::Str(x.clone())), mode, false);
            finish!(x, exp; Default Value Display Sval Serde)
        }
        other => Err(Fail::new("harness/unsupported-subject", format!("no shadowed-key call sites are stamped out for {other:?}"))),
    }
}

/// The call-site value as an owned typed value (only used to CLASSIFY the case: which typed reads would
/// tell it from the shadowed one).
fn site_probe(s: &Subj) -> OwnedValue {
    match s {
        Subj::I8(v) => Value::from(*v).to_owned(),
        Subj::I16(v) => Value::from(*v).to_owned(),
        Subj::I32(v) => Value::from(*v).to_owned(),
        Subj::I64(v) => Value::from(*v).to_owned(),
        Subj::I128(v) => Value::from(*v).to_owned(),
        Subj::Isize(v) => Value::from(*v as isize).to_owned(),
        Subj::U8(v) => Value::from(*v).to_owned(),
        Subj::U16(v) => Value::from(*v).to_owned(),
        Subj::U32(v) => Value::from(*v).to_owned(),
        Subj::U64(v) => Value::from(*v).to_owned(),
        Subj::U128(v) => Value::from(*v).to_owned(),
        Subj::Usize(v) => Value::from(*v as usize).to_owned(),
        Subj::F32(b) => Value::from(f32::from_bits(*b) as f64).to_owned(),
        Subj::F64(b) => Value::from(f64::from_bits(*b)).to_owned(),
        Subj::Bool(v) => Value::from(*v).to_owned(),
        Subj::Str(s) | Subj::String(s) => Value::from(s.as_str()).to_owned(),
        _ => Value::null().to_owned(),
    }
}
