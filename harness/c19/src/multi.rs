//! Sibling properties: call sites with THREE properties (`a: i64`, `m: &str`, `z: u64`), any subset of
//! them declared `#[emit::optional]` and any subset of those `None` at run time, in every source order,
//! through `emit::props!`, `emit::emit!` and `emit::info!`. An optional property that is `None` must
//! contribute no property at all -- and must not take anything else with it: every other property of
//! the call is enumerated exactly once, is found by key, and keeps its typed value along the read path.

use std::cell::RefCell;

use emit::Props;
use serde::{Deserialize, Serialize};
use vcore::proptest::prelude::*;
use vcore::{Cx, Fail, Res};

use crate::obs::{drive, Hop, Read, Want};
use crate::sites::Rt;

#[derive(Serialize, Deserialize, Debug, Clone, PartialEq)]
pub struct MCase {
    /// bit 0/1/2: slot a/m/z is declared `#[emit::optional]` at the call site
    pub declared: u8,
    /// bit 0/1/2: the optional slot's expression is `None` (ignored for slots that are not declared optional)
    pub none: u8,
    /// source order of the three slots at the call site (0..6, a permutation index)
    pub order: u8,
    /// 0 = `emit::props!`, 1 = `emit::emit!` (template mentions `{m}`), 2 = `emit::info!` (adds `lvl`)
    pub kind: u8,
    pub a: i64,
    pub m: String,
    pub z: u64,
    pub hops: Vec<Hop>,
    pub as_map: bool,
    /// enclosing frame of every ambient hop: holds a decoy for the key being read (never `OtherKeys` here:
    /// the sibling oracle counts the enumerated pairs)
    #[serde(default)]
    pub enclosing: crate::obs::Enclosing,
}

pub fn mcase(hops: impl Strategy<Value = Vec<Hop>>, enclosing: impl Strategy<Value = crate::obs::Enclosing>) -> impl Strategy<Value = MCase> {
    (0u8..8, 0u8..8, 0u8..6, 0u8..3, any::<i64>(), crate::node::any_text(), any::<u64>(), hops, prop::bool::weighted(0.3), enclosing).prop_map(
        |(declared, none, order, kind, a, m, z, hops, as_map, enclosing)| {
            let enclosing = if enclosing == crate::obs::Enclosing::OtherKeys { crate::obs::Enclosing::None } else { enclosing };
            MCase { declared, none, order, kind, a, m, z, hops, as_map, enclosing }
        },
    )
}

/// Every (declared, none ⊆ declared, order, kind) combination once, with fixed values and the given path.
pub fn all_shapes() -> Vec<MCase> {
    let mut out = Vec::new();
    let paths: [&[Hop]; 6] = [&[], &[Hop::Erase], &[Hop::Owned], &[Hop::CtxtPush], &[Hop::Ambient], &[Hop::Event, Hop::Shared]];
    for declared in 0u8..8 {
        for none in 0u8..8 {
            if none & !declared != 0 {
                continue;
            }
            for order in 0u8..6 {
                for kind in 0u8..3 {
                    for hops in paths {
                        out.push(MCase { declared, none, order, kind, a: -7, m: "text \"q\"".into(), z: u64::MAX, hops: hops.to_vec(), as_map: true, enclosing: crate::obs::Enclosing::None });
                    }
                }
            }
        }
    }
    out
}

// The attribute lists are passed as token groups so that every combination is a distinct, fixed call site.
macro_rules! props_site {
    ($k1:ident [$($a1:tt)*] $e1:expr, $k2:ident [$($a2:tt)*] $e2:expr, $k3:ident [$($a3:tt)*] $e3:expr) => {
        emit::props! { $($a1)* $k1: $e1, $($a2)* $k2: $e2, $($a3)* $k3: $e3 }
    };
}
macro_rules! emit_site {
    ($rt:expr, $k1:ident [$($a1:tt)*] $e1:expr, $k2:ident [$($a2:tt)*] $e2:expr, $k3:ident [$($a3:tt)*] $e3:expr) => {
        emit::emit!(rt: $rt, "c19 siblings {m}", $($a1)* $k1: $e1, $($a2)* $k2: $e2, $($a3)* $k3: $e3)
    };
}
macro_rules! info_site {
    ($rt:expr, $k1:ident [$($a1:tt)*] $e1:expr, $k2:ident [$($a2:tt)*] $e2:expr, $k3:ident [$($a3:tt)*] $e3:expr) => {
        emit::info!(rt: $rt, "c19 siblings", $($a1)* $k1: $e1, $($a2)* $k2: $e2, $($a3)* $k3: $e3)
    };
}

struct Vals<'v> {
    a: i64,
    oa: Option<&'v i64>,
    m: &'v str,
    om: Option<&'v str>,
    z: u64,
    oz: Option<&'v u64>,
}

/// Expands `$go!(k1 [attrs] expr, k2 [attrs] expr, k3 [attrs] expr)` for the slot order `$o` and the
/// declared-optional mask `$d`: 6 orders x 8 masks = 48 fixed call sites per macro kind.
macro_rules! with_order {
    ($o:expr, $d:expr, $v:expr, $go:ident) => {
        match $o {
            0 => with_decl!($d, $v, $go, a, m, z),
            1 => with_decl!($d, $v, $go, a, z, m),
            2 => with_decl!($d, $v, $go, m, a, z),
            3 => with_decl!($d, $v, $go, m, z, a),
            4 => with_decl!($d, $v, $go, z, a, m),
            _ => with_decl!($d, $v, $go, z, m, a),
        }
    };
}
macro_rules! slot_expr {
    ($v:expr, a, plain) => { $v.a };
    ($v:expr, a, opt) => { $v.oa };
    ($v:expr, m, plain) => { $v.m };
    ($v:expr, m, opt) => { $v.om };
    ($v:expr, z, plain) => { $v.z };
    ($v:expr, z, opt) => { $v.oz };
}
macro_rules! with_decl {
    ($d:expr, $v:expr, $go:ident, $k1:ident, $k2:ident, $k3:ident) => {{
        // bit i of $d refers to slot a/m/z, whatever its position in the source
        let bit = |k: &str| match k { "a" => 1u8, "m" => 2, _ => 4 };
        let (d1, d2, d3) = ($d & bit(stringify!($k1)) != 0, $d & bit(stringify!($k2)) != 0, $d & bit(stringify!($k3)) != 0);
        match (d1, d2, d3) {
            (false, false, false) => $go!($k1 [] slot_expr!($v, $k1, plain), $k2 [] slot_expr!($v, $k2, plain), $k3 [] slot_expr!($v, $k3, plain)),
            (true, false, false) => $go!($k1 [#[emit::optional]] slot_expr!($v, $k1, opt), $k2 [] slot_expr!($v, $k2, plain), $k3 [] slot_expr!($v, $k3, plain)),
            (false, true, false) => $go!($k1 [] slot_expr!($v, $k1, plain), $k2 [#[emit::optional]] slot_expr!($v, $k2, opt), $k3 [] slot_expr!($v, $k3, plain)),
            (true, true, false) => $go!($k1 [#[emit::optional]] slot_expr!($v, $k1, opt), $k2 [#[emit::optional]] slot_expr!($v, $k2, opt), $k3 [] slot_expr!($v, $k3, plain)),
            (false, false, true) => $go!($k1 [] slot_expr!($v, $k1, plain), $k2 [] slot_expr!($v, $k2, plain), $k3 [#[emit::optional]] slot_expr!($v, $k3, opt)),
            (true, false, true) => $go!($k1 [#[emit::optional]] slot_expr!($v, $k1, opt), $k2 [] slot_expr!($v, $k2, plain), $k3 [#[emit::optional]] slot_expr!($v, $k3, opt)),
            (false, true, true) => $go!($k1 [] slot_expr!($v, $k1, plain), $k2 [#[emit::optional]] slot_expr!($v, $k2, opt), $k3 [#[emit::optional]] slot_expr!($v, $k3, opt)),
            (true, true, true) => $go!($k1 [#[emit::optional]] slot_expr!($v, $k1, opt), $k2 [#[emit::optional]] slot_expr!($v, $k2, opt), $k3 [#[emit::optional]] slot_expr!($v, $k3, opt)),
        }
    }};
}

const WANT: Want = Want { ids: false, as_map: false, nohint: false, enc: crate::obs::Enclosing::None, specs: 0 };

fn keys(case: &MCase) -> Vec<&'static str> {
    let mut k = vec!["a", "m", "z"];
    if case.kind == 2 {
        k.push("lvl");
    }
    k
}

/// Reads of every key along the path: `out[key index][read index]`.
fn drive_all<P: Props + ?Sized>(case: &MCase, props: &P) -> Result<Vec<Vec<Read>>, Fail> {
    let mut all = Vec::new();
    for key in keys(case) {
        let mut reads = Vec::new();
        let enc = if case.enclosing == crate::obs::Enclosing::OtherKeys { crate::obs::Enclosing::None } else { case.enclosing };
        let want = Want { as_map: case.as_map && key == "a", enc, ..WANT };
        drive(props, key, &case.hops, 0, want, &mut reads)?;
        all.push(reads);
    }
    Ok(all)
}

fn present(case: &MCase, key: &str) -> bool {
    let bit = match key {
        "a" => 1u8,
        "m" => 2,
        "z" => 4,
        _ => return true,
    };
    !(case.declared & bit != 0 && case.none & bit != 0)
}

pub fn check(case: &MCase, cx: &mut Cx) -> Res {
    let none_bits = case.none & case.declared;
    cx.class("site:siblings");
    cx.class(match case.kind {
        0 => "siblings:props!",
        1 => "siblings:emit!",
        _ => "siblings:info!",
    });
    cx.class_if(none_bits != 0, "siblings:some-optional-is-none");
    cx.class_if(none_bits == 0 && case.declared != 0, "siblings:all-optionals-some");
    cx.class_if(case.declared == 0, "siblings:no-optional");
    // a None whose key sorts before a present sibling's (a < lvl < m < z)
    let hides_later = (none_bits & 1 != 0 && (present(case, "m") || present(case, "z") || case.kind == 2)) || (none_bits & 2 != 0 && present(case, "z"));
    cx.class_if(hides_later, "siblings:none-sorts-before-a-present-sibling");
    cx.class_if(none_bits & 1 != 0 && case.kind == 2, "siblings:none-sorts-before-lvl");
    cx.class_if(none_bits == 7, "siblings:all-none");
    cx.class_if(!case.hops.is_empty(), "siblings:read-after-hops");
    cx.class_if(case.hops.iter().any(|h| h.ambient()), "path:ambient");
    if none_bits != 0 || case.hops.len() >= 2 {
        cx.nontrivial(true);
    }

    let v = Vals {
        a: case.a,
        oa: if case.none & 1 != 0 { None } else { Some(&case.a) },
        m: &case.m,
        om: if case.none & 2 != 0 { None } else { Some(&case.m) },
        z: case.z,
        oz: if case.none & 4 != 0 { None } else { Some(&case.z) },
    };

    let all = match case.kind {
        0 => {
            macro_rules! go {
                ($($t:tt)*) => {{ let props = props_site!($($t)*); drive_all(case, &props) }};
            }
            with_order!(case.order, case.declared, v, go)
        }
        kind => {
            let result: RefCell<(Option<Result<Vec<Vec<Read>>, Fail>>, usize)> = RefCell::new((None, 0));
            {
                let emitter = emit::emitter::from_fn(|evt| {
                    let mut r = result.borrow_mut();
                    r.1 += 1;
                    r.0 = Some(drive_all(case, evt.props()));
                });
                let rt: Rt = emit::runtime::Runtime::new().with_emitter(Box::new(emitter) as Box<dyn emit::emitter::ErasedEmitter + '_>);
                if kind == 1 {
                    macro_rules! go {
                        ($($t:tt)*) => { emit_site!(&rt, $($t)*) };
                    }
                    with_order!(case.order, case.declared, v, go)
                } else {
                    macro_rules! go {
                        ($($t:tt)*) => { info_site!(&rt, $($t)*) };
                    }
                    with_order!(case.order, case.declared, v, go)
                }
            }
            let (res, n) = result.into_inner();
            if n != 1 {
                return cx.fail("siblings/event-count", format!("the call site produced {n} events"));
            }
            res.expect("emitter ran")
        }
    };
    let all = match all {
        Ok(a) => a,
        Err(f) => return cx.fail(f.sig, f.msg),
    };

    let keys = keys(case);
    let expected_total = keys.iter().filter(|k| present(case, k)).count();
    let kind = ["props", "emit", "info"][case.kind as usize];
    for (key, reads) in keys.iter().zip(&all) {
        if reads.len() != case.hops.len() + 1 {
            cx.fail(format!("siblings/{kind}/path-did-not-complete"), format!("{} reads for {} hops", reads.len(), case.hops.len()))?;
        }
        for r in reads {
            if let Some(label) = r.enclosing {
                cx.class(label);
            }
            let at = format!("key `{key}` after {} hop(s) {:?}", r.hops, &case.hops[..r.hops.min(case.hops.len())]);
            if r.total != expected_total {
                cx.fail(
                    format!("siblings/{kind}/enumerated-count"),
                    format!("{at}: for_each yielded {} pairs, the call has {expected_total} properties that are not None (declared-optional mask {:03b}, None mask {:03b})", r.total, case.declared, none_bits),
                )?;
            }
            if !present(case, key) {
                if r.got.is_some() || r.enumerated != 0 {
                    cx.fail(format!("siblings/{kind}/optional-none-present"), format!("{at}: get={:?} enumerated {} times", r.got.as_ref().map(|o| &o.display), r.enumerated))?;
                }
                continue;
            }
            let Some(got) = &r.got else {
                cx.fail(format!("siblings/{kind}/sibling-lost/get"), format!("{at}: get() is None although the property was given (None mask {none_bits:03b})"))?;
                continue;
            };
            if r.enumerated != 1 {
                cx.fail(format!("siblings/{kind}/sibling-lost/for_each"), format!("{at}: enumerated {} times, get() finds it (None mask {none_bits:03b})", r.enumerated))?;
            }
            let (want_display, typed_ok) = match *key {
                "a" => (case.a.to_string(), got.casts.i64 == Some(case.a)),
                "m" => (case.m.clone(), got.casts.string.as_deref() == Some(case.m.as_str())),
                "z" => (case.z.to_string(), got.casts.u64 == Some(case.z)),
                _ => ("info".to_string(), true),
            };
            if got.display != want_display || !typed_ok {
                cx.fail(format!("siblings/{kind}/value"), format!("{at}: displays {:?}, expected {want_display:?}; typed pull ok = {typed_ok}", got.display))?;
            }
            if r.first_enumerated.as_deref().is_some_and(|d| d != want_display) {
                cx.fail(format!("siblings/{kind}/enumerated-value"), format!("{at}: for_each yields {:?}, expected {want_display:?}", r.first_enumerated))?;
            }
            for (fw, map) in [("serde", &r.map_serde), ("sval", &r.map_sval)] {
                let Some(map) = map else { continue };
                let mut want = serde_json::Map::new();
                for k in keys.iter().filter(|k| present(case, k)) {
                    want.insert(
                        k.to_string(),
                        match *k {
                            "a" => serde_json::json!(case.a),
                            "m" => serde_json::json!(case.m),
                            "z" => serde_json::json!(case.z),
                            _ => serde_json::json!("info"),
                        },
                    );
                }
                match map.as_ref().map(|t| serde_json::from_str::<serde_json::Value>(t)) {
                    Ok(Ok(doc)) if doc == serde_json::Value::Object(want.clone()) => {}
                    other => {
                        cx.fail(format!("siblings/{kind}/as-map/{fw}"), format!("{at}: as_map() serialises as {other:?}, expected {}", serde_json::Value::Object(want)))?;
                    }
                }
            }
        }
    }
    Ok(())
}
