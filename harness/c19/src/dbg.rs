//! Two further call-site families (added after seeding round 6):
//!
//! * `emit::dbg!(<attr> v: x)` -- the one macro whose DEFAULT capture is from the anonymous family
//!   (`Value::from_debug`); it can only emit through the SHARED runtime, so the process installs (once)
//!   an emitter there that forwards each event to a thread-local observer slot. `dbg!` runs the emitter
//!   synchronously on the calling thread, so every harness thread sees exactly its own events; events
//!   arriving while no slot is armed are ignored.
//! * STACKED capture attributes: `#[emit::as_<first>] #[emit::as_<last>] v: x` on props! / emit! sites.

use std::cell::RefCell;
use std::sync::Once;

use vcore::{Cx, Fail, Res};

use crate::check::*;
use crate::obs::{drive, Hop, Read, Want};
use crate::sites::{expect_fmt, int_typed_i, int_typed_u, str_expect, Site};

struct Slot {
    key: &'static str,
    hops: Vec<Hop>,
    want: Want,
    reads: Vec<Read>,
    res: Result<(), Fail>,
    events: usize,
}

thread_local! {
    static SLOT: RefCell<Option<Slot>> = const { RefCell::new(None) };
}

fn install_shared_runtime() {
    static INIT: Once = Once::new();
    INIT.call_once(|| {
        let init = emit::setup()
            .emit_to(emit::emitter::from_fn(|evt| {
                // take the slot out while driving: the read paths emit through their own runtimes
                let Some(mut slot) = SLOT.with(|s| s.borrow_mut().take()) else { return };
                slot.events += 1;
                slot.res = drive(evt.props(), slot.key, &slot.hops, 0, slot.want, &mut slot.reads);
                SLOT.with(|s| *s.borrow_mut() = Some(slot));
            }))
            .init();
        // nothing is buffered: no flush needed at exit
        std::mem::forget(init);
    });
}

impl<'a, 'b, 'c> Site<'a, 'b, 'c> {
    /// `call` is the `emit::dbg!` call site.
    pub fn finish_dbg(&mut self, call: impl FnOnce()) -> Res {
        install_shared_runtime();
        SLOT.with(|s| {
            *s.borrow_mut() = Some(Slot { key: self.exp.key, hops: self.case.hops.clone(), want: want_for(self.case), reads: Vec::new(), res: Ok(()), events: 0 })
        });
        call();
        let slot = SLOT.with(|s| s.borrow_mut().take()).expect("observer slot");
        if slot.events != 1 {
            self.cx.fail("dbg-macro/event-count", format!("the call site produced {} events on this thread", slot.events))?;
        }
        if let Err(f) = slot.res {
            self.cx.fail(f.sig, f.msg)?;
        }
        judge(&self.exp, &self.case.hops, &slot.reads, self.cx)
    }
}

macro_rules! dbg_for {
    (Default, $e:expr) => { emit::dbg!(v: $e) };
    (Display, $e:expr) => { emit::dbg!(#[emit::as_display] v: $e) };
    (DisplayI, $e:expr) => { emit::dbg!(#[emit::as_display(inspect: true)] v: $e) };
    (Debug, $e:expr) => { emit::dbg!(#[emit::as_debug] v: $e) };
    (DebugI, $e:expr) => { emit::dbg!(#[emit::as_debug(inspect: true)] v: $e) };
    (Value, $e:expr) => { emit::dbg!(#[emit::as_value] v: $e) };
    (ValueI, $e:expr) => { emit::dbg!(#[emit::as_value(inspect: true)] v: $e) };
    (Sval, $e:expr) => { emit::dbg!(#[emit::as_sval] v: $e) };
    (SvalI, $e:expr) => { emit::dbg!(#[emit::as_sval(inspect: true)] v: $e) };
    (Serde, $e:expr) => { emit::dbg!(#[emit::as_serde] v: $e) };
    (SerdeI, $e:expr) => { emit::dbg!(#[emit::as_serde(inspect: true)] v: $e) };
    (Error, $e:expr) => { emit::dbg!(#[emit::as_error] v: $e) };
}

macro_rules! opt_dbg_for {
    (Default, $e:expr) => { emit::dbg!(#[emit::optional] v: $e) };
    (Display, $e:expr) => { emit::dbg!(#[emit::optional] #[emit::as_display] v: $e) };
    (DisplayI, $e:expr) => { emit::dbg!(#[emit::optional] #[emit::as_display(inspect: true)] v: $e) };
    (Debug, $e:expr) => { emit::dbg!(#[emit::optional] #[emit::as_debug] v: $e) };
    (DebugI, $e:expr) => { emit::dbg!(#[emit::optional] #[emit::as_debug(inspect: true)] v: $e) };
    (Value, $e:expr) => { emit::dbg!(#[emit::optional] #[emit::as_value] v: $e) };
    (ValueI, $e:expr) => { emit::dbg!(#[emit::optional] #[emit::as_value(inspect: true)] v: $e) };
    (Sval, $e:expr) => { emit::dbg!(#[emit::optional] #[emit::as_sval] v: $e) };
    (SvalI, $e:expr) => { emit::dbg!(#[emit::optional] #[emit::as_sval(inspect: true)] v: $e) };
    (Serde, $e:expr) => { emit::dbg!(#[emit::optional] #[emit::as_serde] v: $e) };
    (SerdeI, $e:expr) => { emit::dbg!(#[emit::optional] #[emit::as_serde(inspect: true)] v: $e) };
    (Error, $e:expr) => { emit::dbg!(#[emit::optional] #[emit::as_error] v: $e) };
}

// `(inspect: false)` spelled out, see sites.rs
macro_rules! dsite_plain {
    (Display, $site:ident, $e:expr) => {
        if $site.inspect_false() {
            $site.finish_dbg(|| emit::dbg!(#[emit::as_display(inspect: false)] v: $e))
        } else {
            $site.finish_dbg(|| dbg_for!(Display, $e))
        }
    };
    (Debug, $site:ident, $e:expr) => {
        if $site.inspect_false() {
            $site.finish_dbg(|| emit::dbg!(#[emit::as_debug(inspect: false)] v: $e))
        } else {
            $site.finish_dbg(|| dbg_for!(Debug, $e))
        }
    };
    (Value, $site:ident, $e:expr) => {
        if $site.inspect_false() {
            $site.finish_dbg(|| emit::dbg!(#[emit::as_value(inspect: false)] v: $e))
        } else {
            $site.finish_dbg(|| dbg_for!(Value, $e))
        }
    };
    (Sval, $site:ident, $e:expr) => {
        if $site.inspect_false() {
            $site.finish_dbg(|| emit::dbg!(#[emit::as_sval(inspect: false)] v: $e))
        } else {
            $site.finish_dbg(|| dbg_for!(Sval, $e))
        }
    };
    (Serde, $site:ident, $e:expr) => {
        if $site.inspect_false() {
            $site.finish_dbg(|| emit::dbg!(#[emit::as_serde(inspect: false)] v: $e))
        } else {
            $site.finish_dbg(|| dbg_for!(Serde, $e))
        }
    };
    ($m:ident, $site:ident, $e:expr) => {
        $site.finish_dbg(|| dbg_for!($m, $e))
    };
}
macro_rules! dsite_opt {
    (Display, $site:ident, $e:expr) => {
        if $site.inspect_false() {
            $site.finish_dbg(|| emit::dbg!(#[emit::optional] #[emit::as_display(inspect: false)] v: $e))
        } else {
            $site.finish_dbg(|| opt_dbg_for!(Display, $e))
        }
    };
    (Debug, $site:ident, $e:expr) => {
        if $site.inspect_false() {
            $site.finish_dbg(|| emit::dbg!(#[emit::optional] #[emit::as_debug(inspect: false)] v: $e))
        } else {
            $site.finish_dbg(|| opt_dbg_for!(Debug, $e))
        }
    };
    (Value, $site:ident, $e:expr) => {
        if $site.inspect_false() {
            $site.finish_dbg(|| emit::dbg!(#[emit::optional] #[emit::as_value(inspect: false)] v: $e))
        } else {
            $site.finish_dbg(|| opt_dbg_for!(Value, $e))
        }
    };
    (Sval, $site:ident, $e:expr) => {
        if $site.inspect_false() {
            $site.finish_dbg(|| emit::dbg!(#[emit::optional] #[emit::as_sval(inspect: false)] v: $e))
        } else {
            $site.finish_dbg(|| opt_dbg_for!(Sval, $e))
        }
    };
    (Serde, $site:ident, $e:expr) => {
        if $site.inspect_false() {
            $site.finish_dbg(|| emit::dbg!(#[emit::optional] #[emit::as_serde(inspect: false)] v: $e))
        } else {
            $site.finish_dbg(|| opt_dbg_for!(Serde, $e))
        }
    };
    ($m:ident, $site:ident, $e:expr) => {
        $site.finish_dbg(|| opt_dbg_for!($m, $e))
    };
}

/// The `emit::dbg!` twin of `sites!`.
macro_rules! dbg_sites {
    ($site:ident, $x:expr, $some:expr; $($mode:ident)+) => {
        match ($site.case.mode, $site.case.opt) {
            $(
                (Mode::$mode, Opt::Plain) => dsite_plain!($mode, $site, $x),
                (Mode::$mode, o) => {
                    let ov = if o == Opt::Some { $some } else { None };
                    dsite_opt!($mode, $site, ov)
                }
            )+
            #[allow(unreachable_patterns)]
            (m, _) => Err(Fail::new("harness/unsupported-mode", format!("capture mode {m:?} is not stamped out for this dbg! subject"))),
        }
    };
}

/// Without an attribute `dbg!` promises Debug capture ("captures values using their Debug
/// implementation by default"); with one, "property capturing can be adjusted through the `as_*`
/// attribute macros": exactly the attribute's clauses.
fn promised(mode: Mode) -> Mode {
    if mode == Mode::Default {
        Mode::Debug
    } else {
        mode
    }
}

pub fn check_dbg(case: &Case, cx: &mut Cx) -> Res {
    let mode = promised(case.mode);
    macro_rules! prim {
        ($x:expr, $t:ty, $kind:expr, $typed:expr; $($mode:ident)+) => {{
            let x: $t = $x;
            let exp = expect_prim(&orig(&x), $kind, $typed, mode, false);
            let mut site = Site::new(case, exp, cx);
            dbg_sites!(site, x, Some(&x); $($mode)+)
        }};
    }
    match &case.subj {
        Subj::I64(v) => prim!(*v, i64, Kind::Number, int_typed_i(*v as i128, IntTy::I64); Default Display DisplayI Debug DebugI Value ValueI Sval SvalI Serde SerdeI),
        Subj::U64(v) => prim!(*v, u64, Kind::Number, int_typed_u(*v as u128, IntTy::U64); Default Display DisplayI Debug DebugI Value ValueI Sval SvalI Serde SerdeI),
        Subj::U128(v) => prim!(*v, u128, Kind::Number, int_typed_u(*v, IntTy::U128); Default Display DisplayI Debug DebugI Value ValueI Sval SvalI Serde SerdeI),
        Subj::F64(b) => prim!(f64::from_bits(*b), f64, Kind::Number, Some(Typed::F64(f64::from_bits(*b))); Default Display DisplayI Debug DebugI Value ValueI Sval SvalI Serde SerdeI),
        Subj::Bool(v) => prim!(*v, bool, Kind::Bool, Some(Typed::Bool(*v)); Default Display DisplayI Debug DebugI Value ValueI Sval SvalI Serde SerdeI),
        Subj::F32(b) => prim!(f32::from_bits(*b), f32, Kind::Number, Some(Typed::F32(f32::from_bits(*b))); Default Display DisplayI Debug DebugI Sval SvalI Serde SerdeI),
        Subj::Str(s) => {
            let x: &str = s;
            let exp = str_expect(x, mode, "v");
            let mut site = Site::new(case, exp, cx);
            dbg_sites!(site, x, Some(x); Default Display DisplayI Debug DebugI Value ValueI Sval SvalI Serde SerdeI Error)
        }
        Subj::String(s) => {
            let x: String = s.clone();
            let exp = expect_prim(&orig(&x), Kind::Str, Some(Typed::Str(x.clone())), mode, false);
            let mut site = Site::new(case, exp, cx);
            dbg_sites!(site, x, Some(&x); Default Display DisplayI Debug DebugI Value ValueI Sval SvalI Serde SerdeI)
        }
        Subj::Node(spec) => {
            let x = spec.build();
            let exp = expect_structured(&x, mode, x.shape().nested_seq);
            let mut site = Site::new(case, exp, cx);
            dbg_sites!(site, x, Some(&x); Default Debug DebugI Sval SvalI Serde SerdeI)
        }
        Subj::Err(msgs) => {
            let x = ChainErr::build(msgs);
            let mut exp = expect_fmt(&x, Kind::Error, mode);
            if mode == Mode::Error {
                exp.err_chain = Some(x.messages());
            }
            let mut site = Site::new(case, exp, cx);
            dbg_sites!(site, x, Some(&x); Default Error Display DisplayI Debug DebugI)
        }
        other => Err(Fail::new("harness/unsupported-mode", format!("no dbg! call sites are stamped out for {other:?}"))),
    }
}

// ---------------------------------------------------------------------------------------------
// stacked attributes

/// `attr_of!(Mode, callback, rest...)` expands `callback!([#[emit::as_...]] rest...)`.
macro_rules! attr_of {
    (Display, $cb:ident, $($rest:tt)*) => { $cb!([#[emit::as_display]] $($rest)*) };
    (DisplayI, $cb:ident, $($rest:tt)*) => { $cb!([#[emit::as_display(inspect: true)]] $($rest)*) };
    (Debug, $cb:ident, $($rest:tt)*) => { $cb!([#[emit::as_debug]] $($rest)*) };
    (DebugI, $cb:ident, $($rest:tt)*) => { $cb!([#[emit::as_debug(inspect: true)]] $($rest)*) };
    (Value, $cb:ident, $($rest:tt)*) => { $cb!([#[emit::as_value]] $($rest)*) };
    (Sval, $cb:ident, $($rest:tt)*) => { $cb!([#[emit::as_sval]] $($rest)*) };
    (Serde, $cb:ident, $($rest:tt)*) => { $cb!([#[emit::as_serde]] $($rest)*) };
}
macro_rules! stacked_props {
    ($m1:ident, $m2:ident, $x:expr) => { attr_of!($m1, stacked_props_1, $m2, $x) };
}
macro_rules! stacked_props_1 {
    ([$($a1:tt)*] $m2:ident, $x:expr) => { attr_of!($m2, stacked_props_2, [$($a1)*] $x) };
}
macro_rules! stacked_props_2 {
    ([$($a2:tt)*] [$($a1:tt)*] $x:expr) => { emit::props! { $($a1)* $($a2)* v: $x } };
}
macro_rules! stacked_emit {
    ($m1:ident, $m2:ident, $rt:expr, $x:expr) => { attr_of!($m1, stacked_emit_1, $m2, $rt, $x) };
}
macro_rules! stacked_emit_1 {
    ([$($a1:tt)*] $m2:ident, $rt:expr, $x:expr) => { attr_of!($m2, stacked_emit_2, [$($a1)*] $rt, $x) };
}
macro_rules! stacked_emit_2 {
    ([$($a2:tt)*] [$($a1:tt)*] $rt:expr, $x:expr) => { emit::emit!(rt: $rt, "c19 {v}", $($a1)* $($a2)* v: $x) };
}

/// One fixed props! and one fixed emit! call site per ordered (first, last) attribute pair.
macro_rules! stacked_sites {
    ($site:ident, $x:expr; $( ($m1:ident, $m2:ident) )+) => {
        match ($site.case.stacked, $site.case.mode, $site.case.emit_macro) {
            $(
                (Some(Mode::$m1), Mode::$m2, false) => {
                    let p = stacked_props!($m1, $m2, $x);
                    $site.finish(&p)
                }
                (Some(Mode::$m1), Mode::$m2, true) => $site.finish_emit(|rt| stacked_emit!($m1, $m2, rt, $x)),
            )+
            (a, b, _) => Err(Fail::new("harness/unsupported-mode", format!("the attribute pair ({a:?}, {b:?}) is not stamped out for this subject"))),
        }
    };
}

pub const STACK_PRIM: [Mode; 6] = [Mode::Display, Mode::Debug, Mode::DisplayI, Mode::Value, Mode::Serde, Mode::Sval];
pub const STACK_NODE: [Mode; 4] = [Mode::Debug, Mode::DebugI, Mode::Sval, Mode::Serde];

/// Which of two stacked capture attributes applies is not documented (on the unchanged tree the LAST
/// one does: each attribute rewrites the capture hook the previous one left). The value must satisfy
/// the clauses of the last attribute, or else (counted don't-care) those of the first.
pub fn check_stacked(case: &Case, cx: &mut Cx) -> Res {
    const LABEL: &str = "dontcare:stacked-first-attribute-applies";
    let (first, last) = (case.stacked.expect("stacked"), case.mode);
    // `#[emit::optional]` forms are not stamped out here
    let case = &Case { opt: Opt::Plain, sinks: false, ..case.clone() };
    macro_rules! prim {
        ($x:expr, $t:ty, $kind:expr, $typed:expr) => {{
            let x: $t = $x;
            let o = orig(&x);
            let mut exp = expect_prim(&o, $kind, $typed, last, false);
            exp.or_else(expect_prim(&o, $kind, $typed, first, false), LABEL);
            let mut site = Site::new(case, exp, cx);
            stacked_sites!(site, x; (Display, Debug) (Display, DisplayI) (Display, Value) (Display, Serde) (Display, Sval) (Debug, Display) (Debug, DisplayI) (Debug, Value) (Debug, Serde) (Debug, Sval) (DisplayI, Display) (DisplayI, Debug) (DisplayI, Value) (DisplayI, Serde) (DisplayI, Sval) (Value, Display) (Value, Debug) (Value, DisplayI) (Value, Serde) (Value, Sval) (Serde, Display) (Serde, Debug) (Serde, DisplayI) (Serde, Value) (Serde, Sval) (Sval, Display) (Sval, Debug) (Sval, DisplayI) (Sval, Value) (Sval, Serde))
        }};
    }
    match &case.subj {
        Subj::I64(v) => prim!(*v, i64, Kind::Number, int_typed_i(*v as i128, IntTy::I64)),
        Subj::F64(b) => prim!(f64::from_bits(*b), f64, Kind::Number, Some(Typed::F64(f64::from_bits(*b)))),
        Subj::String(s) => prim!(s.clone(), String, Kind::Str, Some(Typed::Str(s.clone()))),
        Subj::Node(spec) => {
            let x = spec.build();
            let nested = x.shape().nested_seq;
            let mut exp = expect_structured(&x, last, nested);
            exp.or_else(expect_structured(&x, first, nested), LABEL);
            let mut site = Site::new(case, exp, cx);
            stacked_sites!(site, x; (Debug, DebugI) (Debug, Sval) (Debug, Serde) (DebugI, Debug) (DebugI, Sval) (DebugI, Serde) (Sval, Debug) (Sval, DebugI) (Sval, Serde) (Serde, Debug) (Serde, DebugI) (Serde, Sval))
        }
        other => Err(Fail::new("harness/unsupported-mode", format!("no stacked-attribute call sites are stamped out for {other:?}"))),
    }
}
