mod check;
mod dbg;
mod derived;
mod holes;
mod json;
mod multi;
mod jsonw;
mod node;
mod obs;
mod shadow;
mod sites;

use check::{Case, Mode, Opt, Subj, Wk};
use node::*;
use obs::Hop;
use vcore::proptest::prelude::*;
use vcore::{pick, Level};

const RULE: &str = "a case is (value of one static type, capture attribute, #[emit::optional] wrapping, read path of 0-3 hops, as_map flag): the value is fed to the ONE fixed `emit::props!` call site stamped out for that (type, attribute, optional) combination and the resulting property is read before and after every hop (erased props, erased event through dyn ErasedEmitter, to_owned, to_shared, ThreadLocalCtxt push/root + with_current, ambient props of an event emitted through a Runtime, frame carried to another thread, owned copy moved to another thread). Values: every integer type at extremes/powers of two/random, f32/f64 incl. NaN, +-inf, -0, subnormals, bool, char, borrowed/owned/static strings with control and non-ASCII characters, Display-only and dyn Display/Debug values, Option<i32>, a recursive structured grammar (null/unit/option/seq/tuple/string-key and non-string-key maps/structs/all four enum variant shapes, depth <= 5) with hand-written serde+sval impls, six derive-based types, error chains of depth 0-4 and the well-known keys lvl/err/trace_id/span_id/span_parent. A further generator (shadowed-keys) captures a number/bool/string (every integer width, f32, f64, bool, &str, String; default, as_value, as_display, as_sval, as_serde) under a key that is ALSO present with a value of a different type (other integer widths, f64, bool, string, null, Level/TraceId/SpanId objects, Display-only) in one or two of the collections the event's props get joined with (and_props, `props:` base props of evt!/emit!, an `evt:` base event, ambient frames, the props of a span completed manually with emit!(evt: span), frames enclosing a span) and reads the key through every typed read path (pull::<T> for every FromValue type, get+cast, Value accessors; generic, by reference, &dyn ErasedProps, dedup(), as_map(), erased event, inside a generic Filter and Emitter): every such case counts as non-trivial. Every observed value of a capture mode with a formatting clause is additionally formatted through Display and Debug under 11 + 2 non-default format specs (and, for numbers/booleans/strings, as an OwnedValue copy); a further generator (fmt-holes) renders i64 / f64 / String / structured values through template holes with #[emit::fmt(..)] flags (emit::format! and evt.msg()); a structured value of depth >= 2 counts as non-trivial there. Non-trivial = structured value of container depth >= 2, or a number at the extreme of its type (MIN/MAX, non-finite, -0, smallest positive), or a read path of >= 2 hops.";

const ASSUMPTIONS: [&str; 11] = [
    "the oracle is the property text: default capture of numbers/bools/strings must pull back as the same typed value (f32, which has no FromValue, as its exact f64 widening), anything else must display as its Display text; as_display/as_debug must give exactly format!(\"{}\")/format!(\"{:?}\"); as_serde must give serde_json(captured)==serde_json(original) and as_sval sval_json(captured)==sval_json(original) as text; the other framework's JSON of the captured value must denote the same document (own strict JSON reader: order and duplicates kept, numbers by value) as the capturing framework's JSON of the original; as_error / `err:` must expose the same source-chain messages through to_borrowed_error() and cast::<&dyn Error>(); #[emit::optional] None must be absent from get() and for_each()",
    "documented conversions that are asserted beyond the same-type pull: Value::as_f64 (`as` conversion for numbers, parse for strings, NaN otherwise) and String/Cow<str>/emit::Str casts of strings after buffering (book: working-with-events); integer casts to OTHER integer types and to f64 are undocumented: a None is accepted, a Some(different number) is a failure",
    "don't-care (counted, never failed): `&str`/to_borrowed_str casts after a buffering hop (documented to fail); cross-framework comparison when the ORIGINAL's own serde_json and sval_json renderings are not the same JSON document (e.g. unit structs: null vs \"Name\"; map keys serde_json refuses) or either is an error; Display text of non-primitive (Display-only, char, Level/TraceId/SpanId objects) values and error chains after a buffering hop (the text only promises buffering for numbers, booleans, strings and structured values); `Option::None` under a well-known key (absent or null)",
    "don't-care: `inspect: true` variants (undocumented; the repository's own UI tests use as_display(inspect: true) to get a typed primitive back) may behave like the default capture for primitives, so e.g. as_debug(inspect: true) of 1.0f64 displaying `1` or of a String displaying unquoted is accepted when the typed value round-trips; and a `str` under as_debug displays unquoted because emit deliberately stores every `str` as the string itself under every attribute (explicit `impl Capture* for str`)",
    "the hand-written serde::Serialize and sval::Value impls of the structured grammar describe the same data using the correspondence of the frameworks' own derive macros (and of sval_serde); labels that are not Rust identifiers are not tagged VALUE_IDENT",
    "known finding D17 (signature sval-capture/nested-seq/serde-read): raised only when the value was captured through sval, is read through serde, contains a NON-EMPTY sequence below its root, and serde_json's output is not the same JSON document; every other cross-framework mismatch has a different signature",
    "serde_json and sval_json themselves are trusted as serializers of the ORIGINAL value; value-bag / sval_serde / sval_buffer behaviour is part of what is observed, not trusted",
    "ThreadLocalCtxt state is per thread and per ctxt id; each worker thread owns one ctxt; frames are exited by guards, so a failing case cannot leak ambient state into the next",
    "shadowed keys: where the key captured at the call site is also present further out (base props, base event, ambient frames, span props), what is observed for the key is the call-site value with its captured type on every typed read path: each typed read answers exactly what the same read of the stand-alone `emit::props! { v: x }` of the same site answers (after the ambient context: except the borrowed-string/borrowed-error reads, and for as_display/as_sval/as_serde captures the read paths are only compared with one another); the de-duplicated joined props must satisfy the same absolute clauses as an unshadowed property; how often the raw joined props ENUMERATE the key is not asserted (dedup is the reader's job)",
    "format specs: the CONSUMER's format spec reaches the original's own impl. On unbuffered read paths (direct, &dyn ErasedProps, erased event) a value captured with as_debug / dbg! formatted as {:S?} AND as {:S} equals format!(\"{:S?}\", original) for S in {'', #, >12, <8, ^9, 08, +, .3, *>10.2, +09.1, #012.1} plus {:x?}, {:#X?}; captured with as_display (or a non-primitive by default) formatted as {:S} equals format!(\"{:S}\", original) (its Debug impl is not asserted); a typed number / boolean / string (default capture, as_value) formats as the original through both traits (debug-hex flags excepted: integers are stored widened), and keeps doing so after buffering and as an OwnedValue formatted through OwnedValue's own impls. Don't-care (counted): a debug/display capture after a buffering hop (it is held as text; flags other than padding act on the text). A template hole with #[emit::fmt(\"S\")] renders (emit::format!, evt.msg()) what the original formats as under the spec its capture mode maps to",
    "limits: call sites are emit::props! (the same capture hooks emit!/span! expand to); sinks (file/OTLP/term) are C13's domain; `Value::parse`, `to_f64_sequence`, Debug of a display/sval/serde-captured Value and Debug of Event / as_map() are not asserted",
];

fn hop() -> impl Strategy<Value = Hop> {
    prop_oneof![
        3 => Just(Hop::Erase),
        3 => Just(Hop::Event),
        3 => Just(Hop::Owned),
        3 => Just(Hop::Shared),
        3 => Just(Hop::CtxtPush),
        2 => Just(Hop::CtxtRoot),
        3 => Just(Hop::Ambient),
        1 => Just(Hop::CtxtThread),
        1 => Just(Hop::OwnedThread),
    ]
}

fn hops() -> impl Strategy<Value = Vec<Hop>> {
    prop_oneof![
        3 => Just(Vec::new()),
        8 => prop::collection::vec(hop(), 1..=1),
        6 => prop::collection::vec(hop(), 2..=2),
        3 => prop::collection::vec(hop(), 3..=3),
    ]
}

/// What the ambient context holds when an ambient hop pushes (only looked at by CtxtPush / Ambient /
/// CtxtThread hops).
fn enclosing() -> impl Strategy<Value = obs::Enclosing> {
    use obs::Enclosing::*;
    prop_oneof![4 => Just(None), 3 => Just(SameTextString), 2 => Just(SameTextNumber), 2 => Just(SameValue), 2 => Just(OtherValue), 1 => Just(OtherKeys)]
}

fn opt() -> impl Strategy<Value = Opt> {
    prop_oneof![7 => Just(Opt::Plain), 2 => Just(Opt::Some), 1 => Just(Opt::None)]
}

/// The attributes stamped out for a subject (weights by repetition).
fn modes_for(s: &Subj) -> Vec<Mode> {
    use Mode::*;
    match s {
        Subj::F32(_) | Subj::Char(_) => vec![Default, Default, Display, DisplayI, Debug, DebugI, Sval, SvalI, Serde, SerdeI],
        Subj::Isize(_) | Subj::Usize(_) => vec![Default, Default, Default, Display, DisplayI, Debug, DebugI, Value, Value, ValueI, Serde, SerdeI],
        Subj::Str(_) | Subj::Static(_) => vec![Default, Default, Display, DisplayI, Debug, DebugI, Value, ValueI, Sval, SvalI, Serde, SerdeI, Error],
        Subj::Disp(_) => vec![Default, Display, DisplayI, Debug, DebugI],
        Subj::Dyn(_) => vec![DisplayI, DebugI],
        Subj::OptI32(_) => vec![Debug, DebugI, Value, ValueI, Sval, SvalI, Serde, SerdeI],
        Subj::Node(_) | Subj::Derived(_) => vec![Debug, DebugI, Sval, Sval, SvalI, Serde, Serde, SerdeI],
        Subj::Err(_) => vec![Error, Error, Error, Error, Default, Display, DisplayI, Debug, DebugI],
        Subj::DynErr(_) => vec![Error],
        Subj::Wk(_) => vec![WellKnown],
        _ => vec![Default, Default, Default, Display, DisplayI, Debug, DebugI, Value, Value, ValueI, Sval, SvalI, Serde, SerdeI],
    }
}

fn case_of(subj: impl Strategy<Value = Subj>) -> impl Strategy<Value = Case> {
    (subj, any::<u32>(), opt(), hops(), prop::bool::weighted(0.25), enclosing(), prop::bool::weighted(0.4)).prop_map(|(subj, mi, opt, hops, as_map, enclosing, inspect_false)| {
        let modes = modes_for(&subj);
        let mode = modes[pick(mi, modes.len())];
        let opt = match &subj {
            Subj::Wk(Wk::LvlOpt(_)) | Subj::Wk(Wk::TraceIdOpt(_)) | Subj::Wk(Wk::SpanIdOpt(_)) => Opt::Plain,
            _ => opt,
        };
        Case { subj, mode, opt, hops, as_map, emit_macro: false, sinks: false, enclosing, dbg_macro: false, stacked: None, inspect_false }
    })
}

/// The same values through `emit::emit!` call sites (a subset of the static types).
fn emit_macro_case() -> impl Strategy<Value = Case> {
    let subj = prop_oneof![
        2 => any_i64().prop_map(Subj::I64),
        2 => any_u64().prop_map(Subj::U64),
        1 => u128_wide().prop_map(Subj::U128),
        2 => f64_bits().prop_map(Subj::F64),
        1 => f32_bits().prop_map(Subj::F32),
        1 => any::<bool>().prop_map(Subj::Bool),
        2 => any_text().prop_map(Subj::Str),
        2 => any_text().prop_map(Subj::String),
        6 => structured(),
        2 => chain().prop_map(Subj::Err),
    ];
    case_of(subj).prop_map(|mut c| {
        c.emit_macro = true;
        c
    })
}

/// `emit::dbg!` call sites: no attribute (Debug capture is promised) or any capture attribute.
fn dbg_macro_case() -> impl Strategy<Value = Case> {
    use Mode::*;
    let subj = prop_oneof![
        2 => any_i64().prop_map(Subj::I64),
        2 => any_u64().prop_map(Subj::U64),
        1 => u128_wide().prop_map(Subj::U128),
        2 => f64_bits().prop_map(Subj::F64),
        1 => f32_bits().prop_map(Subj::F32),
        1 => any::<bool>().prop_map(Subj::Bool),
        2 => any_text().prop_map(Subj::Str),
        2 => any_text().prop_map(Subj::String),
        5 => structured(),
        2 => chain().prop_map(Subj::Err),
    ];
    (subj, any::<u32>(), opt(), hops(), enclosing(), prop::bool::weighted(0.4)).prop_map(|(subj, mi, opt, hops, enclosing, inspect_false)| {
        let modes: &[Mode] = match &subj {
            Subj::F32(_) => &[Default, Default, Display, DisplayI, Debug, DebugI, Sval, SvalI, Serde, SerdeI],
            Subj::Str(_) => &[Default, Default, Display, DisplayI, Debug, DebugI, Value, ValueI, Sval, SvalI, Serde, SerdeI, Error],
            Subj::Node(_) => &[Default, Default, Debug, DebugI, Sval, Sval, SvalI, Serde, Serde, SerdeI],
            Subj::Err(_) => &[Default, Default, Error, Error, Error, Display, DisplayI, Debug, DebugI],
            _ => &[Default, Default, Display, DisplayI, Debug, DebugI, Value, Value, ValueI, Sval, SvalI, Serde, SerdeI],
        };
        let mode = modes[pick(mi, modes.len())];
        Case { subj, mode, opt, hops, as_map: false, emit_macro: false, sinks: false, enclosing, dbg_macro: true, stacked: None, inspect_false }
    })
}

/// Two different capture attributes on one property (props! and emit! sites).
fn stacked_case() -> impl Strategy<Value = Case> {
    let subj = prop_oneof![
        2 => any_i64().prop_map(Subj::I64),
        2 => f64_bits().prop_map(Subj::F64),
        2 => any_text().prop_map(Subj::String),
        3 => structured(),
    ];
    (subj, any::<u32>(), any::<u32>(), hops(), any::<bool>()).prop_map(|(subj, i, j, hops, emit_macro)| {
        let set: &[Mode] = if matches!(subj, Subj::Node(_)) { &dbg::STACK_NODE } else { &dbg::STACK_PRIM };
        let first = pick(i, set.len());
        // a different attribute for the last position
        let last = (first + 1 + pick(j, set.len() - 1)) % set.len();
        Case { subj, mode: set[last], opt: Opt::Plain, hops, as_map: false, emit_macro, sinks: false, enclosing: obs::Enclosing::None, dbg_macro: false, stacked: Some(set[first]), inspect_false: false }
    })
}

/// Numbers, booleans and strings through `emit::emit!` call sites into the real sinks.
fn sink_case() -> impl Strategy<Value = Case> {
    use Mode::*;
    let subj = prop_oneof![
        3 => any_i64().prop_map(Subj::I64),
        4 => any_u64().prop_map(Subj::U64),
        3 => u128_wide().prop_map(Subj::U128),
        3 => f64_bits().prop_map(Subj::F64),
        1 => f32_bits().prop_map(Subj::F32),
        1 => any::<bool>().prop_map(Subj::Bool),
        2 => any_text().prop_map(Subj::Str),
        2 => any_text().prop_map(Subj::String),
    ];
    (subj, any::<u32>(), opt()).prop_map(|(subj, mi, opt)| {
        let modes: &[Mode] = match &subj {
            Subj::F32(_) => &[Default, Default, Display, Debug, Sval, Serde],
            // a `str` is stored as the string itself under every attribute (don't-care under the fmt attributes)
            Subj::Str(_) => &[Default, Default, Value, Sval, Serde],
            _ => &[Default, Default, Default, Value, Display, Debug, Sval, Serde],
        };
        let mode = modes[pick(mi, modes.len())];
        Case { subj, mode, opt, hops: Vec::new(), as_map: false, emit_macro: true, sinks: true, enclosing: obs::Enclosing::None, dbg_macro: false, stacked: None, inspect_false: false }
    })
}

fn prims() -> impl Strategy<Value = Subj> {
    prop_oneof![
        2 => any_i8().prop_map(Subj::I8),
        2 => any_i16().prop_map(Subj::I16),
        3 => any_i32().prop_map(Subj::I32),
        3 => any_i64().prop_map(Subj::I64),
        3 => i128_wide().prop_map(Subj::I128),
        2 => any_isize().prop_map(|v| Subj::Isize(v as i64)),
        2 => any_u8().prop_map(Subj::U8),
        2 => any_u16().prop_map(Subj::U16),
        2 => any_u32().prop_map(Subj::U32),
        3 => any_u64().prop_map(Subj::U64),
        3 => u128_wide().prop_map(Subj::U128),
        2 => any_usize().prop_map(|v| Subj::Usize(v as u64)),
        3 => f32_bits().prop_map(Subj::F32),
        5 => f64_bits().prop_map(Subj::F64),
        2 => any::<bool>().prop_map(Subj::Bool),
        2 => any_char().prop_map(Subj::Char),
        2 => any_text().prop_map(Subj::Disp),
        1 => any_text().prop_map(Subj::Dyn),
        2 => prop::option::of(any_i32()).prop_map(Subj::OptI32),
    ]
}

fn strings() -> impl Strategy<Value = Subj> {
    prop_oneof![
        4 => any_text().prop_map(Subj::Str),
        4 => any_text().prop_map(Subj::String),
        1 => (0u8..8).prop_map(Subj::Static),
    ]
}

fn chain() -> impl Strategy<Value = Vec<String>> {
    prop::collection::vec(prop_oneof![any_text(), "[a-z ]{1,12}"], 1..=5)
}

fn errors() -> impl Strategy<Value = Subj> {
    prop_oneof![
        5 => chain().prop_map(Subj::Err),
        2 => chain().prop_map(Subj::DynErr),
        2 => chain().prop_map(|m| Subj::Wk(Wk::Err(m))),
        1 => chain().prop_map(|m| Subj::Wk(Wk::ErrDyn(m))),
        1 => any_text().prop_map(|m| Subj::Wk(Wk::ErrStr(m))),
    ]
}

fn hex_text(len: usize) -> impl Strategy<Value = String> {
    prop_oneof![
        4 => prop::collection::vec(prop::sample::select(vec!['0', '1', '9', 'a', 'f', 'A', 'F']), len..=len).prop_map(|v| v.into_iter().collect::<String>()),
        1 => prop::collection::vec(prop::sample::select(vec!['0', '1', 'f', 'g', ' ', '-']), len - 1..=len + 1).prop_map(|v| v.into_iter().collect::<String>()),
        1 => Just("0".repeat(len)),
        1 => any_text(),
    ]
}

fn well_known() -> impl Strategy<Value = Subj> {
    let lvl_text = prop_oneof![
        3 => prop::sample::select(vec!["debug", "info", "warn", "error", "INFO", "Warning", "err", "dbg", "information", "i", "", "trace", "fatal", "warn(3)"]).prop_map(str::to_string),
        1 => any_text(),
    ];
    prop_oneof![
        2 => (0u8..4).prop_map(Wk::Lvl),
        2 => lvl_text.prop_map(Wk::LvlStr),
        1 => prop::option::of(0u8..4).prop_map(Wk::LvlOpt),
        2 => u128_wide().prop_map(Wk::TraceId),
        2 => prop_oneof![4 => u128_wide(), 1 => Just(0u128)].prop_map(Wk::TraceIdNum),
        2 => hex_text(32).prop_map(Wk::TraceIdStr),
        1 => prop::option::of(any_u64()).prop_map(Wk::TraceIdOpt),
        2 => any_u64().prop_map(Wk::SpanId),
        2 => any_u64().prop_map(Wk::SpanIdNum),
        2 => hex_text(16).prop_map(Wk::SpanIdStr),
        1 => prop::option::of(any_u64()).prop_map(Wk::SpanIdOpt),
        1 => any_u64().prop_map(Wk::SpanParent),
        1 => any_u64().prop_map(Wk::SpanParentNum),
        1 => hex_text(16).prop_map(Wk::SpanParentStr),
    ]
    .prop_map(Subj::Wk)
}

fn structured() -> impl Strategy<Value = Subj> {
    // half of the trees are generated without `Seq` nodes below the root so that a good share of
    // sval-captured values stays clear of the known nested-sequence finding
    prop_oneof![
        1 => tree(3),
        1 => tree_no_nested_seq(),
    ]
    .prop_map(Subj::Node)
}

fn main() {
    vcore::run("C19", Level::Exploration, RULE, &ASSUMPTIONS, |s| {
        // DESIGN: each capture mode >= 8 %, ambient path >= 20 % (of ~100 k quick cases); the
        // thresholds below are what the quick tier exceeds at least tenfold
        for class in ["mode:default", "mode:display", "mode:debug", "mode:value", "mode:sval", "mode:serde", "mode:error"] {
            s.require(class, 800);
        }
        s.require("optional:none", 800);
        s.require("optional:some", 800);
        s.require("path:ambient", 2000);
        s.require("path:thread", 300);
        s.require("path:erased", 1500);
        s.require("path:owned-copy", 1500);
        s.require("shape:nested-seq", 500);
        s.require("shape:no-nested-seq", 1500);
        s.require("shape:depth>=2", 1500);
        s.require("cross:comparable", 1500);
        s.require("number:extreme", 300);
        s.require("error:depth-4", 100);
        s.require("error:depth-0", 100);
        s.require("dontcare:cross-framework-noncomparable", 20);
        s.require("site:emit-macro", 2000);
        // an ambient hop made inside an enclosing frame that already holds the key
        s.require(obs::ENC_SAME_TEXT, 3000);
        s.require(obs::ENC_SAME_VALUE, 1000);
        s.require(obs::ENC_OTHER_VALUE, 1000);
        s.require(obs::ENC_OTHER_KEYS, 500);

        // formatting under non-default format specs ({:#?}, {:>12?}, {:08}, {:+}, {:.3}, {:x?}, ...) of values
        // captured in debug / display mode and of typed numbers, booleans and strings
        s.require(check::SPEC_DEBUG_READ, 5000);
        s.require(check::SPEC_DEBUG_PRETTY, 2000);
        s.require(check::SPEC_DISPLAY_READ, 3000);
        s.require(check::SPEC_TYPED_READ, 3000);
        s.require(check::SPEC_TYPED_BUFFERED, 2000);
        s.require(check::SPEC_TYPED_OWNED, 3000);
        s.require(check::SPEC_DONTCARE, 1000);

        s.gen("primitives", s.n(100_000, 3_000_000), || case_of(prims()), sites::check);
        s.gen("strings", s.n(40_000, 1_200_000), || case_of(strings()), sites::check);
        s.gen("structured", s.n(80_000, 2_400_000), || case_of(structured()), sites::check);
        s.gen("derived", s.n(24_000, 700_000), || case_of(derived::dspec().prop_map(Subj::Derived)), sites::check);
        s.gen("errors", s.n(40_000, 1_200_000), || case_of(errors()), sites::check);
        s.gen("well-known", s.n(16_000, 500_000), || case_of(well_known()), sites::check);
        s.gen("emit-macro", s.n(40_000, 1_200_000), emit_macro_case, sites::check);

        // "via each sink": the same call sites, the event handed to emit_file and emit_otlp (JSON + protobuf)
        s.require("path:sinks", 1000);
        s.require("sinks:integer-beyond-i64", 100);
        s.require("sinks:non-finite-float", 20);
        s.gen("sink-paths", s.n(6_000, 200_000), sink_case, sites::check);
        c13::sinks::shutdown();

        // dbg! (shared runtime, anonymous default capture) and stacked capture attributes
        s.require("site:dbg-macro", 3000);
        s.require("site:dbg-macro-with-attribute", 2000);
        s.require("site:dbg-macro-no-attribute", 500);
        s.require("site:stacked-attributes", 2000);
        s.require("attr:inspect-false", 5000);
        s.gen("dbg-macro", s.n(40_000, 1_200_000), dbg_macro_case, sites::check);
        s.gen("stacked-attributes", s.n(24_000, 700_000), stacked_case, sites::check);

        // three properties per call, any subset optional / None, every source order, props!/emit!/info!
        s.require("siblings:none-sorts-before-a-present-sibling", 2000);
        s.require("siblings:none-sorts-before-lvl", 300);
        s.require("siblings:all-none", 100);
        s.require("siblings:all-optionals-some", 1000);
        s.enumerate("sibling-shapes", multi::all_shapes().into_iter(), multi::check);
        s.gen("sibling-properties", s.n(60_000, 1_800_000), || multi::mcase(hops(), enclosing()), multi::check);

        // the SAME key captured at the call site and present, with a value of another type, wherever an
        // event's props are joined with others; every typed read path must answer as the call-site value alone
        s.require("site:shadowed-key", 4000);
        for place in shadow::Place::ALL {
            s.require(place.label(), 500);
        }
        for (site, shadowed) in [
            ("int", "int"), ("int", "float"), ("int", "bool"), ("int", "str"),
            ("float", "int"), ("float", "float"), ("float", "bool"), ("float", "str"),
            ("bool", "int"), ("bool", "float"), ("bool", "str"),
            ("str", "int"), ("str", "float"), ("str", "bool"),
        ] {
            s.require(&format!("shadow:pair/site-{site}/shadowed-{shadowed}"), 100);
        }
        s.require("shadow:call-site-value-does-not-cast-shadowed-one-does", 3000);
        s.require("shadow:two-shadowing-layers", 1500);
        s.require("shadow:read/inside-a-generic-filter", 1500);
        for path in ["generic/pull", "generic/get-cast", "by-ref/pull", "erased/pull", "erased/get-cast", "dedup/pull", "dedup/get-cast", "dedup-erased/pull", "as-map/pull", "for_each/first", "dedup/for_each", "erased-event/pull", "erased-event/get-cast"] {
            s.require(&format!("shadow:read/{path}"), 1500);
        }
        s.gen("shadowed-keys", s.n(40_000, 1_200_000), shadow::scase, shadow::check);

        // template holes with #[emit::fmt("..")] flags: the consumer-chosen spec must reach the original's impl
        s.require(holes::HOLE_DEBUG, 1000);
        s.require(holes::HOLE_DEBUG_PRETTY, 300);
        s.require(holes::HOLE_DISPLAY, 300);
        s.require(holes::HOLE_TYPED, 300);
        s.gen("fmt-holes", s.n(16_000, 480_000), holes::hcase, holes::check);
    })
}
