// stub: check for C19 not built yet
fn main() {
    eprintln!("C19: check not built yet");
    std::process::exit(2);
}
