//! Observation of a captured value and the read paths that lead to it.

use std::cell::RefCell;
use std::ops::ControlFlow;

use emit::value::OwnedValue;
use emit::{Ctxt, Emitter, Props, Str, Value};
use serde::{Deserialize, Serialize};

/// One step between the call site and the reader.
#[derive(Serialize, Deserialize, Debug, Clone, Copy, PartialEq, Eq)]
pub enum Hop {
    /// view the props as `&dyn ErasedProps`
    Erase,
    /// wrap the props in an `Event` and hand it to a `&dyn ErasedEmitter`; read inside the emitter
    Event,
    /// copy every value with `Value::to_owned()` into an owned collection
    Owned,
    /// copy every value with `Value::to_shared()`
    Shared,
    /// push a frame on a `ThreadLocalCtxt`, read the ambient props with `with_current`
    CtxtPush,
    /// same with `Frame::root`
    CtxtRoot,
    /// push a frame, then emit an (otherwise empty) event through a `Runtime` using that ctxt and
    /// read the event's props inside the emitter
    Ambient,
    /// open a frame here, carry it to another thread, enter it there and read the ambient props
    CtxtThread,
    /// owned copy moved to another thread
    OwnedThread,
}

impl Hop {
    /// Does this hop buffer values (so that borrowed-ness may be lost)?
    pub fn buffers(self) -> bool {
        !matches!(self, Hop::Erase | Hop::Event)
    }
    pub fn ambient(self) -> bool {
        matches!(self, Hop::CtxtPush | Hop::CtxtRoot | Hop::Ambient | Hop::CtxtThread)
    }
    pub fn thread(self) -> bool {
        matches!(self, Hop::CtxtThread | Hop::OwnedThread)
    }
    pub fn label(self) -> &'static str {
        match self {
            Hop::Erase => "path:erased-props",
            Hop::Event => "path:erased-event",
            Hop::Owned => "path:to_owned",
            Hop::Shared => "path:to_shared",
            Hop::CtxtPush => "path:ctxt-push",
            Hop::CtxtRoot => "path:ctxt-root",
            Hop::Ambient => "path:ctxt-runtime-emit",
            Hop::CtxtThread => "path:frame-across-thread",
            Hop::OwnedThread => "path:owned-across-thread",
        }
    }
}

/// What the ambient context already holds when an ambient hop (`CtxtPush`, `Ambient`, `CtxtThread`)
/// pushes the case's props: an ENCLOSING frame that is entered first. Its value for the case's key is a
/// decoy derived from the value being pushed; whatever it is, it must never show through the push.
#[derive(Serialize, Deserialize, Debug, Clone, Copy, PartialEq, Eq, Default)]
pub enum Enclosing {
    /// the context is empty (apart from what earlier hops of the same path left current)
    #[default]
    None,
    /// same key, a value of a DIFFERENT type with the SAME Display text: the text as a string (a
    /// Display-only value of the same text when the pushed value is itself a string)
    SameTextString,
    /// same key, same text, numeric retype where there is one (`1.0` <-> `1`, `5u8` <-> `5.0`, beyond
    /// 2^53 another integer width); falls back to `SameTextString`
    SameTextNumber,
    /// same key, the same value (control)
    SameValue,
    /// same key, a different value of the same kind (control)
    OtherValue,
    /// the key is absent from the enclosing frame, other keys are present
    OtherKeys,
}

pub const ENC_SAME_TEXT: &str = "ambient:enclosing-frame-same-key-same-text-other-type";
pub const ENC_SAME_VALUE: &str = "ambient:enclosing-frame-same-key-same-value";
pub const ENC_OTHER_VALUE: &str = "ambient:enclosing-frame-same-key-other-value";
pub const ENC_OTHER_KEYS: &str = "ambient:enclosing-frame-other-keys";

/// Which (more expensive or type specific) observations to make, and how ambient hops are set up.
#[derive(Debug, Clone, Copy, Default)]
pub struct Want {
    pub ids: bool,
    pub as_map: bool,
    /// also serialise through the length-hint-insensitive serde JSON writer (D17 characterisation)
    pub nohint: bool,
    pub enc: Enclosing,
    /// format the value under the non-default format specs of `check::SPECS`: 0 = no, 1 = the `Value`
    /// through its `Display` and `Debug` impls, 2 = also an `OwnedValue` copy through ITS impls
    pub specs: u8,
}

/// The value formatted under every spec of `check::SPECS` (+ `DEBUG_ONLY_SPECS` for `Debug`).
#[derive(Debug, Clone)]
pub struct SpecObs {
    pub display: Vec<String>,
    pub debug: Vec<String>,
    /// `value.to_owned()` formatted through `OwnedValue`'s own `Display` / `Debug` impls
    pub owned: Option<(Vec<String>, Vec<String>)>,
}

#[derive(Debug, Clone, Default)]
pub struct Casts {
    pub i8: Option<i8>,
    pub i16: Option<i16>,
    pub i32: Option<i32>,
    pub i64: Option<i64>,
    pub i128: Option<i128>,
    pub isize: Option<isize>,
    pub u8: Option<u8>,
    pub u16: Option<u16>,
    pub u32: Option<u32>,
    pub u64: Option<u64>,
    pub u128: Option<u128>,
    pub usize: Option<usize>,
    pub f64: Option<f64>,
    pub bool: Option<bool>,
    /// `cast::<&str>()`
    pub str_ref: Option<String>,
    /// `to_borrowed_str()`
    pub borrowed: Option<String>,
    pub string: Option<String>,
    pub cow: Option<String>,
    pub estr: Option<String>,
}

/// Everything the oracle looks at for one value.
#[derive(Debug, Clone)]
pub struct Obs {
    pub display: String,
    pub serde: Result<String, String>,
    pub sval: Result<String, String>,
    /// serde rendering by `jsonw` (ignores `serialize_seq` length hints)
    pub serde_nohint: Option<Result<String, String>>,
    pub casts: Casts,
    pub as_f64: f64,
    pub is_null: bool,
    /// `to_borrowed_error()` chain messages
    pub err_chain: Option<Vec<String>>,
    /// `cast::<&(dyn Error + 'static)>()` chain messages
    pub err_cast: Option<Vec<String>>,
    pub lvl: Option<emit::Level>,
    pub trace_id: Option<emit::TraceId>,
    pub span_id: Option<emit::SpanId>,
    pub specs: Option<SpecObs>,
}

fn chain(e: &(dyn std::error::Error + 'static)) -> Vec<String> {
    let mut out = vec![e.to_string()];
    let mut cur = e.source();
    while let Some(s) = cur {
        out.push(s.to_string());
        cur = s.source();
        if out.len() > 16 {
            break;
        }
    }
    out
}

pub fn observe(v: &Value, want: Want) -> Obs {
    let casts = Casts {
        i8: v.by_ref().cast(),
        i16: v.by_ref().cast(),
        i32: v.by_ref().cast(),
        i64: v.by_ref().cast(),
        i128: v.by_ref().cast(),
        isize: v.by_ref().cast(),
        u8: v.by_ref().cast(),
        u16: v.by_ref().cast(),
        u32: v.by_ref().cast(),
        u64: v.by_ref().cast(),
        u128: v.by_ref().cast(),
        usize: v.by_ref().cast(),
        f64: v.by_ref().cast(),
        bool: v.by_ref().cast(),
        str_ref: v.by_ref().cast::<&str>().map(str::to_string),
        borrowed: v.to_borrowed_str().map(str::to_string),
        string: v.by_ref().cast::<String>(),
        cow: v.by_ref().cast::<std::borrow::Cow<str>>().map(|c| c.into_owned()),
        estr: v.by_ref().cast::<Str>().map(|s| s.get().to_string()),
    };
    Obs {
        display: v.to_string(),
        serde: serde_json::to_string(v).map_err(|e| e.to_string()),
        sval: sval_json::stream_to_string(v).map_err(|e| e.to_string()),
        serde_nohint: if want.nohint { Some(crate::jsonw::to_json(v)) } else { None },
        casts,
        as_f64: v.as_f64(),
        is_null: v.is_null(),
        err_chain: v.to_borrowed_error().map(chain),
        err_cast: v.by_ref().cast::<&(dyn std::error::Error + 'static)>().map(chain),
        lvl: if want.ids { v.by_ref().cast() } else { None },
        trace_id: if want.ids { v.by_ref().cast() } else { None },
        span_id: if want.ids { v.by_ref().cast() } else { None },
        specs: if want.specs > 0 {
            Some(SpecObs {
                display: crate::check::display_table(v),
                debug: crate::check::debug_table(v),
                owned: if want.specs > 1 {
                    let o: OwnedValue = v.to_owned();
                    Some((crate::check::display_table(&o), crate::check::debug_table(&o)))
                } else {
                    None
                },
            })
        } else {
            None
        },
    }
}

/// What a reader at the end of a path sees for one key.
#[derive(Debug, Clone)]
pub struct Read {
    /// number of hops taken before this read
    pub hops: usize,
    /// `get(key)`
    pub got: Option<Obs>,
    /// how many enumerated pairs carry the key
    pub enumerated: usize,
    /// how many pairs were enumerated in total
    pub total: usize,
    /// Display text of the first enumerated value with the key
    pub first_enumerated: Option<String>,
    /// `serde_json(props.as_map())`, `sval_json(props.as_map())`
    pub map_serde: Option<Result<String, String>>,
    pub map_sval: Option<Result<String, String>>,
    /// set on the first read after an ambient hop that was made inside an enclosing frame: the class
    /// of what that frame held (one of the `ENC_*` labels)
    pub enclosing: Option<&'static str>,
}

pub fn read<P: Props + ?Sized>(props: &P, key: &str, hops: usize, want: Want) -> Read {
    let got = props.get(key).map(|v| observe(&v, want));
    let mut enumerated = 0;
    let mut total = 0;
    let mut first = None;
    let _ = props.for_each(|k, v| {
        total += 1;
        if k.get() == key {
            enumerated += 1;
            if first.is_none() {
                first = Some(v.to_string());
            }
        }
        ControlFlow::Continue(())
    });
    let (map_serde, map_sval) = if want.as_map {
        (
            Some(serde_json::to_string(<&P as Props>::as_map(&props)).map_err(|e| e.to_string())),
            Some(sval_json::stream_to_string(<&P as Props>::as_map(&props)).map_err(|e| e.to_string())),
        )
    } else {
        (None, None)
    };
    Read { hops, got, enumerated, total, first_enumerated: first, map_serde, map_sval, enclosing: None }
}

thread_local! {
    static CTXT: emit::platform::thread_local_ctxt::ThreadLocalCtxt = emit::platform::thread_local_ctxt::ThreadLocalCtxt::new();
}

fn ctxt() -> emit::platform::thread_local_ctxt::ThreadLocalCtxt {
    CTXT.with(|c| *c)
}

fn collect<P: Props + ?Sized>(props: &P, shared: bool) -> Vec<(Str<'static>, OwnedValue)> {
    let mut out = Vec::new();
    let _ = props.for_each(|k, v| {
        out.push((k.to_owned(), if shared { v.to_shared() } else { v.to_owned() }));
        ControlFlow::Continue(())
    });
    out
}

type OwnedProps = Vec<(Str<'static>, OwnedValue)>;

fn owned_str(s: &str) -> OwnedValue {
    Value::from(s).to_owned()
}

/// The contents of the enclosing frame for an ambient hop over `props` (None = no enclosing frame).
fn enclosing_props<P: Props + ?Sized>(props: &P, key: &str, enc: Enclosing) -> Option<(OwnedProps, &'static str)> {
    let other_keys = || vec![(Str::new("w0"), Value::from(1i64).to_owned()), (Str::new("w1"), owned_str("enclosing"))];
    match enc {
        Enclosing::None => return None,
        Enclosing::OtherKeys => return Some((other_keys(), ENC_OTHER_KEYS)),
        _ => {}
    }
    // a property that is not there (optional None) cannot be shadowed: no enclosing frame then
    let v = props.get(key)?;
    let text = v.to_string();
    let is_string = v.to_cow_str().is_some();
    let int: Option<(bool, u128)> = match (v.by_ref().cast::<i128>(), v.by_ref().cast::<u128>()) {
        (Some(n), _) => Some((n < 0, n.unsigned_abs())),
        (None, Some(n)) => Some((false, n)),
        _ => None,
    };
    let float: Option<f64> = if int.is_none() { v.by_ref().cast::<f64>() } else { None };
    let same_text_string = || {
        if is_string {
            // a Display-only value with the string's text
            Value::from_display(&text).to_owned()
        } else {
            owned_str(&text)
        }
    };
    let (decoy, label) = match enc {
        Enclosing::SameValue => (v.to_owned(), ENC_SAME_VALUE),
        Enclosing::SameTextString => (same_text_string(), ENC_SAME_TEXT),
        Enclosing::SameTextNumber => {
            let cand = match (int, float) {
                (Some((neg, mag)), _) if mag <= 1u128 << 53 => Some(Value::from(if neg { -(mag as f64) } else { mag as f64 }).to_owned()),
                (Some((false, mag)), _) if mag <= i128::MAX as u128 && v.by_ref().cast::<u64>().is_some() => Some(Value::from(mag as i128).to_owned()),
                (Some((false, mag)), _) => Some(Value::from(mag).to_owned()),
                (Some((true, mag)), _) => Some(Value::from((mag as i128).wrapping_neg()).to_owned()),
                (None, Some(f)) if f.fract() == 0.0 && f.abs() < 9.2e18 => Some(Value::from(f as i64).to_owned()),
                _ => None,
            };
            match cand {
                Some(c) if c.by_ref().to_string() == text => (c, ENC_SAME_TEXT),
                _ => (same_text_string(), ENC_SAME_TEXT),
            }
        }
        _ => {
            let cand = if let Some(b) = v.by_ref().cast::<bool>() {
                Value::from(!b).to_owned()
            } else if is_string {
                owned_str(&format!("{text}~"))
            } else if let Some((neg, mag)) = int {
                match (neg, u64::try_from(mag), i64::try_from(mag)) {
                    (false, _, Ok(n)) => Value::from(n ^ 1).to_owned(),
                    (false, Ok(n), _) => Value::from(n ^ 1).to_owned(),
                    (false, _, _) => Value::from(mag ^ 1).to_owned(),
                    (true, _, _) => Value::from((mag as i128).wrapping_neg() ^ 1).to_owned(),
                }
            } else if let Some(f) = float {
                Value::from(if f.is_finite() && f + 1.0 != f { f + 1.0 } else { 1.5 }).to_owned()
            } else {
                owned_str(&format!("decoy of {text}"))
            };
            if cand.by_ref().to_string() == text {
                (owned_str(&format!("decoy of {text}")), ENC_OTHER_VALUE)
            } else {
                (cand, ENC_OTHER_VALUE)
            }
        }
    };
    Some((vec![(Str::new_ref(key).to_owned(), decoy)], label))
}

/// Run `f` with the enclosing frame (if any) entered on `c`.
fn in_enclosing<R>(c: emit::platform::thread_local_ctxt::ThreadLocalCtxt, enc: &Option<(OwnedProps, &'static str)>, f: impl FnOnce() -> R) -> R {
    match enc {
        Some((props, _)) => emit::Frame::push(c, &props[..]).call(f),
        None => f(),
    }
}

fn tag(reads: &mut [Read], at: usize, enc: &Option<(OwnedProps, &'static str)>) {
    if let (Some(r), Some((_, label))) = (reads.get_mut(at), enc) {
        r.enclosing = Some(label);
    }
}

/// Follow `hops` starting from `props`; read the key at the start and after every hop.
/// Returns the reads in path order (index 0 = before any hop).
pub fn drive<P: Props + ?Sized>(props: &P, key: &str, hops: &[Hop], done: usize, want: Want, out: &mut Vec<Read>) -> Result<(), vcore::Fail> {
    out.push(read(props, key, done, want));
    let Some((hop, rest)) = hops.split_first() else {
        return Ok(());
    };
    let done = done + 1;
    // a large (structured / error) subject has a format-spec clause on unbuffered reads only: not formatted
    // two dozen times more once it is held as text
    let want = if hop.buffers() && want.specs == 1 { Want { specs: 0, ..want } } else { want };
    match hop {
        Hop::Erase => {
            let erased: &dyn emit::props::ErasedProps = &props;
            drive(erased, key, rest, done, want, out)
        }
        Hop::Event => {
            let result: RefCell<(Vec<Read>, Result<(), vcore::Fail>)> = RefCell::new((Vec::new(), Ok(())));
            let emitter = emit::emitter::from_fn(|evt| {
                let mut r = result.borrow_mut();
                let (reads, res) = &mut *r;
                *res = drive(evt.props(), key, rest, done, want, reads);
            });
            let erased: &dyn emit::emitter::ErasedEmitter = &emitter;
            erased.emit(emit::Event::new(emit::path!("c19"), emit::Template::literal("c19"), emit::Empty, props));
            let (reads, res) = result.into_inner();
            out.extend(reads);
            res
        }
        Hop::Owned => {
            let owned = collect(props, false);
            drive(&owned[..], key, rest, done, want, out)
        }
        Hop::Shared => {
            let owned = collect(props, true);
            drive(&owned[..], key, rest, done, want, out)
        }
        Hop::CtxtPush => {
            let c = ctxt();
            let enc = enclosing_props(props, key, want.enc);
            let at = out.len();
            let res = in_enclosing(c, &enc, || emit::Frame::push(c, props).call(|| c.with_current(|cur| drive(cur, key, rest, done, want, out))));
            tag(out, at, &enc);
            res
        }
        Hop::CtxtRoot => {
            let c = ctxt();
            emit::Frame::root(c, props).call(|| c.with_current(|cur| drive(cur, key, rest, done, want, out)))
        }
        Hop::Ambient => {
            let c = ctxt();
            let result: RefCell<(Vec<Read>, Result<(), vcore::Fail>)> = RefCell::new((Vec::new(), Ok(())));
            let emitter = emit::emitter::from_fn(|evt| {
                let mut r = result.borrow_mut();
                let (reads, res) = &mut *r;
                *res = drive(evt.props(), key, rest, done, want, reads);
            });
            let rt = emit::runtime::Runtime::new().with_emitter(emitter).with_ctxt(c);
            let enc = enclosing_props(props, key, want.enc);
            in_enclosing(c, &enc, || {
                emit::Frame::push(c, props).call(|| {
                    rt.emit(emit::Event::new(emit::path!("c19"), emit::Template::literal("c19"), emit::Empty, emit::Empty));
                })
            });
            drop(rt);
            let (mut reads, res) = result.into_inner();
            tag(&mut reads, 0, &enc);
            out.extend(reads);
            res
        }
        Hop::CtxtThread => {
            let c = ctxt();
            // the frame is opened (here) while the enclosing frame is entered, then carried away
            let enc = enclosing_props(props, key, want.enc);
            let frame = in_enclosing(c, &enc, || emit::Frame::push(c, props));
            let (mut reads, res) = std::thread::scope(|s| {
                s.spawn(move || {
                    let mut reads = Vec::new();
                    let res = match vcore::catch(|| frame.call(|| c.with_current(|cur| drive(cur, key, rest, done, want, &mut reads)))) {
                        Ok(r) => r,
                        Err(f) => Err(f),
                    };
                    (reads, res)
                })
                .join()
                .expect("reader thread")
            });
            tag(&mut reads, 0, &enc);
            out.extend(reads);
            res
        }
        Hop::OwnedThread => {
            let owned = collect(props, false);
            let (reads, res) = std::thread::scope(|s| {
                s.spawn(move || {
                    let mut reads = Vec::new();
                    let res = match vcore::catch(|| drive(&owned[..], key, rest, done, want, &mut reads)) {
                        Ok(r) => r,
                        Err(f) => Err(f),
                    };
                    (reads, res)
                })
                .join()
                .expect("reader thread")
            });
            out.extend(reads);
            res
        }
    }
}
