//! Observation of a captured value and the read paths that lead to it.

use std::cell::RefCell;
use std::ops::ControlFlow;

use emit::value::OwnedValue;
use emit::{Ctxt, Emitter, Props, Str, Value};
use serde::{Deserialize, Serialize};

/// One step between the call site and the reader.
#[derive(Serialize, Deserialize, Debug, Clone, Copy, PartialEq, Eq)]
pub enum Hop {
    /// view the props as `&dyn ErasedProps`
    Erase,
    /// wrap the props in an `Event` and hand it to a `&dyn ErasedEmitter`; read inside the emitter
    Event,
    /// copy every value with `Value::to_owned()` into an owned collection
    Owned,
    /// copy every value with `Value::to_shared()`
    Shared,
    /// push a frame on a `ThreadLocalCtxt`, read the ambient props with `with_current`
    CtxtPush,
    /// same with `Frame::root`
    CtxtRoot,
    /// push a frame, then emit an (otherwise empty) event through a `Runtime` using that ctxt and
    /// read the event's props inside the emitter
    Ambient,
    /// open a frame here, carry it to another thread, enter it there and read the ambient props
    CtxtThread,
    /// owned copy moved to another thread
    OwnedThread,
}

impl Hop {
    /// Does this hop buffer values (so that borrowed-ness may be lost)?
    pub fn buffers(self) -> bool {
        !matches!(self, Hop::Erase | Hop::Event)
    }
    pub fn ambient(self) -> bool {
        matches!(self, Hop::CtxtPush | Hop::CtxtRoot | Hop::Ambient | Hop::CtxtThread)
    }
    pub fn thread(self) -> bool {
        matches!(self, Hop::CtxtThread | Hop::OwnedThread)
    }
    pub fn label(self) -> &'static str {
        match self {
            Hop::Erase => "path:erased-props",
            Hop::Event => "path:erased-event",
            Hop::Owned => "path:to_owned",
            Hop::Shared => "path:to_shared",
            Hop::CtxtPush => "path:ctxt-push",
            Hop::CtxtRoot => "path:ctxt-root",
            Hop::Ambient => "path:ctxt-runtime-emit",
            Hop::CtxtThread => "path:frame-across-thread",
            Hop::OwnedThread => "path:owned-across-thread",
        }
    }
}

/// Which (more expensive or type specific) observations to make.
#[derive(Debug, Clone, Copy, Default)]
pub struct Want {
    pub ids: bool,
    pub as_map: bool,
    /// also serialise through the length-hint-insensitive serde JSON writer (D17 characterisation)
    pub nohint: bool,
}

#[derive(Debug, Clone, Default)]
pub struct Casts {
    pub i8: Option<i8>,
    pub i16: Option<i16>,
    pub i32: Option<i32>,
    pub i64: Option<i64>,
    pub i128: Option<i128>,
    pub isize: Option<isize>,
    pub u8: Option<u8>,
    pub u16: Option<u16>,
    pub u32: Option<u32>,
    pub u64: Option<u64>,
    pub u128: Option<u128>,
    pub usize: Option<usize>,
    pub f64: Option<f64>,
    pub bool: Option<bool>,
    /// `cast::<&str>()`
    pub str_ref: Option<String>,
    /// `to_borrowed_str()`
    pub borrowed: Option<String>,
    pub string: Option<String>,
    pub cow: Option<String>,
    pub estr: Option<String>,
}

/// Everything the oracle looks at for one value.
#[derive(Debug, Clone)]
pub struct Obs {
    pub display: String,
    pub serde: Result<String, String>,
    pub sval: Result<String, String>,
    /// serde rendering by `jsonw` (ignores `serialize_seq` length hints)
    pub serde_nohint: Option<Result<String, String>>,
    pub casts: Casts,
    pub as_f64: f64,
    pub is_null: bool,
    /// `to_borrowed_error()` chain messages
    pub err_chain: Option<Vec<String>>,
    /// `cast::<&(dyn Error + 'static)>()` chain messages
    pub err_cast: Option<Vec<String>>,
    pub lvl: Option<emit::Level>,
    pub trace_id: Option<emit::TraceId>,
    pub span_id: Option<emit::SpanId>,
}

fn chain(e: &(dyn std::error::Error + 'static)) -> Vec<String> {
    let mut out = vec![e.to_string()];
    let mut cur = e.source();
    while let Some(s) = cur {
        out.push(s.to_string());
        cur = s.source();
        if out.len() > 16 {
            break;
        }
    }
    out
}

pub fn observe(v: &Value, want: Want) -> Obs {
    let casts = Casts {
        i8: v.by_ref().cast(),
        i16: v.by_ref().cast(),
        i32: v.by_ref().cast(),
        i64: v.by_ref().cast(),
        i128: v.by_ref().cast(),
        isize: v.by_ref().cast(),
        u8: v.by_ref().cast(),
        u16: v.by_ref().cast(),
        u32: v.by_ref().cast(),
        u64: v.by_ref().cast(),
        u128: v.by_ref().cast(),
        usize: v.by_ref().cast(),
        f64: v.by_ref().cast(),
        bool: v.by_ref().cast(),
        str_ref: v.by_ref().cast::<&str>().map(str::to_string),
        borrowed: v.to_borrowed_str().map(str::to_string),
        string: v.by_ref().cast::<String>(),
        cow: v.by_ref().cast::<std::borrow::Cow<str>>().map(|c| c.into_owned()),
        estr: v.by_ref().cast::<Str>().map(|s| s.get().to_string()),
    };
    Obs {
        display: v.to_string(),
        serde: serde_json::to_string(v).map_err(|e| e.to_string()),
        sval: sval_json::stream_to_string(v).map_err(|e| e.to_string()),
        serde_nohint: if want.nohint { Some(crate::jsonw::to_json(v)) } else { None },
        casts,
        as_f64: v.as_f64(),
        is_null: v.is_null(),
        err_chain: v.to_borrowed_error().map(chain),
        err_cast: v.by_ref().cast::<&(dyn std::error::Error + 'static)>().map(chain),
        lvl: if want.ids { v.by_ref().cast() } else { None },
        trace_id: if want.ids { v.by_ref().cast() } else { None },
        span_id: if want.ids { v.by_ref().cast() } else { None },
    }
}

/// What a reader at the end of a path sees for one key.
#[derive(Debug, Clone)]
pub struct Read {
    /// number of hops taken before this read
    pub hops: usize,
    /// `get(key)`
    pub got: Option<Obs>,
    /// how many enumerated pairs carry the key
    pub enumerated: usize,
    /// how many pairs were enumerated in total
    pub total: usize,
    /// Display text of the first enumerated value with the key
    pub first_enumerated: Option<String>,
    /// `serde_json(props.as_map())`, `sval_json(props.as_map())`
    pub map_serde: Option<Result<String, String>>,
    pub map_sval: Option<Result<String, String>>,
}

pub fn read<P: Props + ?Sized>(props: &P, key: &str, hops: usize, want: Want) -> Read {
    let got = props.get(key).map(|v| observe(&v, want));
    let mut enumerated = 0;
    let mut total = 0;
    let mut first = None;
    let _ = props.for_each(|k, v| {
        total += 1;
        if k.get() == key {
            enumerated += 1;
            if first.is_none() {
                first = Some(v.to_string());
            }
        }
        ControlFlow::Continue(())
    });
    let (map_serde, map_sval) = if want.as_map {
        (
            Some(serde_json::to_string(<&P as Props>::as_map(&props)).map_err(|e| e.to_string())),
            Some(sval_json::stream_to_string(<&P as Props>::as_map(&props)).map_err(|e| e.to_string())),
        )
    } else {
        (None, None)
    };
    Read { hops, got, enumerated, total, first_enumerated: first, map_serde, map_sval }
}

thread_local! {
    static CTXT: emit::platform::thread_local_ctxt::ThreadLocalCtxt = emit::platform::thread_local_ctxt::ThreadLocalCtxt::new();
}

fn ctxt() -> emit::platform::thread_local_ctxt::ThreadLocalCtxt {
    CTXT.with(|c| *c)
}

fn collect<P: Props + ?Sized>(props: &P, shared: bool) -> Vec<(Str<'static>, OwnedValue)> {
    let mut out = Vec::new();
    let _ = props.for_each(|k, v| {
        out.push((k.to_owned(), if shared { v.to_shared() } else { v.to_owned() }));
        ControlFlow::Continue(())
    });
    out
}

/// Follow `hops` starting from `props`; read the key at the start and after every hop.
/// Returns the reads in path order (index 0 = before any hop).
pub fn drive<P: Props + ?Sized>(props: &P, key: &str, hops: &[Hop], done: usize, want: Want, out: &mut Vec<Read>) -> Result<(), vcore::Fail> {
    out.push(read(props, key, done, want));
    let Some((hop, rest)) = hops.split_first() else {
        return Ok(());
    };
    let done = done + 1;
    match hop {
        Hop::Erase => {
            let erased: &dyn emit::props::ErasedProps = &props;
            drive(erased, key, rest, done, want, out)
        }
        Hop::Event => {
            let result: RefCell<(Vec<Read>, Result<(), vcore::Fail>)> = RefCell::new((Vec::new(), Ok(())));
            let emitter = emit::emitter::from_fn(|evt| {
                let mut r = result.borrow_mut();
                let (reads, res) = &mut *r;
                *res = drive(evt.props(), key, rest, done, want, reads);
            });
            let erased: &dyn emit::emitter::ErasedEmitter = &emitter;
            erased.emit(emit::Event::new(emit::path!("c19"), emit::Template::literal("c19"), emit::Empty, props));
            let (reads, res) = result.into_inner();
            out.extend(reads);
            res
        }
        Hop::Owned => {
            let owned = collect(props, false);
            drive(&owned[..], key, rest, done, want, out)
        }
        Hop::Shared => {
            let owned = collect(props, true);
            drive(&owned[..], key, rest, done, want, out)
        }
        Hop::CtxtPush => {
            let c = ctxt();
            emit::Frame::push(c, props).call(|| c.with_current(|cur| drive(cur, key, rest, done, want, out)))
        }
        Hop::CtxtRoot => {
            let c = ctxt();
            emit::Frame::root(c, props).call(|| c.with_current(|cur| drive(cur, key, rest, done, want, out)))
        }
        Hop::Ambient => {
            let c = ctxt();
            let result: RefCell<(Vec<Read>, Result<(), vcore::Fail>)> = RefCell::new((Vec::new(), Ok(())));
            let emitter = emit::emitter::from_fn(|evt| {
                let mut r = result.borrow_mut();
                let (reads, res) = &mut *r;
                *res = drive(evt.props(), key, rest, done, want, reads);
            });
            let rt = emit::runtime::Runtime::new().with_emitter(emitter).with_ctxt(c);
            emit::Frame::push(c, props).call(|| {
                rt.emit(emit::Event::new(emit::path!("c19"), emit::Template::literal("c19"), emit::Empty, emit::Empty));
            });
            drop(rt);
            let (reads, res) = result.into_inner();
            out.extend(reads);
            res
        }
        Hop::CtxtThread => {
            let c = ctxt();
            let frame = emit::Frame::push(c, props);
            let (reads, res) = std::thread::scope(|s| {
                s.spawn(move || {
                    let mut reads = Vec::new();
                    let res = match vcore::catch(|| frame.call(|| c.with_current(|cur| drive(cur, key, rest, done, want, &mut reads)))) {
                        Ok(r) => r,
                        Err(f) => Err(f),
                    };
                    (reads, res)
                })
                .join()
                .expect("reader thread")
            });
            out.extend(reads);
            res
        }
        Hop::OwnedThread => {
            let owned = collect(props, false);
            let (reads, res) = std::thread::scope(|s| {
                s.spawn(move || {
                    let mut reads = Vec::new();
                    let res = match vcore::catch(|| drive(&owned[..], key, rest, done, want, &mut reads)) {
                        Ok(r) => r,
                        Err(f) => Err(f),
                    };
                    (reads, res)
                })
                .join()
                .expect("reader thread")
            });
            out.extend(reads);
            res
        }
    }
}
