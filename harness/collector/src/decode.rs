//! Body handling: gunzip, protobuf / JSON decode, reduction to the records checks need.

use crate::json::{self, Notes};
use crate::proto::{self, common};
use crate::{Encoding, Record, Signal};
use prost::Message;
use std::io::Read;

/// A fully decoded export request (JSON bodies are converted into the same prost types).
#[derive(Debug, Clone, PartialEq)]
pub enum Decoded {
    Logs(proto::ExportLogsServiceRequest),
    Traces(proto::ExportTraceServiceRequest),
    Metrics(proto::ExportMetricsServiceRequest),
}

pub fn gunzip(data: &[u8]) -> Result<Vec<u8>, String> {
    let mut out = Vec::with_capacity(data.len() * 2);
    let mut dec = flate2::read::MultiGzDecoder::new(data);
    dec.read_to_end(&mut out).map_err(|e| format!("gunzip: {e}"))?;
    Ok(out)
}

/// Decode an (already decompressed, unframed) payload. The second value lists every tolerated
/// deviation of a JSON body from canonical proto3-JSON (empty for protobuf bodies).
pub fn decode(signal: Signal, encoding: Encoding, payload: &[u8]) -> Result<(Decoded, Vec<String>), String> {
    match encoding {
        Encoding::Proto => {
            let d = match signal {
                Signal::Logs => Decoded::Logs(proto::ExportLogsServiceRequest::decode(payload).map_err(|e| format!("protobuf: {e}"))?),
                Signal::Traces => Decoded::Traces(proto::ExportTraceServiceRequest::decode(payload).map_err(|e| format!("protobuf: {e}"))?),
                Signal::Metrics => Decoded::Metrics(proto::ExportMetricsServiceRequest::decode(payload).map_err(|e| format!("protobuf: {e}"))?),
            };
            Ok((d, Vec::new()))
        }
        Encoding::Json => {
            let j: serde_json::Value = serde_json::from_slice(payload).map_err(|e| format!("json: {e}"))?;
            let mut notes = Notes::default();
            let d = match signal {
                Signal::Logs => Decoded::Logs(json::logs_request(&j, &mut notes)?),
                Signal::Traces => Decoded::Traces(json::traces_request(&j, &mut notes)?),
                Signal::Metrics => Decoded::Metrics(json::metrics_request(&j, &mut notes)?),
            };
            Ok((d, notes.0))
        }
        Encoding::Unknown => Err("unknown content type".into()),
    }
}

/// Text form of an attribute value used for `case_id` (strings as they are, integers in decimal).
pub fn any_value_text(v: &common::AnyValue) -> Option<String> {
    use common::any_value::Value as V;
    match v.value.as_ref()? {
        V::StringValue(s) => Some(s.clone()),
        V::IntValue(i) => Some(i.to_string()),
        V::BoolValue(b) => Some(b.to_string()),
        V::DoubleValue(d) => Some(d.to_string()),
        _ => None,
    }
}

pub fn attr<'a>(attrs: &'a [common::KeyValue], key: &str) -> Option<&'a common::AnyValue> {
    attrs.iter().find(|kv| kv.key == key).and_then(|kv| kv.value.as_ref())
}

fn case_id(attrs: &[common::KeyValue]) -> Option<String> {
    attr(attrs, "case_id").and_then(any_value_text)
}

fn scope_name(s: &Option<common::InstrumentationScope>) -> String {
    s.as_ref().map(|s| s.name.clone()).unwrap_or_default()
}

impl Decoded {
    pub fn signal(&self) -> Signal {
        match self {
            Decoded::Logs(_) => Signal::Logs,
            Decoded::Traces(_) => Signal::Traces,
            Decoded::Metrics(_) => Signal::Metrics,
        }
    }

    /// One record per log record / span / metric (a metric's `case_id` is taken from its data
    /// points, which is where emit puts an event's ordinary properties).
    pub fn records(&self) -> Vec<Record> {
        let mut out = Vec::new();
        match self {
            Decoded::Logs(req) => {
                for rl in &req.resource_logs {
                    for sl in &rl.scope_logs {
                        let scope = scope_name(&sl.scope);
                        for lr in &sl.log_records {
                            out.push(Record {
                                signal: Signal::Logs,
                                scope: scope.clone(),
                                name: lr.body.as_ref().and_then(any_value_text).unwrap_or_default(),
                                case_id: case_id(&lr.attributes),
                                points: 0,
                            });
                        }
                    }
                }
            }
            Decoded::Traces(req) => {
                for rs in &req.resource_spans {
                    for ss in &rs.scope_spans {
                        let scope = scope_name(&ss.scope);
                        for sp in &ss.spans {
                            out.push(Record {
                                signal: Signal::Traces,
                                scope: scope.clone(),
                                name: sp.name.clone(),
                                case_id: case_id(&sp.attributes),
                                points: 0,
                            });
                        }
                    }
                }
            }
            Decoded::Metrics(req) => {
                use proto::metrics::metric::Data;
                for rm in &req.resource_metrics {
                    for sm in &rm.scope_metrics {
                        let scope = scope_name(&sm.scope);
                        for m in &sm.metrics {
                            let points: &[proto::metrics::NumberDataPoint] = match &m.data {
                                Some(Data::Gauge(g)) => &g.data_points,
                                Some(Data::Sum(s)) => &s.data_points,
                                _ => &[],
                            };
                            out.push(Record {
                                signal: Signal::Metrics,
                                scope: scope.clone(),
                                name: m.name.clone(),
                                case_id: points.iter().find_map(|p| case_id(&p.attributes)),
                                points: points.len() as u32,
                            });
                        }
                    }
                }
            }
        }
        out
    }
}
