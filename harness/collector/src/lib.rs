//! stub: scripted local OTLP collector (engine E4), to be built
