//! Engine E4 — a scripted local OTLP collector (DESIGN §2).
//!
//! * `127.0.0.1:0` listeners only. HTTP/1.1 is a hand-rolled server on `std::net` + threads (full
//!   control over when the socket is closed); gRPC is an `h2` server on a private current-thread
//!   tokio runtime (started lazily by [`Collector::grpc_url`]).
//! * Every request is logged ([`RequestLog`]): arrival sequence number, connection id (one per accepted
//!   TCP connection, shared counter for both servers), path/signal, encoding, gzip, the scripted
//!   [`Decision`] that was applied, what finally happened ([`Outcome`]) and the decoded records reduced
//!   to what checks need ([`Record`]); the full decoded message is available through
//!   [`RequestLog::decode`].
//! * Scripting: a per-signal queue of decisions consumed one per request (in arrival order of that
//!   signal), with a per-signal default used when the queue is empty. `Hold(latch)` keeps a request
//!   open (body read, no answer) until [`Collector::release`] — the "plug" C12 uses to make later events
//!   accumulate into one multi-request batch.
//!
//! The API is synchronous; nothing here uses the wall clock except as a deadline for
//! [`Collector::wait_until`] (whose `false` result checks must treat as *inconclusive*, never as a
//! property violation by itself).

use serde::{Deserialize, Serialize};
use std::collections::{BTreeSet, VecDeque};
use std::net::{SocketAddr, TcpListener, TcpStream};
use std::sync::atomic::{AtomicBool, AtomicU64, Ordering};
use std::sync::{Arc, Condvar, Mutex};
use std::thread::JoinHandle;
use std::time::{Duration, Instant};

pub mod decode;
mod grpc;
mod http1;
pub mod json;
pub mod proto;

pub use decode::Decoded;

#[derive(Clone, Copy, PartialEq, Eq, Hash, PartialOrd, Ord, Debug, Serialize, Deserialize)]
pub enum Signal {
    Logs,
    Traces,
    Metrics,
}

impl Signal {
    pub const ALL: [Signal; 3] = [Signal::Logs, Signal::Traces, Signal::Metrics];

    pub fn index(self) -> usize {
        self as usize
    }

    pub fn http_path(self) -> &'static str {
        match self {
            Signal::Logs => "/v1/logs",
            Signal::Traces => "/v1/traces",
            Signal::Metrics => "/v1/metrics",
        }
    }

    pub fn grpc_path(self) -> &'static str {
        match self {
            Signal::Logs => "/opentelemetry.proto.collector.logs.v1.LogsService/Export",
            Signal::Traces => "/opentelemetry.proto.collector.trace.v1.TraceService/Export",
            Signal::Metrics => "/opentelemetry.proto.collector.metrics.v1.MetricsService/Export",
        }
    }

    /// Split a request target into (collector token, signal path): `/c7/v1/logs` -> (Some("c7"), "/v1/logs").
    /// Accepts origin-form and absolute-form targets; a target without a token prefix has token `None`.
    pub fn split_target(target: &str) -> (Option<&str>, &str) {
        let path = match target.split_once("://") {
            Some((_, rest)) => rest.find('/').map(|i| &rest[i..]).unwrap_or("/"),
            None => target,
        };
        let path = path.split('?').next().unwrap_or(path);
        if let Some(rest) = path.strip_prefix("/c") {
            if let Some(i) = rest.find('/') {
                if i > 0 && rest[..i].bytes().all(|b| b.is_ascii_digit()) {
                    return (Some(&path[1..2 + i]), &rest[i..]);
                }
            }
        }
        (None, path)
    }

    pub fn of_path(path: &str) -> Option<Signal> {
        // origin-form (`/v1/logs`) or absolute-form (`http://host:port/v1/logs`, which is what emit's
        // HTTP/1 client puts on the request line), with or without a collector token prefix
        let (_, path) = Signal::split_target(path);
        Signal::ALL.into_iter().find(|s| path == s.http_path() || path == s.grpc_path())
    }
}

#[derive(Clone, Copy, PartialEq, Eq, Hash, Debug, Serialize, Deserialize)]
pub enum Transport {
    Http1,
    Grpc,
}

#[derive(Clone, Copy, PartialEq, Eq, Hash, Debug, Serialize, Deserialize)]
pub enum Encoding {
    Proto,
    Json,
    Unknown,
}

/// How a response that has already begun is cut off.
#[derive(Clone, Copy, PartialEq, Eq, Hash, Debug, Serialize, Deserialize)]
pub enum Abort {
    /// gRPC: RST_STREAM(INTERNAL_ERROR) on that stream, the connection lives on
    RstStream,
    /// gRPC: connection-level GOAWAY(INTERNAL_ERROR), which also ends the open stream
    Goaway,
    /// the TCP connection is dropped
    DropConnection,
}

/// What the collector does with one request.
#[derive(Clone, PartialEq, Eq, Debug, Serialize, Deserialize)]
pub enum Decision {
    /// read, answer success (HTTP 200 / grpc-status 0), keep the connection
    Ack,
    /// read, answer success, then close the connection (HTTP/1: `connection: close`; gRPC: GOAWAY)
    AckThenClose,
    /// read, answer this HTTP status (gRPC: this `:status` and no grpc-status at all)
    Status(u16),
    /// gRPC: read, answer 200 + headers, then trailers with this grpc-status. On HTTP/1 answered as 500.
    GrpcStatus(i32),
    /// gRPC: read, answer a Trailers-Only response (one HEADERS frame with END_STREAM carrying
    /// grpc-status) — how real servers report immediate errors. On HTTP/1 answered as 500.
    GrpcStatusTrailersOnly(i32),
    /// close the connection once the request head is known, before reading any of the body
    CloseBeforeRead,
    /// read the whole request, then close the connection without answering
    ReadThenClose,
    /// read the whole request, then hold the connection open without answering until
    /// `release_stalls()` / shutdown / the peer gives up; then close without answering
    Stall,
    /// read the whole request, wait until `release(latch)`, then answer success
    Hold(u32),
    /// read the whole request, send the response HEAD and then go silent on that response until
    /// `release_stalls()` / shutdown / the peer gives up. gRPC: HEADERS (200, application/grpc) without
    /// END_STREAM, no DATA, no trailers, no reset — the connection stays up and later requests on it are
    /// served normally; logged `Dropped` (no grpc-status ever arrives). HTTP/1: status line 200 + headers
    /// announcing a 16-byte body that is withheld, connection closed at the end; logged `Acked`, because the
    /// HTTP status is the whole acknowledgement there.
    StallAfterHeaders,
    /// From this request on NOTHING is ever answered on this connection: this request and every later
    /// one on the same connection id get no response bytes, no reset, no GOAWAY, no FIN — the socket stays
    /// open until the collector shuts down, whatever the peer does — while NEW connections are served
    /// normally (a frozen peer / black-holing middlebox). `keep_reading: true`: request bodies are still read
    /// and logged (later requests on the connection are logged with this same decision, without consuming
    /// the script); `false`: the collector stops reading the connection altogether (gRPC: later streams are
    /// never even seen). Logged `Dropped` at once (no answer will come).
    WedgeConnection { keep_reading: bool },
    /// read the whole request, send the response HEAD, then ABORT the response instead of completing it.
    /// gRPC: HEADERS (200, application/grpc), ~20 ms later the abort (`how`) — no OK trailers were ever sent, so the
    /// request is logged `Dropped`. HTTP/1 (whatever `how` says): `200` + `content-length: 16`, then the
    /// connection is closed before any body byte; logged `Acked`, the status line being the acknowledgement.
    AbortAfterHeaders { how: Abort },
    /// the same after a fragment of the response body (gRPC: 3 of the 5 message-prefix bytes; HTTP/1: 4 of 16)
    AbortMidBody { how: Abort },
    /// like `StallAfterHeaders`, but part of the response body is sent first (gRPC: 3 of the 5 bytes of
    /// the message prefix; HTTP/1: 4 of the 16 announced bytes)
    StallMidBody,
}

#[derive(Clone, Copy, PartialEq, Eq, Debug, Serialize, Deserialize)]
pub enum Phase {
    /// head seen, decision taken, body not (completely) read yet
    Head,
    /// body read and decoded
    Body,
    /// waiting on a `Hold` latch
    Held,
    /// stalling
    Stalled,
    /// finished (see `outcome`)
    Done,
}

#[derive(Clone, Copy, PartialEq, Eq, Debug, Serialize, Deserialize)]
pub enum Outcome {
    Pending,
    /// a success response was written completely
    Acked,
    /// a failure response (status / grpc-status) was written completely
    Rejected,
    /// the connection was closed (by script, or it broke) without a complete response
    Dropped,
}

/// One log record / span / metric of a request, reduced to what routing and delivery checks need.
#[derive(Clone, PartialEq, Eq, Debug, Serialize, Deserialize)]
pub struct Record {
    pub signal: Signal,
    /// instrumentation scope name (= event module)
    pub scope: String,
    /// log body text / span name / metric name
    pub name: String,
    /// the `case_id` attribute (for metrics: of the data points), integers rendered in decimal
    pub case_id: Option<String>,
    /// metrics: number of data points; otherwise 0
    pub points: u32,
}

#[derive(Clone, Debug)]
pub struct RequestLog {
    /// arrival order over all signals and transports (0-based; equals the index in `requests()`)
    pub seq: u64,
    /// id of the accepted TCP connection the request arrived on
    pub conn: u64,
    pub transport: Transport,
    pub path: String,
    pub signal: Option<Signal>,
    pub content_type: String,
    pub encoding: Encoding,
    pub gzip: bool,
    pub headers: Vec<(String, String)>,
    pub decision: Decision,
    pub phase: Phase,
    pub outcome: Outcome,
    /// bytes of body received on the wire (compressed, framed)
    pub wire_len: usize,
    /// bytes of payload after unframing and decompression
    pub payload_len: usize,
    pub records: Vec<Record>,
    /// framing / decompression / decode problem, if any (the scripted decision is applied regardless)
    pub decode_error: Option<String>,
    /// tolerated deviations of a JSON body from canonical proto3-JSON
    pub json_notes: Vec<String>,
    /// decompressed, unframed payload (kept unless `keep_payloads(false)`)
    pub payload: Option<Arc<Vec<u8>>>,
}

impl RequestLog {
    pub fn acked(&self) -> bool {
        self.outcome == Outcome::Acked
    }

    /// failed as seen by the client: rejected or dropped
    pub fn failed(&self) -> bool {
        matches!(self.outcome, Outcome::Rejected | Outcome::Dropped)
    }

    pub fn case_ids(&self) -> BTreeSet<String> {
        self.records.iter().filter_map(|r| r.case_id.clone()).collect()
    }

    /// The full decoded message (decoded again from the kept payload).
    pub fn decode(&self) -> Result<Decoded, String> {
        let signal = self.signal.ok_or("unknown signal")?;
        let payload = self.payload.as_ref().ok_or("payload not kept")?;
        decode::decode(signal, self.encoding, payload).map(|(d, _)| d)
    }
}

pub(crate) struct State {
    pub log: Vec<RequestLog>,
    scripts: [VecDeque<Decision>; 3],
    defaults: [Decision; 3],
    released: BTreeSet<u32>,
    stalls_released: bool,
    keep_payloads: bool,
    streams: Vec<TcpStream>,
    threads: Vec<JoinHandle<()>>,
}

pub(crate) struct Inner {
    pub state: Mutex<State>,
    pub cv: Condvar,
    next_conn: AtomicU64,
    pub shutdown: AtomicBool,
    /// this collector's URL token (`c<N>`)
    pub token: String,
    pub foreign: AtomicU64,
}

pub(crate) struct Head {
    pub conn: u64,
    pub transport: Transport,
    pub path: String,
    pub content_type: String,
    pub encoding: Encoding,
    pub gzip: bool,
    pub headers: Vec<(String, String)>,
}

impl Inner {
    pub fn next_conn(&self) -> u64 {
        self.next_conn.fetch_add(1, Ordering::SeqCst)
    }

    pub fn is_shutdown(&self) -> bool {
        self.shutdown.load(Ordering::SeqCst)
    }

    /// A request target that carries ANOTHER collector's token: a stale emitter of an earlier case.
    pub fn is_foreign(&self, target: &str) -> bool {
        match Signal::split_target(target).0 {
            Some(t) if t != self.token => {
                self.foreign.fetch_add(1, Ordering::SeqCst);
                true
            }
            _ => false,
        }
    }

    /// Log the arrival of a request and take its scripted decision.
    pub fn begin(&self, head: Head) -> (usize, Decision, Option<Signal>) {
        self.begin_with(head, None)
    }

    /// `forced`: a decision inherited from the connection (wedged) instead of the signal's script.
    pub fn begin_with(&self, head: Head, forced: Option<Decision>) -> (usize, Decision, Option<Signal>) {
        let signal = Signal::of_path(&head.path);
        let mut st = self.state.lock().unwrap();
        let decision = match (forced, signal) {
            (Some(d), _) => d,
            (None, Some(s)) => st.scripts[s.index()].pop_front().unwrap_or_else(|| st.defaults[s.index()].clone()),
            (None, None) => Decision::Status(404),
        };
        let idx = st.log.len();
        st.log.push(RequestLog {
            seq: idx as u64,
            conn: head.conn,
            transport: head.transport,
            path: head.path,
            signal,
            content_type: head.content_type,
            encoding: head.encoding,
            gzip: head.gzip,
            headers: head.headers,
            decision: decision.clone(),
            phase: Phase::Head,
            outcome: Outcome::Pending,
            wire_len: 0,
            payload_len: 0,
            records: Vec::new(),
            decode_error: None,
            json_notes: Vec::new(),
            payload: None,
        });
        drop(st);
        self.cv.notify_all();
        (idx, decision, signal)
    }

    pub fn update(&self, idx: usize, f: impl FnOnce(&mut RequestLog)) {
        let mut st = self.state.lock().unwrap();
        f(&mut st.log[idx]);
        drop(st);
        self.cv.notify_all();
    }

    pub fn finish(&self, idx: usize, outcome: Outcome) {
        self.update(idx, |r| {
            r.phase = Phase::Done;
            r.outcome = outcome;
        });
    }

    /// Record the body of request `idx`: unframe/decompress/decode as far as possible.
    pub fn body(&self, idx: usize, wire_len: usize, payload: Result<Vec<u8>, String>) {
        let (signal, encoding, keep) = {
            let st = self.state.lock().unwrap();
            (st.log[idx].signal, st.log[idx].encoding, st.keep_payloads)
        };
        let mut records = Vec::new();
        let mut notes = Vec::new();
        let mut err = None;
        let mut payload_len = 0;
        let mut kept = None;
        match payload {
            Ok(p) => {
                payload_len = p.len();
                match signal {
                    Some(sig) => match decode::decode(sig, encoding, &p) {
                        Ok((d, n)) => {
                            records = d.records();
                            notes = n;
                        }
                        Err(e) => err = Some(e),
                    },
                    None => err = Some("unknown path".to_string()),
                }
                if keep {
                    kept = Some(Arc::new(p));
                }
            }
            Err(e) => err = Some(e),
        }
        self.update(idx, |r| {
            r.phase = Phase::Body;
            r.wire_len = wire_len;
            r.payload_len = payload_len;
            r.records = records;
            r.json_notes = notes;
            r.decode_error = err;
            r.payload = kept;
        });
    }

    pub fn latch_released(&self, latch: u32) -> bool {
        self.state.lock().unwrap().released.contains(&latch)
    }

    pub fn stalls_released(&self) -> bool {
        self.state.lock().unwrap().stalls_released
    }

    pub fn register_stream(&self, s: &TcpStream) {
        if let Ok(c) = s.try_clone() {
            self.state.lock().unwrap().streams.push(c);
        }
    }

    pub fn register_thread(&self, h: JoinHandle<()>) {
        self.state.lock().unwrap().threads.push(h);
    }
}

/// A socket that is bound but never listens: connecting to it is refused, and the port stays
/// reserved for the life of the collector (no other listener in this process can receive the
/// traffic by accident).
struct RefusedPort {
    fd: i32,
    port: u16,
}

impl RefusedPort {
    fn new() -> Option<RefusedPort> {
        unsafe {
            let fd = libc::socket(libc::AF_INET, libc::SOCK_STREAM | libc::SOCK_CLOEXEC, 0);
            if fd < 0 {
                return None;
            }
            let mut addr: libc::sockaddr_in = std::mem::zeroed();
            addr.sin_family = libc::AF_INET as libc::sa_family_t;
            addr.sin_port = 0;
            addr.sin_addr = libc::in_addr { s_addr: u32::from_ne_bytes([127, 0, 0, 1]) };
            if libc::bind(fd, &addr as *const _ as *const libc::sockaddr, std::mem::size_of::<libc::sockaddr_in>() as libc::socklen_t) != 0 {
                libc::close(fd);
                return None;
            }
            let mut len = std::mem::size_of::<libc::sockaddr_in>() as libc::socklen_t;
            if libc::getsockname(fd, &mut addr as *mut _ as *mut libc::sockaddr, &mut len) != 0 {
                libc::close(fd);
                return None;
            }
            Some(RefusedPort { fd, port: u16::from_be(addr.sin_port) })
        }
    }
}

impl Drop for RefusedPort {
    fn drop(&mut self) {
        unsafe {
            libc::close(self.fd);
        }
    }
}

pub struct Collector {
    inner: Arc<Inner>,
    http_addr: SocketAddr,
    grpc: Mutex<Option<grpc::GrpcServer>>,
    refused: Mutex<Option<RefusedPort>>,
}

pub(crate) fn bind_loopback() -> Result<TcpListener, String> {
    // `bind(127.0.0.1:0)` fails with EADDRINUSE when the ephemeral range is exhausted (tens of
    // thousands of short-lived connections in TIME_WAIT): wait for ports to come back before giving up
    let mut last = String::new();
    for _ in 0..600 {
        match TcpListener::bind("127.0.0.1:0") {
            Ok(l) => return Ok(l),
            Err(e) => last = e.to_string(),
        }
        std::thread::sleep(Duration::from_millis(100));
    }
    Err(format!("collector: cannot bind 127.0.0.1:0 for 60 s: {last}"))
}

/// Every collector of the process has its own URL token (`/c<N>` path prefix of every URL it hands out).
/// An emitter can outlive the collector of its case (its detached worker keeps retrying a failed batch for
/// the whole retry budget) and the OS may hand that collector's port to the collector of a LATER case: a
/// request that arrives with another collector's token is answered 404 and counted in
/// `foreign_requests()`; it touches neither the scripts nor the log.
static NEXT_TOKEN: AtomicU64 = AtomicU64::new(1);

/// Close without TIME_WAIT: SO_LINGER(0) turns the close into a reset. Only used at teardown, when
/// nothing is in flight any more.
fn abort_stream(s: &TcpStream) {
    use std::os::fd::AsRawFd;
    let l = libc::linger { l_onoff: 1, l_linger: 0 };
    unsafe {
        libc::setsockopt(
            s.as_raw_fd(),
            libc::SOL_SOCKET,
            libc::SO_LINGER,
            &l as *const _ as *const libc::c_void,
            std::mem::size_of::<libc::linger>() as libc::socklen_t,
        );
    }
    // wake a thread blocked in read() without sending a FIN
    let _ = s.shutdown(std::net::Shutdown::Read);
}

impl Collector {
    /// Start the HTTP/1.1 server (the gRPC server starts with the first `grpc_url()` call).
    /// Panics when no loopback port can be bound for 60 s; checks should prefer [`Collector::try_start`]
    /// and treat an error as a harness problem (inconclusive).
    pub fn start() -> Collector {
        Collector::try_start().unwrap_or_else(|e| panic!("{e}"))
    }

    pub fn try_start() -> Result<Collector, String> {
        let listener = bind_loopback()?;
        let inner = Arc::new(Inner {
            state: Mutex::new(State {
                log: Vec::new(),
                scripts: Default::default(),
                defaults: [Decision::Ack, Decision::Ack, Decision::Ack],
                released: BTreeSet::new(),
                stalls_released: false,
                keep_payloads: true,
                streams: Vec::new(),
                threads: Vec::new(),
            }),
            cv: Condvar::new(),
            next_conn: AtomicU64::new(0),
            shutdown: AtomicBool::new(false),
            token: format!("c{}", NEXT_TOKEN.fetch_add(1, Ordering::SeqCst)),
            foreign: AtomicU64::new(0),
        });
        let http_addr = listener.local_addr().unwrap();
        let i2 = inner.clone();
        let h = std::thread::Builder::new()
            .name("collector-http-accept".into())
            .spawn(move || http1::accept_loop(i2, listener))
            .expect("collector: spawn");
        inner.register_thread(h);
        Ok(Collector { inner, http_addr, grpc: Mutex::new(None), refused: Mutex::new(None) })
    }

    /// `http://127.0.0.1:<port>/c<N>` (append `/v1/logs` etc.; the token-less `http://127.0.0.1:<port>/v1/logs`
    /// is served too, without the protection against stale emitters)
    pub fn http_base(&self) -> String {
        format!("http://{}/{}", self.http_addr, self.inner.token)
    }

    /// `http://127.0.0.1:<port>/c<N>/v1/<signal>`
    pub fn http_url(&self, signal: Signal) -> String {
        format!("http://{}/{}{}", self.http_addr, self.inner.token, signal.http_path())
    }

    /// Requests that arrived with another collector's token (answered 404, not logged, scripts untouched).
    pub fn foreign_requests(&self) -> u64 {
        self.inner.foreign.load(Ordering::SeqCst)
    }

    /// Start the gRPC server if it is not running yet. An error is a harness problem (no port).
    pub fn ensure_grpc(&self) -> Result<(), String> {
        let mut g = self.grpc.lock().unwrap();
        if g.is_none() {
            *g = Some(grpc::GrpcServer::start(self.inner.clone())?);
        }
        Ok(())
    }

    /// Root of the gRPC service (`http://127.0.0.1:<port>`); all three services live on it.
    /// Starts the server on first use (panics if that fails; call `ensure_grpc` first to handle it).
    pub fn grpc_url(&self) -> String {
        self.ensure_grpc().unwrap_or_else(|e| panic!("{e}"));
        format!("http://{}/{}", self.grpc.lock().unwrap().as_ref().unwrap().addr, self.inner.token)
    }

    /// `http://127.0.0.1:<port>` of a port that refuses connections for the life of the collector.
    pub fn refused_base(&self) -> String {
        let mut r = self.refused.lock().unwrap();
        if r.is_none() {
            *r = RefusedPort::new();
        }
        match r.as_ref() {
            Some(p) => format!("http://127.0.0.1:{}/{}", p.port, self.inner.token),
            // fall back to a port nobody listens on (port 1 on loopback)
            None => format!("http://127.0.0.1:1/{}", self.inner.token),
        }
    }

    /// Replace the decision queue of `signal`.
    pub fn script(&self, signal: Signal, decisions: Vec<Decision>) {
        self.inner.state.lock().unwrap().scripts[signal.index()] = decisions.into();
    }

    /// Append one decision to the queue of `signal`.
    pub fn push_script(&self, signal: Signal, decision: Decision) {
        self.inner.state.lock().unwrap().scripts[signal.index()].push_back(decision);
    }

    /// Decision used for `signal` whenever its queue is empty (initially `Ack`).
    pub fn set_default(&self, signal: Signal, decision: Decision) {
        self.inner.state.lock().unwrap().defaults[signal.index()] = decision;
    }

    /// Number of scripted decisions of `signal` not consumed yet.
    pub fn script_len(&self, signal: Signal) -> usize {
        self.inner.state.lock().unwrap().scripts[signal.index()].len()
    }

    pub fn keep_payloads(&self, keep: bool) {
        self.inner.state.lock().unwrap().keep_payloads = keep;
    }

    /// Release a `Hold(latch)` (now or in the future).
    pub fn release(&self, latch: u32) {
        self.inner.state.lock().unwrap().released.insert(latch);
        self.inner.cv.notify_all();
    }

    /// End all current and future `Stall`s (their connections are closed without an answer).
    pub fn release_stalls(&self) {
        self.inner.state.lock().unwrap().stalls_released = true;
        self.inner.cv.notify_all();
    }

    pub fn requests(&self) -> Vec<RequestLog> {
        self.inner.state.lock().unwrap().log.clone()
    }

    /// Connections accepted so far (both servers).
    pub fn connections(&self) -> u64 {
        self.inner.next_conn.load(Ordering::SeqCst)
    }

    /// Block until `pred(log)` holds or `deadline` elapses; returns whether it held. A `false` is a
    /// harness-level timeout (inconclusive), never by itself evidence against emit.
    pub fn wait_until(&self, pred: impl Fn(&[RequestLog]) -> bool, deadline: Duration) -> bool {
        let end = Instant::now() + deadline;
        let mut st = self.inner.state.lock().unwrap();
        loop {
            if pred(&st.log) {
                return true;
            }
            let now = Instant::now();
            if now >= end {
                return false;
            }
            let (g, _) = self.inner.cv.wait_timeout(st, (end - now).min(Duration::from_millis(50))).unwrap();
            st = g;
        }
    }

    /// Stop both servers, close every connection, join the threads. Idempotent.
    pub fn shutdown(&self) {
        if self.inner.shutdown.swap(true, Ordering::SeqCst) {
            return;
        }
        self.inner.cv.notify_all();
        // wake the accept loop (closed by reset so that our own ephemeral port does not linger in TIME_WAIT)
        if let Ok(wake) = TcpStream::connect_timeout(&self.http_addr, Duration::from_millis(500)) {
            abort_stream(&wake);
            drop(wake);
        }
        let (streams, threads) = {
            let mut st = self.inner.state.lock().unwrap();
            (std::mem::take(&mut st.streams), std::mem::take(&mut st.threads))
        };
        for s in &streams {
            abort_stream(s);
        }
        if let Some(g) = self.grpc.lock().unwrap().take() {
            g.stop();
        }
        for t in threads {
            let _ = t.join();
        }
        // connection threads registered while we were joining
        loop {
            let (streams, threads) = {
                let mut st = self.inner.state.lock().unwrap();
                (std::mem::take(&mut st.streams), std::mem::take(&mut st.threads))
            };
            if threads.is_empty() {
                break;
            }
            for s in &streams {
                abort_stream(s);
            }
            for t in threads {
                let _ = t.join();
            }
        }
    }
}

impl Drop for Collector {
    fn drop(&mut self) {
        self.shutdown();
    }
}
