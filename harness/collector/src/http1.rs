//! Hand-rolled HTTP/1.1 server: one thread per accepted connection, keep-alive, content-length and
//! chunked request bodies, scripted socket-level misbehaviour.

use crate::{decode, Decision, Encoding, Head, Inner, Outcome, Phase, Transport};
use std::io::{ErrorKind, Read, Write};
use std::net::{Shutdown, TcpListener, TcpStream};
use std::sync::Arc;
use std::time::Duration;

pub(crate) fn accept_loop(inner: Arc<Inner>, listener: TcpListener) {
    loop {
        let Ok((stream, _)) = listener.accept() else {
            if inner.is_shutdown() {
                return;
            }
            std::thread::sleep(Duration::from_millis(1));
            continue;
        };
        if inner.is_shutdown() {
            return;
        }
        let conn = inner.next_conn();
        let _ = stream.set_nodelay(true);
        inner.register_stream(&stream);
        let i2 = inner.clone();
        match std::thread::Builder::new()
            .name(format!("collector-http-{conn}"))
            .spawn(move || serve(i2, stream, conn))
        {
            Ok(h) => inner.register_thread(h),
            Err(_) => {}
        }
    }
}

/// Close our side. During teardown the socket is left alone: `Collector::shutdown` has armed
/// SO_LINGER(0) and the final `close` (when the last descriptor goes) resets the connection, which
/// keeps it out of TIME_WAIT; a FIN sent here first would defeat that.
fn hang_up(inner: &Inner, stream: &TcpStream) {
    if !inner.is_shutdown() {
        let _ = stream.shutdown(Shutdown::Both);
    }
}

fn find(hay: &[u8], needle: &[u8]) -> Option<usize> {
    hay.windows(needle.len()).position(|w| w == needle)
}

/// read more bytes into `buf`; Ok(false) on EOF
fn fill(stream: &mut TcpStream, buf: &mut Vec<u8>) -> std::io::Result<bool> {
    let mut tmp = [0u8; 64 * 1024];
    loop {
        match stream.read(&mut tmp) {
            Ok(0) => return Ok(false),
            Ok(n) => {
                buf.extend_from_slice(&tmp[..n]);
                return Ok(true);
            }
            Err(e) if e.kind() == ErrorKind::Interrupted => continue,
            Err(e) => return Err(e),
        }
    }
}

fn respond(stream: &mut TcpStream, status: u16, close: bool, json: bool) -> std::io::Result<()> {
    let reason = match status {
        200 => "OK",
        400 => "Bad Request",
        404 => "Not Found",
        429 => "Too Many Requests",
        500 => "Internal Server Error",
        502 => "Bad Gateway",
        503 => "Service Unavailable",
        _ => "Status",
    };
    let ct = if json { "application/json" } else { "application/x-protobuf" };
    let head = format!(
        "HTTP/1.1 {status} {reason}\r\ncontent-type: {ct}\r\ncontent-length: 0\r\n{}\r\n",
        if close { "connection: close\r\n" } else { "" }
    );
    stream.write_all(head.as_bytes())?;
    stream.flush()
}

/// Wait while `keep_waiting()`; returns false if the peer closed the connection or the collector is
/// shutting down.
fn wait_while(inner: &Inner, stream: &mut TcpStream, keep_waiting: impl Fn() -> bool) -> bool {
    let _ = stream.set_read_timeout(Some(Duration::from_millis(10)));
    let mut tmp = [0u8; 256];
    let alive = loop {
        if inner.is_shutdown() {
            break false;
        }
        if !keep_waiting() {
            break true;
        }
        match stream.read(&mut tmp) {
            Ok(0) => break false,
            Ok(_) => {}
            Err(e) if matches!(e.kind(), ErrorKind::WouldBlock | ErrorKind::TimedOut | ErrorKind::Interrupted) => {}
            Err(_) => break false,
        }
    };
    let _ = stream.set_read_timeout(None);
    alive
}

fn serve(inner: Arc<Inner>, mut stream: TcpStream, conn: u64) {
    let mut buf: Vec<u8> = Vec::new();
    loop {
        // ---- head
        let head_end = loop {
            if let Some(p) = find(&buf, b"\r\n\r\n") {
                break p + 4;
            }
            match fill(&mut stream, &mut buf) {
                Ok(true) => {}
                _ => {
                    hang_up(&inner, &stream);
                    return;
                }
            }
            if buf.len() > 1 << 20 {
                hang_up(&inner, &stream);
                return;
            }
        };
        let head_text = String::from_utf8_lossy(&buf[..head_end]).into_owned();
        let mut lines = head_text.split("\r\n");
        let request_line = lines.next().unwrap_or("");
        let mut parts = request_line.split(' ');
        let _method = parts.next().unwrap_or("");
        let path = parts.next().unwrap_or("").to_string();
        let mut headers = Vec::new();
        for l in lines {
            if let Some((k, v)) = l.split_once(':') {
                headers.push((k.trim().to_ascii_lowercase(), v.trim().to_string()));
            }
        }
        let get = |k: &str| headers.iter().find(|(hk, _)| hk == k).map(|(_, v)| v.clone());
        let content_type = get("content-type").unwrap_or_default();
        let encoding = if content_type.starts_with("application/x-protobuf") {
            Encoding::Proto
        } else if content_type.starts_with("application/json") {
            Encoding::Json
        } else {
            Encoding::Unknown
        };
        let gzip = get("content-encoding").map(|v| v.eq_ignore_ascii_case("gzip")).unwrap_or(false);
        let content_length = get("content-length").and_then(|v| v.parse::<usize>().ok());
        let chunked = get("transfer-encoding").map(|v| v.to_ascii_lowercase().contains("chunked")).unwrap_or(false);
        let wants_close = get("connection").map(|v| v.eq_ignore_ascii_case("close")).unwrap_or(false);
        let expects_continue = get("expect").map(|v| v.eq_ignore_ascii_case("100-continue")).unwrap_or(false);
        buf.drain(..head_end);

        if inner.is_foreign(&path) {
            // a stale emitter of an earlier case whose collector had this port: not our request
            let _ = respond(&mut stream, 404, true, false);
            hang_up(&inner, &stream);
            return;
        }

        let (idx, decision, _signal) = inner.begin(Head {
            conn,
            transport: Transport::Http1,
            path,
            content_type,
            encoding,
            gzip,
            headers,
        });
        let json = encoding == Encoding::Json;

        if let Decision::WedgeConnection { keep_reading: false } = decision {
            inner.update(idx, |r| {
                r.outcome = Outcome::Dropped;
                r.phase = Phase::Stalled;
            });
            // nothing more is read or written; the socket stays open until the collector shuts down
            while !inner.is_shutdown() {
                std::thread::sleep(Duration::from_millis(20));
            }
            return;
        }

        if decision == Decision::CloseBeforeRead {
            inner.finish(idx, Outcome::Dropped);
            // unread request bytes in the receive queue make this a reset rather than a clean FIN
            hang_up(&inner, &stream);
            return;
        }

        // ---- body
        if expects_continue {
            let _ = stream.write_all(b"HTTP/1.1 100 Continue\r\n\r\n");
        }
        let body: Result<Vec<u8>, ()> = if chunked {
            read_chunked(&mut stream, &mut buf)
        } else {
            let n = content_length.unwrap_or(0);
            let mut ok = true;
            while buf.len() < n {
                match fill(&mut stream, &mut buf) {
                    Ok(true) => {}
                    _ => {
                        ok = false;
                        break;
                    }
                }
            }
            if ok {
                Ok(buf.drain(..n).collect())
            } else {
                Err(())
            }
        };
        let Ok(body) = body else {
            // the client went away mid-request
            inner.finish(idx, Outcome::Dropped);
            hang_up(&inner, &stream);
            return;
        };
        let wire_len = body.len();
        let payload = if gzip { decode::gunzip(&body) } else { Ok(body) };
        inner.body(idx, wire_len, payload);

        if let Decision::WedgeConnection { .. } = decision {
            inner.update(idx, |r| {
                r.outcome = Outcome::Dropped;
                r.phase = Phase::Stalled;
            });
            // keep draining whatever arrives, answer nothing, never close (not even when the peer does)
            let _ = stream.set_read_timeout(Some(Duration::from_millis(20)));
            let mut sink = [0u8; 4096];
            while !inner.is_shutdown() {
                match stream.read(&mut sink) {
                    Ok(0) => std::thread::sleep(Duration::from_millis(20)),
                    Ok(_) => {}
                    Err(e) if matches!(e.kind(), ErrorKind::WouldBlock | ErrorKind::TimedOut | ErrorKind::Interrupted) => {}
                    Err(_) => std::thread::sleep(Duration::from_millis(20)),
                }
            }
            return;
        }

        // ---- act
        let mut close = wants_close;
        // The outcome is logged BEFORE the response bytes are written: the client may act on the
        // response (complete a flush, send the next request) before this thread runs again, and a check
        // that reads the log at that moment must already see the request as answered. A failed write
        // downgrades the entry to Dropped afterwards.
        let answer = |inner: &Inner, stream: &mut TcpStream, status: u16, close: bool| -> Outcome {
            let planned = if (200..300).contains(&status) { Outcome::Acked } else { Outcome::Rejected };
            inner.update(idx, |r| r.outcome = planned);
            match respond(stream, status, close, json) {
                Ok(()) => planned,
                Err(_) => Outcome::Dropped,
            }
        };
        let outcome = match decision {
            Decision::Ack => answer(&inner, &mut stream, 200, close),
            Decision::AckThenClose => {
                close = true;
                answer(&inner, &mut stream, 200, true)
            }
            Decision::Status(s) => answer(&inner, &mut stream, s, close),
            Decision::GrpcStatus(_) | Decision::GrpcStatusTrailersOnly(_) => answer(&inner, &mut stream, 500, close),
            Decision::ReadThenClose => {
                close = true;
                Outcome::Dropped
            }
            Decision::Stall => {
                inner.update(idx, |r| r.phase = Phase::Stalled);
                wait_while(&inner, &mut stream, || !inner.stalls_released());
                close = true;
                Outcome::Dropped
            }
            Decision::Hold(latch) => {
                inner.update(idx, |r| r.phase = Phase::Held);
                if wait_while(&inner, &mut stream, || !inner.latch_released(latch)) {
                    answer(&inner, &mut stream, 200, close)
                } else {
                    close = true;
                    Outcome::Dropped
                }
            }
            Decision::StallAfterHeaders | Decision::StallMidBody => {
                // the status line is the whole acknowledgement on HTTP/1: logged before it is written
                inner.update(idx, |r| {
                    r.outcome = Outcome::Acked;
                    r.phase = Phase::Stalled;
                });
                let ct = if json { "application/json" } else { "application/x-protobuf" };
                let head = format!("HTTP/1.1 200 OK\r\ncontent-type: {ct}\r\ncontent-length: 16\r\n\r\n");
                let mut ok = stream.write_all(head.as_bytes()).is_ok();
                if ok && decision == Decision::StallMidBody {
                    ok = stream.write_all(b"{\"pa").is_ok();
                }
                let _ = stream.flush();
                if ok {
                    // the announced body never comes
                    wait_while(&inner, &mut stream, || !inner.stalls_released());
                }
                close = true;
                if ok {
                    Outcome::Acked
                } else {
                    Outcome::Dropped
                }
            }
            Decision::AbortAfterHeaders { .. } | Decision::AbortMidBody { .. } => {
                // the status line is the whole acknowledgement on HTTP/1: logged before it is written
                inner.update(idx, |r| r.outcome = Outcome::Acked);
                let ct = if json { "application/json" } else { "application/x-protobuf" };
                let head = format!("HTTP/1.1 200 OK\r\ncontent-type: {ct}\r\ncontent-length: 16\r\n\r\n");
                let mut ok = stream.write_all(head.as_bytes()).is_ok();
                if ok && matches!(decision, Decision::AbortMidBody { .. }) {
                    ok = stream.write_all(b"{\"pa").is_ok();
                }
                let _ = stream.flush();
                // ... and the connection goes away instead of the announced body
                close = true;
                if ok {
                    Outcome::Acked
                } else {
                    Outcome::Dropped
                }
            }
            Decision::CloseBeforeRead | Decision::WedgeConnection { .. } => unreachable!(),
        };
        if outcome == Outcome::Dropped {
            close = true;
        }
        inner.finish(idx, outcome);
        if close || inner.is_shutdown() {
            hang_up(&inner, &stream);
            return;
        }
    }
}

fn read_chunked(stream: &mut TcpStream, buf: &mut Vec<u8>) -> Result<Vec<u8>, ()> {
    let mut out = Vec::new();
    loop {
        let line_end = loop {
            if let Some(p) = find(buf, b"\r\n") {
                break p;
            }
            if !fill(stream, buf).map_err(|_| ())? {
                return Err(());
            }
        };
        let line = String::from_utf8_lossy(&buf[..line_end]).into_owned();
        let size = usize::from_str_radix(line.split(';').next().unwrap_or("").trim(), 16).map_err(|_| ())?;
        buf.drain(..line_end + 2);
        while buf.len() < size + 2 {
            if !fill(stream, buf).map_err(|_| ())? {
                return Err(());
            }
        }
        out.extend_from_slice(&buf[..size]);
        buf.drain(..size + 2);
        if size == 0 {
            return Ok(out);
        }
    }
}
