//! A lenient proto3-JSON reader for the three OTLP export requests, producing the same prost types
//! the protobuf path decodes into, so checks compare one representation.
//!
//! Lenient means: 64-bit integers and nanosecond times may be JSON numbers or decimal strings; ids
//! (`traceId`, `spanId`, `parentSpanId`) are hex strings (OTLP/JSON rule) but base64 is tolerated;
//! `bytesValue` may be base64 or an array of byte numbers; doubles may be numbers, the strings
//! `NaN`/`Infinity`/`-Infinity`, or `null` (read as NaN); enums may be numbers or names; `null`
//! for a message means "absent". Every tolerated deviation from the canonical proto3-JSON mapping
//! and every unknown field is recorded as a note so a check can still assert on it if its property
//! says so.

use crate::proto::{self, common, logs, metrics, resource, trace};
use serde_json::Value as J;

#[derive(Default, Debug, Clone)]
pub struct Notes(pub Vec<String>);

impl Notes {
    fn add(&mut self, s: impl Into<String>) {
        let s = s.into();
        if self.0.len() < 64 && !self.0.contains(&s) {
            self.0.push(s);
        }
    }
}

type R<T> = Result<T, String>;

fn obj<'a>(j: &'a J, what: &str) -> R<&'a serde_json::Map<String, J>> {
    j.as_object().ok_or_else(|| format!("{what}: expected object, got {}", kind(j)))
}

fn kind(j: &J) -> &'static str {
    match j {
        J::Null => "null",
        J::Bool(_) => "bool",
        J::Number(_) => "number",
        J::String(_) => "string",
        J::Array(_) => "array",
        J::Object(_) => "object",
    }
}

fn arr<'a>(j: &'a J, what: &str) -> R<&'a [J]> {
    match j {
        J::Null => Ok(&[]),
        J::Array(a) => Ok(a),
        _ => Err(format!("{what}: expected array, got {}", kind(j))),
    }
}

fn string(j: &J, what: &str) -> R<String> {
    match j {
        J::Null => Ok(String::new()),
        J::String(s) => Ok(s.clone()),
        _ => Err(format!("{what}: expected string, got {}", kind(j))),
    }
}

fn u64_(j: &J, what: &str, n: &mut Notes) -> R<u64> {
    match j {
        J::Null => Ok(0),
        J::Number(x) => {
            n.add(format!("{what}: 64-bit integer written as JSON number"));
            if let Some(v) = x.as_u64() {
                Ok(v)
            } else if let Some(f) = x.as_f64() {
                if f >= 0.0 && f.fract() == 0.0 && f < 1.8446744073709552e19 {
                    Ok(f as u64)
                } else {
                    Err(format!("{what}: number {x} is not a u64"))
                }
            } else {
                Err(format!("{what}: number {x} is not a u64"))
            }
        }
        J::String(s) => s.trim().parse::<u64>().map_err(|e| format!("{what}: {s:?}: {e}")),
        _ => Err(format!("{what}: expected integer, got {}", kind(j))),
    }
}

fn i64_(j: &J, what: &str, n: &mut Notes) -> R<i64> {
    match j {
        J::Null => Ok(0),
        J::Number(x) => {
            n.add(format!("{what}: 64-bit integer written as JSON number"));
            if let Some(v) = x.as_i64() {
                Ok(v)
            } else if let Some(f) = x.as_f64() {
                if f.fract() == 0.0 && f.abs() < 9.223372036854776e18 {
                    Ok(f as i64)
                } else {
                    Err(format!("{what}: number {x} is not an i64"))
                }
            } else {
                Err(format!("{what}: number {x} is not an i64"))
            }
        }
        J::String(s) => s.trim().parse::<i64>().map_err(|e| format!("{what}: {s:?}: {e}")),
        _ => Err(format!("{what}: expected integer, got {}", kind(j))),
    }
}

fn u32_(j: &J, what: &str) -> R<u32> {
    match j {
        J::Null => Ok(0),
        J::Number(x) => x.as_u64().and_then(|v| u32::try_from(v).ok()).ok_or_else(|| format!("{what}: {x} is not a u32")),
        J::String(s) => s.trim().parse::<u32>().map_err(|e| format!("{what}: {s:?}: {e}")),
        _ => Err(format!("{what}: expected integer, got {}", kind(j))),
    }
}

fn f64_(j: &J, what: &str, n: &mut Notes) -> R<f64> {
    match j {
        J::Null => {
            n.add(format!("{what}: double written as null (read as NaN)"));
            Ok(f64::NAN)
        }
        J::Number(x) => x.as_f64().ok_or_else(|| format!("{what}: {x} is not a double")),
        J::String(s) => match s.as_str() {
            "NaN" => Ok(f64::NAN),
            "Infinity" => Ok(f64::INFINITY),
            "-Infinity" => Ok(f64::NEG_INFINITY),
            other => other.trim().parse::<f64>().map_err(|e| format!("{what}: {s:?}: {e}")),
        },
        _ => Err(format!("{what}: expected double, got {}", kind(j))),
    }
}

fn bool_(j: &J, what: &str) -> R<bool> {
    match j {
        J::Null => Ok(false),
        J::Bool(b) => Ok(*b),
        _ => Err(format!("{what}: expected bool, got {}", kind(j))),
    }
}

fn enum_(j: &J, what: &str, by_name: impl Fn(&str) -> Option<i32>) -> R<i32> {
    match j {
        J::Null => Ok(0),
        J::Number(x) => x.as_i64().and_then(|v| i32::try_from(v).ok()).ok_or_else(|| format!("{what}: {x} is not an enum number")),
        J::String(s) => by_name(s).ok_or_else(|| format!("{what}: unknown enum name {s:?}")),
        _ => Err(format!("{what}: expected enum, got {}", kind(j))),
    }
}

fn unhex(s: &str) -> Option<Vec<u8>> {
    if s.len() % 2 != 0 || !s.bytes().all(|b| b.is_ascii_hexdigit()) {
        return None;
    }
    Some(
        (0..s.len())
            .step_by(2)
            .map(|i| u8::from_str_radix(&s[i..i + 2], 16).unwrap())
            .collect(),
    )
}

pub(crate) fn unbase64(s: &str) -> Option<Vec<u8>> {
    let mut out = Vec::new();
    let mut acc = 0u32;
    let mut bits = 0;
    for b in s.bytes() {
        let v = match b {
            b'A'..=b'Z' => b - b'A',
            b'a'..=b'z' => b - b'a' + 26,
            b'0'..=b'9' => b - b'0' + 52,
            b'+' | b'-' => 62,
            b'/' | b'_' => 63,
            b'=' => continue,
            _ => return None,
        } as u32;
        acc = (acc << 6) | v;
        bits += 6;
        if bits >= 8 {
            bits -= 8;
            out.push((acc >> bits) as u8);
            acc &= (1 << bits) - 1;
        }
    }
    Some(out)
}

/// trace/span ids: hex per the OTLP/JSON rule
fn id_bytes(j: &J, what: &str, n: &mut Notes) -> R<Vec<u8>> {
    match j {
        J::Null => Ok(Vec::new()),
        J::String(s) => {
            if let Some(b) = unhex(s) {
                Ok(b)
            } else if let Some(b) = unbase64(s) {
                n.add(format!("{what}: id written as base64 instead of hex"));
                Ok(b)
            } else {
                Err(format!("{what}: {s:?} is neither hex nor base64"))
            }
        }
        J::Array(a) => {
            n.add(format!("{what}: id written as number array"));
            a.iter()
                .map(|v| v.as_u64().and_then(|v| u8::try_from(v).ok()).ok_or_else(|| format!("{what}: bad byte {v}")))
                .collect()
        }
        _ => Err(format!("{what}: expected id string, got {}", kind(j))),
    }
}

fn bytes_value(j: &J, what: &str, n: &mut Notes) -> R<Vec<u8>> {
    match j {
        J::Null => Ok(Vec::new()),
        J::String(s) => unbase64(s).ok_or_else(|| format!("{what}: {s:?} is not base64")),
        J::Array(a) => {
            n.add(format!("{what}: bytes written as number array instead of base64"));
            a.iter()
                .map(|v| v.as_u64().and_then(|v| u8::try_from(v).ok()).ok_or_else(|| format!("{what}: bad byte {v}")))
                .collect()
        }
        _ => Err(format!("{what}: expected bytes, got {}", kind(j))),
    }
}

fn unknown(what: &str, k: &str, n: &mut Notes) {
    n.add(format!("{what}: unknown field {k:?}"));
}

pub fn any_value(j: &J, n: &mut Notes) -> R<common::AnyValue> {
    use common::any_value::Value as V;
    if j.is_null() {
        n.add("AnyValue: written as null");
        return Ok(common::AnyValue { value: None });
    }
    let o = obj(j, "AnyValue")?;
    let mut value = None;
    for (k, v) in o {
        let parsed = match k.as_str() {
            "stringValue" | "string_value" => V::StringValue(string(v, "stringValue")?),
            "boolValue" | "bool_value" => V::BoolValue(bool_(v, "boolValue")?),
            "intValue" | "int_value" => V::IntValue(i64_(v, "intValue", n)?),
            "doubleValue" | "double_value" => V::DoubleValue(f64_(v, "doubleValue", n)?),
            "arrayValue" | "array_value" => {
                let mut values = Vec::new();
                if !v.is_null() {
                    for (fk, fv) in obj(v, "arrayValue")? {
                        match fk.as_str() {
                            "values" => {
                                for e in arr(fv, "arrayValue.values")? {
                                    values.push(any_value(e, n)?);
                                }
                            }
                            other => unknown("ArrayValue", other, n),
                        }
                    }
                }
                V::ArrayValue(common::ArrayValue { values })
            }
            "kvlistValue" | "kvlist_value" => {
                let mut values = Vec::new();
                if !v.is_null() {
                    for (fk, fv) in obj(v, "kvlistValue")? {
                        match fk.as_str() {
                            "values" => values = key_values(fv, n)?,
                            other => unknown("KeyValueList", other, n),
                        }
                    }
                }
                V::KvlistValue(common::KeyValueList { values })
            }
            "bytesValue" | "bytes_value" => V::BytesValue(bytes_value(v, "bytesValue", n)?),
            other => {
                unknown("AnyValue", other, n);
                continue;
            }
        };
        if value.is_some() {
            return Err("AnyValue: more than one oneof member set".into());
        }
        value = Some(parsed);
    }
    Ok(common::AnyValue { value })
}

pub fn key_values(j: &J, n: &mut Notes) -> R<Vec<common::KeyValue>> {
    let mut out = Vec::new();
    for e in arr(j, "attributes")? {
        let o = obj(e, "KeyValue")?;
        let mut kv = common::KeyValue { key: String::new(), value: None };
        for (k, v) in o {
            match k.as_str() {
                "key" => kv.key = string(v, "KeyValue.key")?,
                "value" => {
                    kv.value = if v.is_null() {
                        n.add("KeyValue.value: null");
                        None
                    } else {
                        Some(any_value(v, n)?)
                    }
                }
                other => unknown("KeyValue", other, n),
            }
        }
        out.push(kv);
    }
    Ok(out)
}

fn resource_(j: &J, n: &mut Notes) -> R<Option<resource::Resource>> {
    if j.is_null() {
        return Ok(None);
    }
    let mut r = resource::Resource { attributes: Vec::new(), dropped_attributes_count: 0 };
    for (k, v) in obj(j, "Resource")? {
        match k.as_str() {
            "attributes" => r.attributes = key_values(v, n)?,
            "droppedAttributesCount" | "dropped_attributes_count" => r.dropped_attributes_count = u32_(v, k)?,
            other => unknown("Resource", other, n),
        }
    }
    Ok(Some(r))
}

fn scope_(j: &J, n: &mut Notes) -> R<Option<common::InstrumentationScope>> {
    if j.is_null() {
        return Ok(None);
    }
    let mut s = common::InstrumentationScope {
        name: String::new(),
        version: String::new(),
        attributes: Vec::new(),
        dropped_attributes_count: 0,
    };
    for (k, v) in obj(j, "InstrumentationScope")? {
        match k.as_str() {
            "name" => s.name = string(v, "scope.name")?,
            "version" => s.version = string(v, "scope.version")?,
            "attributes" => s.attributes = key_values(v, n)?,
            "droppedAttributesCount" | "dropped_attributes_count" => s.dropped_attributes_count = u32_(v, k)?,
            other => unknown("InstrumentationScope", other, n),
        }
    }
    Ok(Some(s))
}

// ---------------------------------------------------------------------------------------------
// logs

pub fn logs_request(j: &J, n: &mut Notes) -> R<proto::ExportLogsServiceRequest> {
    let mut req = proto::ExportLogsServiceRequest { resource_logs: Vec::new() };
    for (k, v) in obj(j, "ExportLogsServiceRequest")? {
        match k.as_str() {
            "resourceLogs" | "resource_logs" => {
                for rl in arr(v, "resourceLogs")? {
                    let mut out = logs::ResourceLogs { resource: None, scope_logs: Vec::new(), schema_url: String::new() };
                    for (k, v) in obj(rl, "ResourceLogs")? {
                        match k.as_str() {
                            "resource" => out.resource = resource_(v, n)?,
                            "schemaUrl" | "schema_url" => out.schema_url = string(v, k)?,
                            "scopeLogs" | "scope_logs" => {
                                for sl in arr(v, "scopeLogs")? {
                                    let mut s = logs::ScopeLogs { scope: None, log_records: Vec::new(), schema_url: String::new() };
                                    for (k, v) in obj(sl, "ScopeLogs")? {
                                        match k.as_str() {
                                            "scope" => s.scope = scope_(v, n)?,
                                            "schemaUrl" | "schema_url" => s.schema_url = string(v, k)?,
                                            "logRecords" | "log_records" => {
                                                for lr in arr(v, "logRecords")? {
                                                    s.log_records.push(log_record(lr, n)?);
                                                }
                                            }
                                            other => unknown("ScopeLogs", other, n),
                                        }
                                    }
                                    out.scope_logs.push(s);
                                }
                            }
                            other => unknown("ResourceLogs", other, n),
                        }
                    }
                    req.resource_logs.push(out);
                }
            }
            other => unknown("ExportLogsServiceRequest", other, n),
        }
    }
    Ok(req)
}

fn log_record(j: &J, n: &mut Notes) -> R<logs::LogRecord> {
    let mut r = logs::LogRecord {
        time_unix_nano: 0,
        observed_time_unix_nano: 0,
        severity_number: 0,
        severity_text: String::new(),
        body: None,
        attributes: Vec::new(),
        dropped_attributes_count: 0,
        flags: 0,
        trace_id: Vec::new(),
        span_id: Vec::new(),
    };
    for (k, v) in obj(j, "LogRecord")? {
        match k.as_str() {
            "timeUnixNano" | "time_unix_nano" => r.time_unix_nano = u64_(v, "timeUnixNano", n)?,
            "observedTimeUnixNano" | "observed_time_unix_nano" => r.observed_time_unix_nano = u64_(v, "observedTimeUnixNano", n)?,
            "severityNumber" | "severity_number" => {
                r.severity_number = enum_(v, "severityNumber", |s| logs::SeverityNumber::from_str_name(s).map(|e| e as i32))?
            }
            "severityText" | "severity_text" => r.severity_text = string(v, "severityText")?,
            "body" => r.body = if v.is_null() { None } else { Some(any_value(v, n)?) },
            "attributes" => r.attributes = key_values(v, n)?,
            "droppedAttributesCount" | "dropped_attributes_count" => r.dropped_attributes_count = u32_(v, k)?,
            "flags" => r.flags = u32_(v, k)?,
            "traceId" | "trace_id" => r.trace_id = id_bytes(v, "traceId", n)?,
            "spanId" | "span_id" => r.span_id = id_bytes(v, "spanId", n)?,
            other => unknown("LogRecord", other, n),
        }
    }
    Ok(r)
}

// ---------------------------------------------------------------------------------------------
// traces

pub fn traces_request(j: &J, n: &mut Notes) -> R<proto::ExportTraceServiceRequest> {
    let mut req = proto::ExportTraceServiceRequest { resource_spans: Vec::new() };
    for (k, v) in obj(j, "ExportTraceServiceRequest")? {
        match k.as_str() {
            "resourceSpans" | "resource_spans" => {
                for rs in arr(v, "resourceSpans")? {
                    let mut out = trace::ResourceSpans { resource: None, scope_spans: Vec::new(), schema_url: String::new() };
                    for (k, v) in obj(rs, "ResourceSpans")? {
                        match k.as_str() {
                            "resource" => out.resource = resource_(v, n)?,
                            "schemaUrl" | "schema_url" => out.schema_url = string(v, k)?,
                            "scopeSpans" | "scope_spans" => {
                                for ss in arr(v, "scopeSpans")? {
                                    let mut s = trace::ScopeSpans { scope: None, spans: Vec::new(), schema_url: String::new() };
                                    for (k, v) in obj(ss, "ScopeSpans")? {
                                        match k.as_str() {
                                            "scope" => s.scope = scope_(v, n)?,
                                            "schemaUrl" | "schema_url" => s.schema_url = string(v, k)?,
                                            "spans" => {
                                                for sp in arr(v, "spans")? {
                                                    s.spans.push(span(sp, n)?);
                                                }
                                            }
                                            other => unknown("ScopeSpans", other, n),
                                        }
                                    }
                                    out.scope_spans.push(s);
                                }
                            }
                            other => unknown("ResourceSpans", other, n),
                        }
                    }
                    req.resource_spans.push(out);
                }
            }
            other => unknown("ExportTraceServiceRequest", other, n),
        }
    }
    Ok(req)
}

fn span(j: &J, n: &mut Notes) -> R<trace::Span> {
    let mut s = trace::Span {
        trace_id: Vec::new(),
        span_id: Vec::new(),
        trace_state: String::new(),
        parent_span_id: Vec::new(),
        flags: 0,
        name: String::new(),
        kind: 0,
        start_time_unix_nano: 0,
        end_time_unix_nano: 0,
        attributes: Vec::new(),
        dropped_attributes_count: 0,
        events: Vec::new(),
        dropped_events_count: 0,
        links: Vec::new(),
        dropped_links_count: 0,
        status: None,
    };
    for (k, v) in obj(j, "Span")? {
        match k.as_str() {
            "traceId" | "trace_id" => s.trace_id = id_bytes(v, "traceId", n)?,
            "spanId" | "span_id" => s.span_id = id_bytes(v, "spanId", n)?,
            "parentSpanId" | "parent_span_id" => s.parent_span_id = id_bytes(v, "parentSpanId", n)?,
            "traceState" | "trace_state" => s.trace_state = string(v, k)?,
            "flags" => s.flags = u32_(v, k)?,
            "name" => s.name = string(v, "Span.name")?,
            "kind" => s.kind = enum_(v, "Span.kind", |t| trace::span::SpanKind::from_str_name(t).map(|e| e as i32))?,
            "startTimeUnixNano" | "start_time_unix_nano" => s.start_time_unix_nano = u64_(v, "startTimeUnixNano", n)?,
            "endTimeUnixNano" | "end_time_unix_nano" => s.end_time_unix_nano = u64_(v, "endTimeUnixNano", n)?,
            "attributes" => s.attributes = key_values(v, n)?,
            "droppedAttributesCount" | "dropped_attributes_count" => s.dropped_attributes_count = u32_(v, k)?,
            "droppedEventsCount" | "dropped_events_count" => s.dropped_events_count = u32_(v, k)?,
            "droppedLinksCount" | "dropped_links_count" => s.dropped_links_count = u32_(v, k)?,
            "events" => {
                for e in arr(v, "Span.events")? {
                    let mut ev = trace::span::Event { time_unix_nano: 0, name: String::new(), attributes: Vec::new(), dropped_attributes_count: 0 };
                    for (k, v) in obj(e, "Span.Event")? {
                        match k.as_str() {
                            "timeUnixNano" | "time_unix_nano" => ev.time_unix_nano = u64_(v, "Event.timeUnixNano", n)?,
                            "name" => ev.name = string(v, "Event.name")?,
                            "attributes" => ev.attributes = key_values(v, n)?,
                            "droppedAttributesCount" | "dropped_attributes_count" => ev.dropped_attributes_count = u32_(v, k)?,
                            other => unknown("Span.Event", other, n),
                        }
                    }
                    s.events.push(ev);
                }
            }
            "links" => {
                for l in arr(v, "Span.links")? {
                    let mut ln = trace::span::Link {
                        trace_id: Vec::new(),
                        span_id: Vec::new(),
                        trace_state: String::new(),
                        attributes: Vec::new(),
                        dropped_attributes_count: 0,
                        flags: 0,
                    };
                    for (k, v) in obj(l, "Span.Link")? {
                        match k.as_str() {
                            "traceId" | "trace_id" => ln.trace_id = id_bytes(v, "Link.traceId", n)?,
                            "spanId" | "span_id" => ln.span_id = id_bytes(v, "Link.spanId", n)?,
                            "traceState" | "trace_state" => ln.trace_state = string(v, k)?,
                            "attributes" => ln.attributes = key_values(v, n)?,
                            "droppedAttributesCount" | "dropped_attributes_count" => ln.dropped_attributes_count = u32_(v, k)?,
                            "flags" => ln.flags = u32_(v, k)?,
                            other => unknown("Span.Link", other, n),
                        }
                    }
                    s.links.push(ln);
                }
            }
            "status" => {
                if !v.is_null() {
                    let mut st = trace::Status { message: String::new(), code: 0 };
                    for (k, v) in obj(v, "Status")? {
                        match k.as_str() {
                            "message" => st.message = string(v, "Status.message")?,
                            "code" => st.code = enum_(v, "Status.code", |t| trace::status::StatusCode::from_str_name(t).map(|e| e as i32))?,
                            other => unknown("Status", other, n),
                        }
                    }
                    s.status = Some(st);
                }
            }
            other => unknown("Span", other, n),
        }
    }
    Ok(s)
}

// ---------------------------------------------------------------------------------------------
// metrics

pub fn metrics_request(j: &J, n: &mut Notes) -> R<proto::ExportMetricsServiceRequest> {
    let mut req = proto::ExportMetricsServiceRequest { resource_metrics: Vec::new() };
    for (k, v) in obj(j, "ExportMetricsServiceRequest")? {
        match k.as_str() {
            "resourceMetrics" | "resource_metrics" => {
                for rm in arr(v, "resourceMetrics")? {
                    let mut out = metrics::ResourceMetrics { resource: None, scope_metrics: Vec::new(), schema_url: String::new() };
                    for (k, v) in obj(rm, "ResourceMetrics")? {
                        match k.as_str() {
                            "resource" => out.resource = resource_(v, n)?,
                            "schemaUrl" | "schema_url" => out.schema_url = string(v, k)?,
                            "scopeMetrics" | "scope_metrics" => {
                                for sm in arr(v, "scopeMetrics")? {
                                    let mut s = metrics::ScopeMetrics { scope: None, metrics: Vec::new(), schema_url: String::new() };
                                    for (k, v) in obj(sm, "ScopeMetrics")? {
                                        match k.as_str() {
                                            "scope" => s.scope = scope_(v, n)?,
                                            "schemaUrl" | "schema_url" => s.schema_url = string(v, k)?,
                                            "metrics" => {
                                                for m in arr(v, "metrics")? {
                                                    s.metrics.push(metric(m, n)?);
                                                }
                                            }
                                            other => unknown("ScopeMetrics", other, n),
                                        }
                                    }
                                    out.scope_metrics.push(s);
                                }
                            }
                            other => unknown("ResourceMetrics", other, n),
                        }
                    }
                    req.resource_metrics.push(out);
                }
            }
            other => unknown("ExportMetricsServiceRequest", other, n),
        }
    }
    Ok(req)
}

fn temporality(v: &J) -> R<i32> {
    enum_(v, "aggregationTemporality", |t| metrics::AggregationTemporality::from_str_name(t).map(|e| e as i32))
}

fn metric(j: &J, n: &mut Notes) -> R<metrics::Metric> {
    use metrics::metric::Data;
    let mut m = metrics::Metric { name: String::new(), description: String::new(), unit: String::new(), data: None };
    for (k, v) in obj(j, "Metric")? {
        let data = match k.as_str() {
            "name" => {
                m.name = string(v, "Metric.name")?;
                continue;
            }
            "description" => {
                m.description = string(v, "Metric.description")?;
                continue;
            }
            "unit" => {
                m.unit = string(v, "Metric.unit")?;
                continue;
            }
            "gauge" => {
                let mut g = metrics::Gauge { data_points: Vec::new() };
                if !v.is_null() {
                    for (k, v) in obj(v, "Gauge")? {
                        match k.as_str() {
                            "dataPoints" | "data_points" => g.data_points = number_points(v, n)?,
                            other => unknown("Gauge", other, n),
                        }
                    }
                }
                Data::Gauge(g)
            }
            "sum" => {
                let mut s = metrics::Sum { data_points: Vec::new(), aggregation_temporality: 0, is_monotonic: false };
                if !v.is_null() {
                    for (k, v) in obj(v, "Sum")? {
                        match k.as_str() {
                            "dataPoints" | "data_points" => s.data_points = number_points(v, n)?,
                            "aggregationTemporality" | "aggregation_temporality" => s.aggregation_temporality = temporality(v)?,
                            "isMonotonic" | "is_monotonic" => s.is_monotonic = bool_(v, "isMonotonic")?,
                            other => unknown("Sum", other, n),
                        }
                    }
                }
                Data::Sum(s)
            }
            "histogram" | "exponentialHistogram" | "exponential_histogram" | "summary" => {
                // emit never writes these; keep the fact, not the content
                n.add(format!("Metric.{k}: data kind not read by this collector"));
                continue;
            }
            other => {
                unknown("Metric", other, n);
                continue;
            }
        };
        if m.data.is_some() {
            return Err("Metric: more than one data member set".into());
        }
        m.data = Some(data);
    }
    Ok(m)
}

fn number_points(j: &J, n: &mut Notes) -> R<Vec<metrics::NumberDataPoint>> {
    use metrics::number_data_point::Value as V;
    let mut out = Vec::new();
    for p in arr(j, "dataPoints")? {
        let mut dp = metrics::NumberDataPoint {
            attributes: Vec::new(),
            start_time_unix_nano: 0,
            time_unix_nano: 0,
            exemplars: Vec::new(),
            flags: 0,
            value: None,
        };
        for (k, v) in obj(p, "NumberDataPoint")? {
            let value = match k.as_str() {
                "attributes" => {
                    dp.attributes = key_values(v, n)?;
                    continue;
                }
                "startTimeUnixNano" | "start_time_unix_nano" => {
                    dp.start_time_unix_nano = u64_(v, "startTimeUnixNano", n)?;
                    continue;
                }
                "timeUnixNano" | "time_unix_nano" => {
                    dp.time_unix_nano = u64_(v, "timeUnixNano", n)?;
                    continue;
                }
                "flags" => {
                    dp.flags = u32_(v, k)?;
                    continue;
                }
                "exemplars" => {
                    n.add("NumberDataPoint.exemplars: not read by this collector");
                    continue;
                }
                "asInt" | "as_int" => V::AsInt(i64_(v, "asInt", n)?),
                "asDouble" | "as_double" => V::AsDouble(f64_(v, "asDouble", n)?),
                // not a proto3-JSON name; tolerated and noted (the oneof member cannot be told apart
                // by name, so an integral JSON number is read as asInt and anything else as asDouble)
                "value" => {
                    n.add("NumberDataPoint.value: non-standard field name for the asInt/asDouble oneof");
                    match v {
                        J::Number(x) if x.is_i64() || x.is_u64() => V::AsInt(i64_(v, "value", n)?),
                        _ => V::AsDouble(f64_(v, "value", n)?),
                    }
                }
                other => {
                    unknown("NumberDataPoint", other, n);
                    continue;
                }
            };
            if dp.value.is_some() {
                return Err("NumberDataPoint: more than one value member set".into());
            }
            dp.value = Some(value);
        }
        out.push(dp);
    }
    Ok(out)
}
