//! The OTLP protobuf types GENERATED IN THE REPOSITORY (`emitter/otlp/src/data/generated/*.rs`), included by
//! path so the collector decodes with exactly the schema emit's own tests use.

#[allow(dead_code, unused_imports, clippy::all)]
#[path = "/repo/emitter/otlp/src/data/generated.rs"]
mod generated;

pub mod common {
    pub use super::generated::common::v1::*;
}
pub mod resource {
    pub use super::generated::resource::v1::*;
}
pub mod logs {
    pub use super::generated::logs::v1::*;
}
pub mod trace {
    pub use super::generated::trace::v1::*;
}
pub mod metrics {
    pub use super::generated::metrics::v1::*;
}
pub mod collector {
    pub mod logs {
        pub use super::super::generated::collector::logs::v1::*;
    }
    pub mod trace {
        pub use super::super::generated::collector::trace::v1::*;
    }
    pub mod metrics {
        pub use super::super::generated::collector::metrics::v1::*;
    }
}

pub use self::collector::logs::ExportLogsServiceRequest;
pub use self::collector::metrics::ExportMetricsServiceRequest;
pub use self::collector::trace::ExportTraceServiceRequest;
