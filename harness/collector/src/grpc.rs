//! gRPC (HTTP/2, `h2` crate) server on a private current-thread tokio runtime.

use crate::{decode, Decision, Encoding, Head, Inner, Outcome, Phase, Transport};
use bytes::Bytes;
use http::{HeaderMap, HeaderValue, Response};
use std::net::SocketAddr;
use std::sync::Arc;
use std::time::Duration;
use tokio::sync::mpsc;

pub(crate) struct GrpcServer {
    pub addr: SocketAddr,
    abort: Arc<std::sync::atomic::AtomicBool>,
    stop: tokio::sync::watch::Sender<bool>,
    thread: Option<std::thread::JoinHandle<()>>,
}

/// The accepted socket; when the server is being stopped it is closed by reset (SO_LINGER 0) so that
/// neither side is left in TIME_WAIT (thousands of collectors per run would exhaust the port range).
struct Io {
    s: tokio::net::TcpStream,
    abort: Arc<std::sync::atomic::AtomicBool>,
}

impl Drop for Io {
    fn drop(&mut self) {
        if self.abort.load(std::sync::atomic::Ordering::SeqCst) {
            // (deprecated because a non-zero linger blocks the thread on drop; zero does not)
            #[allow(deprecated)]
            let _ = self.s.set_linger(Some(Duration::ZERO));
        }
    }
}

impl tokio::io::AsyncRead for Io {
    fn poll_read(mut self: std::pin::Pin<&mut Self>, cx: &mut std::task::Context<'_>, buf: &mut tokio::io::ReadBuf<'_>) -> std::task::Poll<std::io::Result<()>> {
        std::pin::Pin::new(&mut self.s).poll_read(cx, buf)
    }
}

impl tokio::io::AsyncWrite for Io {
    fn poll_write(mut self: std::pin::Pin<&mut Self>, cx: &mut std::task::Context<'_>, buf: &[u8]) -> std::task::Poll<std::io::Result<usize>> {
        std::pin::Pin::new(&mut self.s).poll_write(cx, buf)
    }
    fn poll_flush(mut self: std::pin::Pin<&mut Self>, cx: &mut std::task::Context<'_>) -> std::task::Poll<std::io::Result<()>> {
        std::pin::Pin::new(&mut self.s).poll_flush(cx)
    }
    fn poll_shutdown(mut self: std::pin::Pin<&mut Self>, cx: &mut std::task::Context<'_>) -> std::task::Poll<std::io::Result<()>> {
        std::pin::Pin::new(&mut self.s).poll_shutdown(cx)
    }
}

enum ConnCmd {
    /// drop the connection on the floor (socket closed, no GOAWAY)
    Kill,
    /// GOAWAY, finish in-flight streams, then close
    Graceful,
    /// stop driving the connection altogether (nothing read, nothing written), socket kept open
    Freeze,
    /// GOAWAY(INTERNAL_ERROR) now; open streams are ended with it
    Abrupt,
}

/// Hold everything a stream owns, silently, until the collector shuts down.
async fn hold_forever(inner: &Inner) {
    while !inner.is_shutdown() {
        tokio::time::sleep(Duration::from_millis(20)).await;
    }
}

impl GrpcServer {
    pub fn start(inner: Arc<Inner>) -> Result<GrpcServer, String> {
        let listener = crate::bind_loopback()?;
        listener.set_nonblocking(true).unwrap();
        let addr = listener.local_addr().unwrap();
        let (stop, stop_rx) = tokio::sync::watch::channel(false);
        let abort = Arc::new(std::sync::atomic::AtomicBool::new(false));
        let abort2 = abort.clone();
        let thread = std::thread::Builder::new()
            .name("collector-grpc".into())
            .spawn(move || {
                let rt = tokio::runtime::Builder::new_current_thread().enable_all().build().unwrap();
                rt.block_on(accept_loop(inner, listener, stop_rx, abort2));
                // dropping the runtime drops every connection task and with it every socket
            })
            .map_err(|e| format!("collector: spawn grpc thread: {e}"))?;
        Ok(GrpcServer { addr, abort, stop, thread: Some(thread) })
    }

    pub fn stop(mut self) {
        self.abort.store(true, std::sync::atomic::Ordering::SeqCst);
        let _ = self.stop.send(true);
        if let Some(t) = self.thread.take() {
            let _ = t.join();
        }
    }
}

async fn accept_loop(inner: Arc<Inner>, listener: std::net::TcpListener, mut stop: tokio::sync::watch::Receiver<bool>, abort: Arc<std::sync::atomic::AtomicBool>) {
    let listener = tokio::net::TcpListener::from_std(listener).unwrap();
    loop {
        tokio::select! {
            _ = stop.changed() => return,
            acc = listener.accept() => {
                let Ok((sock, _)) = acc else { continue };
                let _ = sock.set_nodelay(true);
                let conn = inner.next_conn();
                tokio::spawn(serve_conn(inner.clone(), Io { s: sock, abort: abort.clone() }, conn));
            }
        }
    }
}

async fn serve_conn(inner: Arc<Inner>, sock: Io, conn_id: u64) {
    // windows larger than h2's 64 KiB default: a 2 MiB body then needs a handful of WINDOW_UPDATE round
    // trips instead of ~30 (which, between two single-threaded runtimes on an oversubscribed machine, made
    // requests miss emit's scaled timeout), while flow control is still exercised
    let Ok(mut conn) = h2::server::Builder::new()
        .initial_window_size(512 * 1024)
        .initial_connection_window_size(1024 * 1024)
        .handshake::<_, Bytes>(sock)
        .await
    else {
        return;
    };
    let (cmd_tx, mut cmd_rx) = mpsc::unbounded_channel::<ConnCmd>();
    // Some(keep_reading) once a `WedgeConnection` decision hit this connection
    let wedged: Arc<std::sync::Mutex<Option<bool>>> = Arc::new(std::sync::Mutex::new(None));
    loop {
        tokio::select! {
            cmd = cmd_rx.recv() => match cmd {
                Some(ConnCmd::Kill) => return,
                Some(ConnCmd::Graceful) => conn.graceful_shutdown(),
                Some(ConnCmd::Abrupt) => conn.abrupt_shutdown(h2::Reason::INTERNAL_ERROR),
                Some(ConnCmd::Freeze) => {
                    // `conn` (and with it the socket) stays alive, undriven, until the runtime goes away
                    std::future::pending::<()>().await;
                }
                None => return,
            },
            next = conn.accept() => match next {
                Some(Ok((req, respond))) => {
                    tokio::spawn(serve_stream(inner.clone(), conn_id, req, respond, cmd_tx.clone(), wedged.clone()));
                }
                _ => {
                    if wedged.lock().unwrap().is_some() {
                        // a wedged connection is never closed from this side, whatever the peer did
                        std::future::pending::<()>().await;
                    }
                    return;
                }
            }
        }
    }
}

/// Same wait, for a response whose HEADERS are already out (reset is observed on the send stream).
async fn wait_while_sending(inner: &Inner, send: &mut h2::SendStream<Bytes>, keep_waiting: impl Fn() -> bool) -> bool {
    loop {
        if inner.is_shutdown() {
            return false;
        }
        if !keep_waiting() {
            return true;
        }
        let reset = std::future::poll_fn(|cx| match send.poll_reset(cx) {
            std::task::Poll::Ready(_) => std::task::Poll::Ready(true),
            std::task::Poll::Pending => std::task::Poll::Ready(false),
        })
        .await;
        if reset {
            return false;
        }
        tokio::time::sleep(Duration::from_millis(5)).await;
    }
}

async fn wait_while(inner: &Inner, respond: &mut h2::server::SendResponse<Bytes>, keep_waiting: impl Fn() -> bool) -> bool {
    loop {
        if inner.is_shutdown() {
            return false;
        }
        if !keep_waiting() {
            return true;
        }
        // the client resetting the stream (its timeout) ends the wait
        let reset = std::future::poll_fn(|cx| match respond.poll_reset(cx) {
            std::task::Poll::Ready(_) => std::task::Poll::Ready(true),
            std::task::Poll::Pending => std::task::Poll::Ready(false),
        })
        .await;
        if reset {
            return false;
        }
        tokio::time::sleep(Duration::from_millis(5)).await;
    }
}

fn grpc_headers(status: u16) -> Response<()> {
    Response::builder()
        .status(status)
        .header("content-type", "application/grpc")
        .body(())
        .unwrap()
}

fn send_ack(respond: &mut h2::server::SendResponse<Bytes>) -> Result<(), h2::Error> {
    let mut send = respond.send_response(grpc_headers(200), false)?;
    // an empty Export*ServiceResponse message
    send.send_data(Bytes::from_static(&[0, 0, 0, 0, 0]), false)?;
    let mut trailers = HeaderMap::new();
    trailers.insert("grpc-status", HeaderValue::from_static("0"));
    send.send_trailers(trailers)
}

async fn serve_stream(
    inner: Arc<Inner>,
    conn_id: u64,
    req: http::Request<h2::RecvStream>,
    mut respond: h2::server::SendResponse<Bytes>,
    cmd: mpsc::UnboundedSender<ConnCmd>,
    wedged: Arc<std::sync::Mutex<Option<bool>>>,
) {
    let path = req.uri().path().to_string();
    if inner.is_foreign(&path) {
        // a stale emitter of an earlier case whose collector had this port: not our request
        let _ = respond.send_response(grpc_headers(404), true);
        return;
    }
    let mut headers = Vec::new();
    for (k, v) in req.headers() {
        headers.push((k.as_str().to_string(), v.to_str().unwrap_or("").to_string()));
    }
    let get = |k: &str| headers.iter().find(|(hk, _)| hk == k).map(|(_, v)| v.clone());
    let content_type = get("content-type").unwrap_or_default();
    let encoding = if content_type == "application/grpc" || content_type.starts_with("application/grpc+proto") {
        Encoding::Proto
    } else if content_type.starts_with("application/grpc+json") {
        Encoding::Json
    } else {
        Encoding::Unknown
    };
    let grpc_encoding = get("grpc-encoding").unwrap_or_default();
    let inherited = wedged.lock().unwrap().map(|keep_reading| Decision::WedgeConnection { keep_reading });
    let (idx, decision, _signal) = inner.begin_with(
        Head {
            conn: conn_id,
            transport: Transport::Grpc,
            path,
            content_type,
            encoding,
            gzip: grpc_encoding.eq_ignore_ascii_case("gzip"),
            headers,
        },
        inherited,
    );

    if let Decision::WedgeConnection { keep_reading } = decision {
        *wedged.lock().unwrap() = Some(keep_reading);
        // no answer will ever come: say so in the log at once
        inner.update(idx, |r| {
            r.outcome = Outcome::Dropped;
            r.phase = Phase::Stalled;
        });
        if !keep_reading {
            let _ = cmd.send(ConnCmd::Freeze);
            // the handles are kept so that h2 has no reason to reset the stream
            hold_forever(&inner).await;
            drop((req, respond));
            return;
        }
    }

    if decision == Decision::CloseBeforeRead {
        inner.finish(idx, Outcome::Dropped);
        let _ = cmd.send(ConnCmd::Kill);
        return;
    }

    // ---- body
    let mut body = req.into_body();
    let mut wire = Vec::new();
    while let Some(chunk) = body.data().await {
        match chunk {
            Ok(c) => {
                let _ = body.flow_control().release_capacity(c.len());
                wire.extend_from_slice(&c);
            }
            Err(_) => {
                inner.finish(idx, Outcome::Dropped);
                return;
            }
        }
    }
    let wire_len = wire.len();
    // length-prefixed message: 1 byte compressed flag, 4 bytes big-endian length
    let payload: Result<Vec<u8>, String> = (|| {
        if wire.len() < 5 {
            return Err(format!("grpc frame: only {} bytes", wire.len()));
        }
        let flag = wire[0];
        let len = u32::from_be_bytes([wire[1], wire[2], wire[3], wire[4]]) as usize;
        if wire.len() != 5 + len {
            return Err(format!("grpc frame: length prefix {len} but {} bytes follow", wire.len() - 5));
        }
        match flag {
            0 => Ok(wire[5..].to_vec()),
            1 => {
                if !grpc_encoding.eq_ignore_ascii_case("gzip") {
                    return Err(format!("grpc frame: compressed flag set but grpc-encoding is {grpc_encoding:?}"));
                }
                decode::gunzip(&wire[5..])
            }
            other => Err(format!("grpc frame: compressed flag {other}")),
        }
    })();
    let compressed_flag = wire.first().copied() == Some(1);
    inner.body(idx, wire_len, payload);
    inner.update(idx, |r| r.gzip = compressed_flag);

    if let Decision::WedgeConnection { .. } = decision {
        // `inner.body` reset the phase; the request stays unanswered for good
        inner.update(idx, |r| {
            r.outcome = Outcome::Dropped;
            r.phase = Phase::Stalled;
        });
        hold_forever(&inner).await;
        drop((body, respond));
        return;
    }

    // ---- act
    // The outcome is logged BEFORE the response is handed to h2 (see http1.rs): a check reading the log
    // right after the client acted on the response must already see it. A failed send downgrades it.
    let plan = |o: Outcome| inner.update(idx, |r| r.outcome = o);
    let outcome = match decision {
        Decision::Ack => {
            plan(Outcome::Acked);
            match send_ack(&mut respond) {
                Ok(()) => Outcome::Acked,
                Err(_) => Outcome::Dropped,
            }
        }
        Decision::AckThenClose => {
            plan(Outcome::Acked);
            let r = send_ack(&mut respond);
            let _ = cmd.send(ConnCmd::Graceful);
            match r {
                Ok(()) => Outcome::Acked,
                Err(_) => Outcome::Dropped,
            }
        }
        Decision::Hold(latch) => {
            inner.update(idx, |r| r.phase = Phase::Held);
            if wait_while(&inner, &mut respond, || !inner.latch_released(latch)).await {
                plan(Outcome::Acked);
                match send_ack(&mut respond) {
                    Ok(()) => Outcome::Acked,
                    Err(_) => Outcome::Dropped,
                }
            } else {
                Outcome::Dropped
            }
        }
        // (a 2xx without any grpc-status is not an acknowledgement in gRPC terms either)
        Decision::Status(s) => {
            plan(Outcome::Rejected);
            match respond.send_response(grpc_headers(s), true) {
                Ok(_) => Outcome::Rejected,
                Err(_) => Outcome::Dropped,
            }
        }
        Decision::GrpcStatus(code) => (|| {
            plan(if code == 0 { Outcome::Acked } else { Outcome::Rejected });
            let mut send = respond.send_response(grpc_headers(200), false)?;
            let mut trailers = HeaderMap::new();
            trailers.insert("grpc-status", HeaderValue::from_str(&code.to_string()).unwrap());
            if let Some(m) = grpc_message(code) {
                trailers.insert("grpc-message", m);
            }
            send.send_trailers(trailers)
        })()
        .map(|()| if code == 0 { Outcome::Acked } else { Outcome::Rejected })
        .unwrap_or(Outcome::Dropped),
        Decision::GrpcStatusTrailersOnly(code) => {
            plan(if code == 0 { Outcome::Acked } else { Outcome::Rejected });
            let mut res = grpc_headers(200);
            res.headers_mut().insert("grpc-status", HeaderValue::from_str(&code.to_string()).unwrap());
            if let Some(m) = grpc_message(code) {
                res.headers_mut().insert("grpc-message", m);
            }
            match respond.send_response(res, true) {
                Ok(_) => {
                    if code == 0 {
                        Outcome::Acked
                    } else {
                        Outcome::Rejected
                    }
                }
                Err(_) => Outcome::Dropped,
            }
        }
        Decision::ReadThenClose => {
            let _ = cmd.send(ConnCmd::Kill);
            Outcome::Dropped
        }
        Decision::Stall => {
            inner.update(idx, |r| r.phase = Phase::Stalled);
            wait_while(&inner, &mut respond, || !inner.stalls_released()).await;
            let _ = cmd.send(ConnCmd::Kill);
            Outcome::Dropped
        }
        Decision::StallAfterHeaders | Decision::StallMidBody => {
            inner.update(idx, |r| r.phase = Phase::Stalled);
            match respond.send_response(grpc_headers(200), false) {
                Ok(mut send) => {
                    if decision == Decision::StallMidBody {
                        // 3 of the 5 bytes of the length-prefixed message header
                        let _ = send.send_data(Bytes::from_static(&[0, 0, 0]), false);
                    }
                    // silent on this stream; the connection keeps serving other streams
                    wait_while_sending(&inner, &mut send, || !inner.stalls_released()).await;
                    send.send_reset(h2::Reason::CANCEL);
                }
                Err(_) => {}
            }
            Outcome::Dropped
        }
        Decision::AbortAfterHeaders { how } | Decision::AbortMidBody { how } => {
            // no OK trailers will ever be sent: not acknowledged, whatever the client makes of it
            plan(Outcome::Dropped);
            if let Ok(mut send) = respond.send_response(grpc_headers(200), false) {
                if matches!(decision, Decision::AbortMidBody { .. }) {
                    let _ = send.send_data(Bytes::from_static(&[0, 0, 0]), false);
                }
                // let the HEADERS (and DATA) reach the client before the abort does
                tokio::time::sleep(Duration::from_millis(20)).await;
                match how {
                    crate::Abort::RstStream => send.send_reset(h2::Reason::INTERNAL_ERROR),
                    crate::Abort::Goaway => {
                        let _ = cmd.send(ConnCmd::Abrupt);
                        // keep the stream handle until the GOAWAY is out
                        tokio::time::sleep(Duration::from_millis(20)).await;
                    }
                    crate::Abort::DropConnection => {
                        let _ = cmd.send(ConnCmd::Kill);
                        tokio::time::sleep(Duration::from_millis(20)).await;
                    }
                }
            }
            Outcome::Dropped
        }
        Decision::CloseBeforeRead | Decision::WedgeConnection { .. } => unreachable!(),
    };
    inner.finish(idx, outcome);
}


/// The human-readable `grpc-message` that accompanies a scripted status. What a server puts there is free text that
/// SHOULD be percent-encoded but in practice often is not: the text is chosen by the status code so that the usual
/// shapes all occur (absent, empty, plain, properly encoded, a raw `%` in the middle, at the very end, followed by one
/// character, an invalid escape, encoded non-ASCII).
fn grpc_message(code: i32) -> Option<HeaderValue> {
    const TEXTS: [Option<&str>; 9] = [
        Some("scripted"),
        None,
        Some("disk usage at 100%"),
        Some(""),
        Some("quota%20exceeded"),
        Some("caf%C3%A9 closed"),
        Some("bad %zz escape, 100% full"),
        Some("%"),
        Some("retry in 5%s"),
    ];
    TEXTS[code.rem_euclid(TEXTS.len() as i32) as usize].map(HeaderValue::from_static)
}
