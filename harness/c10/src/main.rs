// stub: check for C10 not built yet
fn main() {
    eprintln!("C10: check not built yet");
    std::process::exit(2);
}
