use fsim::gen::{self, Focus, Prop};
use vcore::Level;

const RULE: &str = "a history is a configuration (roll period, max files 1-5, size limit tiny..huge, reuse on/off, separator \\n | \\r\\n | \\0, prefix/extension) plus steps {batch of 1-5 events of 0-48 bytes (optionally after a sender-side overflow clear), clock step (forwards, zero, backwards), restart} plus a fault plan of 0-3 faults {error, partial write then error, short write, crash keeping n bytes} keyed by filesystem-call index, plus choices for post-crash images; the REAL emit_file worker (hook H2) runs over a model filesystem and is retried like the channel retries it (remainder re-submitted up to 10 times, 700 ms apart). single-fault-exhaustive: for sampled fault-free histories EVERY fault kind (9 variants) is injected at EVERY filesystem call index. Oracle: (1) when a batch is reported written every one of its events is a complete byte-identical record in synced content, also in every post-crash image unless retention deleted its file; (2) every separator-delimited record of every file and post-crash image is a complete event, empty, or a truncated prefix of ONE event (possibly with a cut-short separator), and truncated records only exist when a fault/crash was injected. Non-trivial = at least one injected fault or crash actually hit a filesystem call.";

fn main() {
    vcore::run(
        "C10",
        Level::FaultEnumeration,
        RULE,
        &[
            "filesystem model: written bytes are visible at once and durable up to the length at the last successful sync_all; a crash keeps each file's synced prefix plus a generated prefix of its unsynced suffix (the crash model the property states); directory-entry durability (sync_parent) is recorded but not judged",
            "the worker is driven directly through hook H2 (emit_file::verif::Worker::on_batch) with the retry policy of emit_batcher re-implemented by the harness; the end-to-end path through the real channel is covered by C07",
            "batches that fail in flush/sync are not acknowledged and not retried (documented); nothing is claimed about them",
            "event bodies never contain separator bytes (emit's writers guarantee this for the default JSON writer)",
            "non-repeating pseudo-random file ids; a virtual clock under harness control",
        ],
        |s| {
            s.require("fault-on-write", 3000);
            s.require("fault-on-sync-or-flush", 2000);
            s.require("crash", 3000);
            s.require("reuse-after-crash", 500);
            s.require("batch-retried", 3000);
            s.require("two-byte-separator", 5000);
            s.require("truncated-record-present", 3000);
            s.require("file-e2e:event-refused-by-the-writer", 300);
            s.require("file-e2e:event-refused-by-the-default-json-writer", 100);
            s.require("file-e2e:writer-ends-with-the-last-separator-byte-only", 100);
            s.require("file-e2e:writer-writes-the-separator-itself", 100);
            // artifacts of the libFuzzer target `file_c10` (engine E6 over E3) are replayed through the same entry
            s.manual("fuzz-artifact", Vec::<Vec<u8>>::new(), |bytes, cx| {
                cx.nontrivial(true);
                match fsim::fuzz::entry(bytes, Prop::C10) {
                    Ok(()) => Ok(()),
                    Err(f) => cx.fail(f.sig, format!("{}; decoded case: {:?}", f.msg, fsim::fuzz::decode(bytes))),
                }
            });
            s.gen("histories", s.n(400_000, 12_000_000), || gen::hist(Focus::Faults), |h, cx| gen::check(h, Prop::C10, cx));
            // end to end through the real FileSet (formatting on the caller's thread, real channel and worker
            // thread): every record is exactly one formatted event, flush true => synced
            s.gen("file-e2e", s.n(3_000, 100_000), fsim::e2e::flush_case, |c, cx| fsim::e2e::check_flush(c, cx));
            let bases = s.sample("single-fault-bases", gen::hist(Focus::Faults), s.n(400, 12_000) as usize);
            s.enumerate("single-fault-exhaustive", bases.into_iter().flat_map(gen::single_fault_placements), |h, cx| gen::check(h, Prop::C10, cx));
        },
    )
}
