use c20::{Case, InitSpec, ObsSpec};
use vcore::proptest::prelude::*;

const RULE: &str = "a case is a workload on a fresh AmbientSlot: K in 0..=16 initialiser threads (each owning five components tagged with its index; method = Setup::try_init_slot | Setup::init_slot | AmbientSlot::init; generated spin skew; optionally emitting through its handle when it wins) and M in 0..=16 observer threads (generated skew, 1..=6 rounds of { poll is_enabled, emit an event, open+complete a span, blocking_flush } through slot.get(), generated polling budget and gaps), released together by a spin barrier; the main thread uses the slot before any thread starts and after all have joined. The schedule is whatever the OS scheduler produces (sampling, not enumeration). Non-trivial = at least 2 racing initialisers and at least 1 concurrent observer.";

fn skew() -> impl Strategy<Value = u16> {
    prop_oneof![
        4 => Just(0u16),
        4 => 0u16..64,
        3 => 0u16..600,
        1 => 0u16..6000,
    ]
}

fn init_spec() -> impl Strategy<Value = InitSpec> {
    (0u8..3, skew(), any::<bool>()).prop_map(|(method, skew, post_emit)| InitSpec { method, skew, post_emit })
}

fn obs_spec() -> impl Strategy<Value = ObsSpec> {
    (
        skew(),
        1u8..=6,
        prop_oneof![2 => Just(0u16), 2 => 0u16..200, 2 => 200u16..5000],
        prop_oneof![3 => Just(0u16), 2 => 0u16..100, 1 => 0u16..2000],
        prop::bool::weighted(0.6),
        prop::bool::weighted(0.6),
    )
        .prop_map(|(skew, iters, poll, gap, do_span, do_flush)| ObsSpec { skew, iters, poll, gap, do_span, do_flush })
}

fn case() -> impl Strategy<Value = Case> {
    let k = prop_oneof![
        1 => Just(0usize),
        1 => Just(1usize),
        10 => 2usize..=4,
        8 => 5usize..=16,
    ];
    let m = prop_oneof![
        1 => Just(0usize),
        10 => 1usize..=4,
        9 => 5usize..=16,
    ];
    (k, m).prop_flat_map(|(k, m)| (prop::collection::vec(init_spec(), k..=k), prop::collection::vec(obs_spec(), m..=m)).prop_map(|(inits, observers)| Case { inits, observers }))
}

fn main() {
    vcore::run(
        "C20",
        vcore::Level::Exploration,
        RULE,
        &[
            "the interleavings explored are those the OS scheduler produces on this machine under a spin barrier and generated skews; the oracle is schedule-independent (it holds for every interleaving), so no timing information is used for a verdict, but a rare interleaving can be missed",
            "an observer's emit issued before that observer has seen is_enabled() == true may or may not be delivered (initialisation can complete in between): don't-care, only its consistency is checked",
            "dropping the components of a losing initialiser is not an invocation of them",
            "each event is attributed to the filter consulted last on the emitting thread (emit is synchronous: filter, then emitter, on the caller's thread) and span events to the rng that produced the trace id shown to the filter when the span began",
            "at most 3 cases run concurrently (each has up to 33 threads) to bound oversubscription; when a failure is replayed or shrunk the workload is re-run up to 200 times because the schedule is not part of the case",
        ],
        |s| {
            // "safe no-ops ... flush returns true": a case whose threads never come back is a violation
            s.hang_is_violation(180);
            s.require("race:k>=2,m>=1", 5000);
            s.require("init_slot-loser-may-panic", 5000);
            s.require("raw-AmbientSlot-init", 5000);
            s.require("observed-both-sides-of-init", 1000);
            s.gen("slot-race", s.n(100_000, 4_000_000), case, c20::check);
        },
    )
}
