use c20::global::{GCase, GInit, GObs};
use c20::{Case, InitSpec, ObsSpec};
use vcore::proptest::prelude::*;

const RULE: &str = "a case is a workload on a fresh AmbientSlot: K in 0..=16 initialiser threads (each owning five components tagged with its index; method = Setup::try_init_slot | Setup::init_slot | AmbientSlot::init; generated spin skew; optionally emitting through its handle when it wins) and M in 0..=16 observer threads (generated skew, 1..=6 rounds of { poll is_enabled, emit an event, open+complete a span, blocking_flush } through slot.get(), generated polling budget and gaps), released together by a spin barrier; the main thread uses the slot before any thread starts and after all have joined. The schedule is whatever the OS scheduler produces (sampling, not enumeration). Second generator (global-slots): the same kind of workload against the two PROCESS-GLOBAL slots (emit::runtime::shared() via setup().init()/try_init(), internal() via init_internal()/try_init_internal() with AssertInternal components), one child process per case (this binary re-executed with a hidden argument, case on stdin, JSON report on stdout): K in 0..=12 initialisers, M in 0..=12 observers that take a &'static runtime reference EARLY (before the barrier, i.e. before initialisation) and use it afterwards and/or resolve a fresh reference at each use and/or use the macros' default path (emit! without rt:), with optional user code running INSIDE emit (a slow ToEvent, a slow when: filter) so that initialisation can complete while an emit is in flight; the main thread uses a fresh and an early reference before and after the race. A child may initialise BOTH global slots (layout: shared only, internal only, shared first then a race on internal, internal first then a race on shared, or two sets of initialisers behind the same barrier), with observers on shared() and on internal(); the oracle is applied per slot. Non-trivial = at least 2 racing initialisers and at least 1 concurrent observer (slot-race); at least 1 initialiser and 1 observer (global-slots).";

fn skew() -> impl Strategy<Value = u16> {
    prop_oneof![
        4 => Just(0u16),
        4 => 0u16..64,
        3 => 0u16..600,
        1 => 0u16..6000,
    ]
}

fn init_spec() -> impl Strategy<Value = InitSpec> {
    (0u8..3, skew(), any::<bool>()).prop_map(|(method, skew, post_emit)| InitSpec { method, skew, post_emit })
}

fn obs_spec() -> impl Strategy<Value = ObsSpec> {
    (
        skew(),
        1u8..=6,
        prop_oneof![2 => Just(0u16), 2 => 0u16..200, 2 => 200u16..5000],
        prop_oneof![3 => Just(0u16), 2 => 0u16..100, 1 => 0u16..2000],
        prop::bool::weighted(0.6),
        prop::bool::weighted(0.6),
    )
        .prop_map(|(skew, iters, poll, gap, do_span, do_flush)| ObsSpec { skew, iters, poll, gap, do_span, do_flush })
}

fn case() -> impl Strategy<Value = Case> {
    let k = prop_oneof![
        1 => Just(0usize),
        1 => Just(1usize),
        10 => 2usize..=4,
        8 => 5usize..=16,
    ];
    let m = prop_oneof![
        1 => Just(0usize),
        10 => 1usize..=4,
        9 => 5usize..=16,
    ];
    (k, m).prop_flat_map(|(k, m)| (prop::collection::vec(init_spec(), k..=k), prop::collection::vec(obs_spec(), m..=m)).prop_map(|(inits, observers)| Case { inits, observers }))
}

fn ginit() -> impl Strategy<Value = GInit> {
    // initialisers start a little later than the observers so that observers are mid-emit when init lands
    (0u8..2, 0u8..2, skew(), any::<bool>()).prop_map(|(slot, method, skew, post_emit)| GInit { slot, method, skew: skew.saturating_add(200), post_emit })
}

fn gobs() -> impl Strategy<Value = GObs> {
    (
        (0u8..2, 0u8..4, skew(), 1u8..=6),
        prop_oneof![2 => Just(0u16), 2 => 0u16..200, 1 => 200u16..5000],
        prop_oneof![3 => Just(0u16), 2 => 0u16..100, 1 => 0u16..2000],
        // user code inside emit: none, or 30..3000 spin iterations (roughly 0.1..10 us)
        prop_oneof![2 => Just(0u16), 3 => 30u16..600, 2 => 600u16..3000],
        prop::bool::weighted(0.5),
        prop::bool::weighted(0.4),
    )
        .prop_map(|((slot, ref_mode, skew, iters), poll, gap, inner_spin, do_span, do_flush)| GObs { slot, ref_mode, skew, iters, poll, gap, inner_spin, do_span, do_flush })
}

fn gcase() -> impl Strategy<Value = GCase> {
    let k = prop_oneof![1 => Just(0usize), 6 => Just(1usize), 8 => 2usize..=4, 4 => 5usize..=12];
    let m = prop_oneof![1 => Just(0usize), 10 => 1usize..=4, 9 => 5usize..=12];
    // 0 shared only, 1 internal only, 2 shared first then race on internal, 3 internal first then race on shared,
    // 4 both sets of initialisers behind the same barrier
    let layout = prop_oneof![2 => Just(0u8), 2 => Just(1u8), 3 => Just(2u8), 2 => Just(3u8), 3 => Just(4u8)];
    (layout, k, m).prop_flat_map(|(layout, k, m)| (prop::collection::vec(ginit(), k..=k), prop::collection::vec(gobs(), m..=m)).prop_map(move |(inits, observers)| GCase { layout, inits, observers }))
}

fn main() {
    // hidden sub-command: one workload on this process's global slot (see global.rs)
    if std::env::args().nth(1).as_deref() == Some(c20::global::CHILD_ARG) {
        c20::global::child_main();
    }
    vcore::run(
        "C20",
        vcore::Level::Exploration,
        RULE,
        &[
            "the interleavings explored are those the OS scheduler produces on this machine under a spin barrier and generated skews; the oracle is schedule-independent (it holds for every interleaving), so no timing information is used for a verdict, but a rare interleaving can be missed",
            "an observer's emit issued before that observer has seen is_enabled() == true may or may not be delivered (initialisation can complete in between): don't-care, only its consistency is checked",
            "dropping the components of a losing initialiser is not an invocation of them",
            "each event is attributed to the filter consulted last on the emitting thread (emit is synchronous: filter, then emitter, on the caller's thread) and span events to the rng that produced the trace id shown to the filter when the span began",
            "global slots: an operation through a runtime reference taken BEFORE initialisation is either not delivered at all or delivered coherently (all of the winner's components); it is never required to be delivered. Operations through a fresh reference (or the macro default path) issued after is_enabled() was seen must be delivered. An event emitted with a call-site when: filter legitimately bypasses the winner's filter (the other components must still be the winner's). Class global:emit-straddles-init = some emit started before the thread had seen is_enabled() and is_enabled() was true right after it returned (initialisation completed while it was in flight or just around it): diagnostic only",
            "both global slots in one process: each slot is judged on its own (K_slot >= 1 => exactly one attempt on THAT slot reports success, every other returns None / panics 'already initialized'); a loser is any attempt that REPORTED failure, whatever the slot did with its components: none of its components may ever be invoked; an event sent through shared()/internal() must have been served by the winner of that slot only. The order in which the two slots are initialised is not restricted by the property",
            "at most 3 cases run concurrently (each has up to 33 threads) to bound oversubscription; when a failure is replayed or shrunk the workload is re-run up to 200 times because the schedule is not part of the case",
        ],
        |s| {
            // "safe no-ops ... flush returns true": a case whose threads never come back is a violation
            s.hang_is_violation(180);
            s.require("race:k>=2,m>=1", 5000);
            s.require("init_slot-loser-may-panic", 5000);
            s.require("raw-AmbientSlot-init", 5000);
            s.require("observed-both-sides-of-init", 1000);
            s.gen("slot-race", s.n(100_000, 4_000_000), case, c20::check);
            // the two process-global slots: one child process per case
            s.require("global:shared", 300);
            s.require("global:internal", 300);
            s.require("global:early-reference-used-after-init", 300);
            s.require("global:emit-straddles-init", 100);
            s.require("global:both-slots", 150);
            s.require("global:internal-after-shared", 60);
            s.require("global:shared-after-internal", 40);
            s.require("global:internal-concurrent-with-shared", 40);
            s.gen("global-slots", s.n(3_000, 60_000), gcase, c20::global::check_global);
        },
    )
}
