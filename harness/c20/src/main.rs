// stub: check for C20 not built yet
fn main() {
    eprintln!("C20: check not built yet");
    std::process::exit(2);
}
