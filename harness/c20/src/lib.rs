//! C20 — a runtime slot is initialised at most once and is inert before that.
//!
//! OS-thread stress (engine E7): every case builds a fresh `AmbientSlot`, races K initialisers (each
//! with five components tagged by its index) against M observers on real threads behind a spin
//! barrier, and judges the resulting history with invariants that hold for *every* interleaving.
//! The schedule is whatever the OS produces: this samples schedules, it does not enumerate them.
//!
//! `global.rs` runs the same kind of workload against the two PROCESS-GLOBAL slots (`emit::runtime::shared()`
//! / `internal()`), one child process per case.

pub mod global;

use std::cell::Cell;
use std::ops::ControlFlow;
use std::panic::{catch_unwind, AssertUnwindSafe};
use std::sync::atomic::{AtomicU32, AtomicUsize, Ordering};
use std::sync::{Arc, Condvar, Mutex};
use std::time::Duration;

use emit::event::ToEvent;
use emit::runtime::AmbientSlot;
use emit::{Clock, Ctxt, Emitter, Filter, Props, Rng, Str, Timestamp, Value};
use serde::{Deserialize, Serialize};
use vcore::{vassert, vassert_eq, Cx, Fail, Res};

pub const MAX_TAG: usize = 17;
pub const BASE_SECS: u64 = 1_700_000_000;

pub(crate) const C_EMIT: usize = 0;
const C_FLUSH: usize = 1;
const C_FILTER: usize = 2;
const C_CTXT: usize = 3;
const C_CLOCK: usize = 4;
const C_RNG: usize = 5;
pub(crate) const COMPONENT_NAMES: [&str; 6] = ["emitter.emit", "emitter.blocking_flush", "filter", "ctxt", "clock", "rng"];

thread_local! {
    // who is emitting (set by the harness thread before each operation)
    static TL_ACTOR: Cell<(u32, u32)> = const { Cell::new((0, 0)) };
    // tag of the filter consulted last on this thread / of the rng that produced the ids it saw
    static TL_FILTER: Cell<Option<u8>> = const { Cell::new(None) };
    static TL_RNG: Cell<Option<u8>> = const { Cell::new(None) };
}

#[derive(Debug, Clone, Serialize, Deserialize)]
pub struct EvRec {
    pub emitter: u8,
    pub filter: Option<u8>,
    pub ctxt: Option<u8>,
    pub clock: Option<u8>,
    pub rng: Option<u8>,
    pub is_span: bool,
    pub actor: u32,
    pub seq: u32,
}

pub struct Log {
    pub events: Mutex<Vec<EvRec>>,
    pub calls: [[AtomicU32; 6]; MAX_TAG],
}

impl Log {
    pub(crate) fn new() -> Arc<Log> {
        Arc::new(Log {
            events: Mutex::new(Vec::new()),
            calls: std::array::from_fn(|_| std::array::from_fn(|_| AtomicU32::new(0))),
        })
    }

    fn hit(&self, tag: u8, component: usize) {
        self.calls[tag as usize][component].fetch_add(1, Ordering::Relaxed);
    }

    pub(crate) fn total_calls(&self) -> u64 {
        self.calls.iter().flatten().map(|c| c.load(Ordering::Relaxed) as u64).sum()
    }
}

pub struct TagEmitter(pub u8, pub Arc<Log>);
pub struct TagFilter(pub u8, pub Arc<Log>);
pub struct TagCtxt(pub u8, pub Arc<Log>);
pub struct TagClock(pub u8, pub Arc<Log>);
pub struct TagRng(pub u8, pub Arc<Log>);

impl Emitter for TagEmitter {
    fn emit<E: ToEvent>(&self, evt: E) {
        self.1.hit(self.0, C_EMIT);
        let evt = evt.to_event();
        let clock = evt.extent().map(|e| {
            let end = e.as_point().to_unix().as_secs().wrapping_sub(BASE_SECS);
            let start = e.as_range().map(|r| r.start.to_unix().as_secs().wrapping_sub(BASE_SECS)).unwrap_or(end);
            // a range whose two ends disagree is reported as tag 255 (never a valid tag)
            if start == end && end < MAX_TAG as u64 {
                end as u8
            } else {
                255
            }
        });
        let (actor, seq) = TL_ACTOR.with(|a| a.get());
        let rec = EvRec {
            emitter: self.0,
            filter: TL_FILTER.with(|f| f.take()),
            rng: TL_RNG.with(|f| f.take()),
            ctxt: evt.props().pull::<u8, _>("ctxt_tag"),
            clock,
            is_span: evt.props().pull::<emit::Kind, _>("evt_kind") == Some(emit::Kind::Span),
            actor,
            seq,
        };
        self.1.events.lock().unwrap().push(rec);
    }

    fn blocking_flush(&self, _: Duration) -> bool {
        self.1.hit(self.0, C_FLUSH);
        true
    }
}

impl Filter for TagFilter {
    fn matches<E: ToEvent>(&self, evt: E) -> bool {
        self.1.hit(self.0, C_FILTER);
        let evt = evt.to_event();
        TL_FILTER.with(|f| f.set(Some(self.0)));
        if let Some(t) = evt.props().pull::<emit::TraceId, _>("trace_id") {
            let bytes = t.to_bytes();
            let tag = if bytes.iter().all(|b| *b == bytes[0]) { bytes[0] } else { 255 };
            TL_RNG.with(|f| f.set(Some(tag)));
        }
        true
    }
}

pub struct TagProps(u8);

impl Props for TagProps {
    fn for_each<'kv, F: FnMut(Str<'kv>, Value<'kv>) -> ControlFlow<()>>(&'kv self, mut for_each: F) -> ControlFlow<()> {
        for_each(Str::new("ctxt_tag"), Value::from(self.0))
    }
}

impl Ctxt for TagCtxt {
    type Current = TagProps;
    type Frame = ();

    fn open_root<P: Props>(&self, _: P) -> Self::Frame {
        self.1.hit(self.0, C_CTXT);
    }

    fn enter(&self, _: &mut Self::Frame) {
        self.1.hit(self.0, C_CTXT);
    }

    fn with_current<R, F: FnOnce(&Self::Current) -> R>(&self, with: F) -> R {
        self.1.hit(self.0, C_CTXT);
        with(&TagProps(self.0))
    }

    fn exit(&self, _: &mut Self::Frame) {
        self.1.hit(self.0, C_CTXT);
    }

    fn close(&self, _: Self::Frame) {
        self.1.hit(self.0, C_CTXT);
    }
}

impl Clock for TagClock {
    fn now(&self) -> Option<Timestamp> {
        self.1.hit(self.0, C_CLOCK);
        Timestamp::from_unix(Duration::from_secs(BASE_SECS + self.0 as u64))
    }
}

impl Rng for TagRng {
    fn fill<A: AsMut<[u8]>>(&self, mut arr: A) -> Option<A> {
        self.1.hit(self.0, C_RNG);
        arr.as_mut().fill(self.0);
        Some(arr)
    }
}

// ---------------------------------------------------------------------------------------------
// the workload (= the replay unit)

#[derive(Serialize, Deserialize, Debug, Clone)]
pub struct InitSpec {
    /// 0 = Setup::try_init_slot, 1 = Setup::init_slot (panics when it loses), 2 = AmbientSlot::init
    pub method: u8,
    /// spin iterations between the barrier and the attempt
    pub skew: u16,
    /// the winner emits one event through its handle afterwards
    pub post_emit: bool,
}

#[derive(Serialize, Deserialize, Debug, Clone)]
pub struct ObsSpec {
    pub skew: u16,
    pub iters: u8,
    /// poll `is_enabled()` up to this many times (stopping at the first true) before each round
    pub poll: u16,
    /// spin iterations between rounds
    pub gap: u16,
    pub do_span: bool,
    pub do_flush: bool,
}

#[derive(Serialize, Deserialize, Debug, Clone)]
pub struct Case {
    pub inits: Vec<InitSpec>,
    pub observers: Vec<ObsSpec>,
}

#[derive(Debug, Clone, Copy, PartialEq, Eq)]
enum InitOutcome {
    Won,
    Lost,
    /// init_slot loser: panicked with the documented message
    LostByPanic,
}

struct InitReport {
    outcome: InitOutcome,
    problems: Vec<Fail>,
}

#[derive(Debug, Clone, Copy)]
struct Sent {
    seq: u32,
    is_span: bool,
    /// the observer had already seen `is_enabled() == true` when it started this operation
    after_enabled: bool,
}

struct ObsReport {
    sent: Vec<Sent>,
    saw_enabled: bool,
    problems: Vec<Fail>,
}

pub(crate) fn spin(n: u32) {
    for _ in 0..n {
        std::hint::spin_loop();
    }
}

pub(crate) struct SpinBarrier {
    pub(crate) arrived: AtomicUsize,
    pub(crate) total: usize,
}

impl SpinBarrier {
    pub(crate) fn wait(&self) {
        self.arrived.fetch_add(1, Ordering::AcqRel);
        let mut n = 0u32;
        while self.arrived.load(Ordering::Acquire) < self.total {
            std::hint::spin_loop();
            n += 1;
            if n % 256 == 0 {
                std::thread::yield_now();
            }
        }
    }
}

// at most this many cases run at the same time (each has up to 33 threads); it only bounds the
// oversubscription of the 16 cores, it never influences a verdict
fn concurrent_cases() -> usize {
    static N: std::sync::OnceLock<usize> = std::sync::OnceLock::new();
    *N.get_or_init(|| std::env::var("C20_CONCURRENT").ok().and_then(|s| s.parse().ok()).unwrap_or(3))
}
static GATE: (Mutex<usize>, Condvar) = (Mutex::new(0), Condvar::new());

struct GatePass;

impl GatePass {
    fn enter() -> GatePass {
        let mut n = GATE.0.lock().unwrap_or_else(|e| e.into_inner());
        while *n >= concurrent_cases() {
            n = GATE.1.wait(n).unwrap_or_else(|e| e.into_inner());
        }
        *n += 1;
        GatePass
    }
}

impl Drop for GatePass {
    fn drop(&mut self) {
        let mut n = GATE.0.lock().unwrap_or_else(|e| e.into_inner());
        *n -= 1;
        GATE.1.notify_one();
    }
}

// ---------------------------------------------------------------------------------------------
// worker pool: creating 33 OS threads per case costs ~10 ms in this sandbox (and the threads that
// start first burn the cores while the rest are still being created), so every harness thread keeps a
// pool of parked workers and hands them the per-case closures. A worker runs exactly one closure of
// one case at a time; nothing but the OS thread is reused between cases.

type Job = Box<dyn FnOnce() + Send + 'static>;

struct Pool {
    workers: Vec<std::sync::mpsc::Sender<Job>>,
}

impl Pool {
    fn ensure(&mut self, n: usize) {
        while self.workers.len() < n {
            let (tx, rx) = std::sync::mpsc::channel::<Job>();
            std::thread::Builder::new()
                .name(format!("c20-worker-{}", self.workers.len()))
                .stack_size(256 << 10)
                .spawn(move || {
                    while let Ok(job) = rx.recv() {
                        job();
                    }
                })
                .expect("spawn worker");
            self.workers.push(tx);
        }
    }
}

thread_local! {
    static POOL: std::cell::RefCell<Pool> = const { std::cell::RefCell::new(Pool { workers: Vec::new() }) };
}

enum Report {
    Init(usize, Result<InitReport, Fail>),
    Obs(usize, Result<ObsReport, Fail>),
}

pub(crate) fn set_actor(actor: u32, seq: u32) {
    TL_ACTOR.with(|a| a.set((actor, seq)));
    TL_FILTER.with(|f| f.set(None));
    TL_RNG.with(|f| f.set(None));
}

/// emit one event through the slot's current runtime
fn do_emit(slot: &AmbientSlot, actor: u32, seq: u32) {
    set_actor(actor, seq);
    let rt = slot.get();
    emit::emit!(rt: rt, "c20 event {actor} {seq}", actor, seq);
}

/// open, start and complete one span through the slot's current runtime
fn do_span(slot: &AmbientSlot, actor: u32, seq: u32) {
    set_actor(actor, seq);
    let rt = slot.get();
    let (mut guard, frame) = emit::new_span!(rt: rt, "c20 span {actor} {seq}", actor, seq);
    frame.call(move || {
        guard.start();
        guard.complete();
    });
}

fn do_flush(slot: &AmbientSlot) -> bool {
    slot.get().emitter().blocking_flush(Duration::ZERO)
}

pub const ACTOR_MAIN_PRE: u32 = 1000;
pub const ACTOR_MAIN_POST: u32 = 1001;
pub const ACTOR_INIT_BASE: u32 = 2000;

fn run_initialiser(slot: &AmbientSlot, log: &Arc<Log>, barrier: &SpinBarrier, ix: usize, spec: &InitSpec) -> InitReport {
    let tag = ix as u8 + 1;
    let mut problems = Vec::new();
    // components are built before the barrier so that the attempt itself is as short as possible
    let setup = emit::setup()
        .emit_to(TagEmitter(tag, log.clone()))
        .emit_when(TagFilter(tag, log.clone()))
        .with_ctxt(TagCtxt(tag, log.clone()))
        .with_clock(TagClock(tag, log.clone()))
        .with_rng(TagRng(tag, log.clone()));
    let actor = ACTOR_INIT_BASE + tag as u32;
    barrier.wait();
    spin(spec.skew as u32);
    let outcome = match spec.method % 3 {
        0 => match setup.try_init_slot(slot) {
            Some(init) => {
                if init.emitter().0 != tag || init.ctxt().0 != tag {
                    problems.push(Fail::new("winner-handle-foreign", format!("try_init_slot of #{tag} returned a handle to emitter #{} / ctxt #{}", init.emitter().0, init.ctxt().0)));
                }
                if spec.post_emit {
                    set_actor(actor, 1);
                    let rt = init.get();
                    emit::emit!(rt: rt, "c20 winner {tag}", tag);
                }
                InitOutcome::Won
            }
            None => InitOutcome::Lost,
        },
        1 => match catch_unwind(AssertUnwindSafe(|| setup.init_slot(slot))) {
            Ok(init) => {
                if init.emitter().0 != tag || init.ctxt().0 != tag {
                    problems.push(Fail::new("winner-handle-foreign", format!("init_slot of #{tag} returned a handle to emitter #{} / ctxt #{}", init.emitter().0, init.ctxt().0)));
                }
                if spec.post_emit {
                    set_actor(actor, 1);
                    let rt = init.get();
                    emit::emit!(rt: rt, "c20 winner {tag}", tag);
                }
                InitOutcome::Won
            }
            Err(_) => {
                let msg = vcore::last_panic().map(|(_, m)| m).unwrap_or_default();
                if !msg.contains("already initialized") {
                    problems.push(Fail::new("init-slot-unexpected-panic", format!("init_slot of #{tag} panicked with {msg:?}")));
                }
                InitOutcome::LostByPanic
            }
        },
        _ => {
            let rt = setup.init_runtime();
            match slot.init(rt) {
                Some(rt) => {
                    if rt.emitter().0 != tag || rt.filter().0 != tag || rt.ctxt().0 != tag || rt.clock().0 != tag || rt.rng().0 != tag {
                        problems.push(Fail::new("winner-handle-foreign", format!("AmbientSlot::init of #{tag} returned foreign components")));
                    }
                    if spec.post_emit {
                        do_emit(slot, actor, 1);
                    }
                    InitOutcome::Won
                }
                None => InitOutcome::Lost,
            }
        }
    };
    InitReport { outcome, problems }
}

fn run_observer(slot: &AmbientSlot, barrier: &SpinBarrier, ix: usize, spec: &ObsSpec) -> ObsReport {
    let actor = ix as u32 + 1;
    let mut rep = ObsReport {
        sent: Vec::new(),
        saw_enabled: false,
        problems: Vec::new(),
    };
    let mut seq = 0u32;
    barrier.wait();
    spin(spec.skew as u32);
    for round in 0..spec.iters {
        let mut enabled = slot.is_enabled();
        let mut polls = 0;
        while !enabled && polls < spec.poll {
            enabled = slot.is_enabled();
            polls += 1;
        }
        if rep.saw_enabled && !enabled {
            rep.problems.push(Fail::new("is-enabled-went-false", format!("observer {actor}: is_enabled() returned false in round {round} after it had returned true")));
        }
        rep.saw_enabled |= enabled;
        let after_enabled = rep.saw_enabled;

        seq += 1;
        do_emit(slot, actor, seq);
        rep.sent.push(Sent { seq, is_span: false, after_enabled });

        if spec.do_span {
            seq += 1;
            do_span(slot, actor, seq);
            rep.sent.push(Sent { seq, is_span: true, after_enabled });
        }
        if spec.do_flush && !do_flush(slot) {
            rep.problems.push(Fail::new("flush-returned-false", format!("observer {actor}: blocking_flush through the slot returned false in round {round} (enabled seen: {after_enabled})")));
        }
        spin(spec.gap as u32);
    }
    rep
}

fn thread_panic(what: &str) -> Fail {
    let (loc, msg) = vcore::last_panic().unwrap_or_default();
    Fail::new(format!("{what}-panicked"), format!("{what} thread panicked at {loc}: {msg}"))
}

/// One execution of the workload on a fresh slot.
pub fn run_once(c: &Case, cx: &mut Cx) -> Res {
    let _pass = GatePass::enter();
    let log = Log::new();
    let slot = Arc::new(AmbientSlot::new());
    let k = c.inits.len();
    let m = c.observers.len();

    // ---- before any initialisation: everything through the slot is an inert no-op -----------------
    let pre = vcore::catch(|| {
        let enabled = slot.is_enabled();
        do_emit(&slot, ACTOR_MAIN_PRE, 1);
        do_span(&slot, ACTOR_MAIN_PRE, 2);
        let flushed = do_flush(&slot);
        (enabled, flushed)
    });
    match pre {
        Err(p) => cx.fail("pre-init-panicked", format!("using the uninitialised slot panicked: {}", p.msg))?,
        Ok((enabled, flushed)) => {
            vassert!(cx, !enabled, "pre-init-enabled", "a fresh slot reports is_enabled() == true");
            vassert!(cx, flushed, "pre-init-flush-false", "blocking_flush through an uninitialised slot returned false");
        }
    }
    vassert!(cx, log.events.lock().unwrap().is_empty() && log.total_calls() == 0, "pre-init-recorder-touched", "something was recorded before any initialisation");

    // ---- the race --------------------------------------------------------------------------------------
    let barrier = Arc::new(SpinBarrier {
        arrived: AtomicUsize::new(0),
        total: k + m,
    });
    let (tx, rx) = std::sync::mpsc::channel::<Report>();
    POOL.with(|pool| {
        let mut pool = pool.borrow_mut();
        pool.ensure(k + m);
        // interleave the hand-out order so neither group systematically arrives first
        let mut w = 0;
        let mut i = 0;
        let mut o = 0;
        while i < k || o < m {
            if i < k {
                let (slot, log, barrier, spec, tx, ix) = (slot.clone(), log.clone(), barrier.clone(), c.inits[i].clone(), tx.clone(), i);
                let job: Job = Box::new(move || {
                    let r = catch_unwind(AssertUnwindSafe(|| run_initialiser(&slot, &log, &barrier, ix, &spec))).map_err(|_| thread_panic("initialiser"));
                    drop((slot, log));
                    let _ = tx.send(Report::Init(ix, r));
                });
                pool.workers[w].send(job).expect("worker alive");
                w += 1;
                i += 1;
            }
            if o < m {
                let (slot, barrier, spec, tx, ix) = (slot.clone(), barrier.clone(), c.observers[o].clone(), tx.clone(), o);
                let job: Job = Box::new(move || {
                    let r = catch_unwind(AssertUnwindSafe(|| run_observer(&slot, &barrier, ix, &spec))).map_err(|_| thread_panic("observer"));
                    drop(slot);
                    let _ = tx.send(Report::Obs(ix, r));
                });
                pool.workers[w].send(job).expect("worker alive");
                w += 1;
                o += 1;
            }
        }
    });
    drop(tx);
    let mut init_reports: Vec<Option<Result<InitReport, Fail>>> = (0..k).map(|_| None).collect();
    let mut obs_reports: Vec<Option<Result<ObsReport, Fail>>> = (0..m).map(|_| None).collect();
    for _ in 0..k + m {
        // every worker reports exactly once (panics are caught inside the job)
        match rx.recv().expect("worker report") {
            Report::Init(ix, r) => init_reports[ix] = Some(r),
            Report::Obs(ix, r) => obs_reports[ix] = Some(r),
        }
    }
    let init_reports: Vec<Result<InitReport, Fail>> = init_reports.into_iter().map(|r| r.expect("report")).collect();
    let obs_reports: Vec<Result<ObsReport, Fail>> = obs_reports.into_iter().map(|r| r.expect("report")).collect();

    // ---- after the race (all threads joined): a late user on this thread -----------------------------
    let post = vcore::catch(|| {
        let enabled = slot.is_enabled();
        do_emit(&slot, ACTOR_MAIN_POST, 1);
        do_span(&slot, ACTOR_MAIN_POST, 2);
        let flushed = do_flush(&slot);
        (enabled, flushed)
    });

    // ---- oracle ----------------------------------------------------------------------------------------
    let mut inits = Vec::new();
    for r in init_reports {
        match r {
            Ok(rep) => inits.push(rep),
            Err(f) => cx.fail(f.sig, f.msg)?,
        }
    }
    let mut observers = Vec::new();
    for r in obs_reports {
        match r {
            Ok(rep) => observers.push(rep),
            Err(f) => cx.fail(f.sig, f.msg)?,
        }
    }
    for p in inits.iter().flat_map(|r| r.problems.iter()).chain(observers.iter().flat_map(|r| r.problems.iter())) {
        cx.fail(p.sig.clone(), p.msg.clone())?;
    }

    let winners: Vec<u8> = inits.iter().enumerate().filter(|(_, r)| r.outcome == InitOutcome::Won).map(|(i, _)| i as u8 + 1).collect();
    if k > 0 {
        vassert!(cx, !winners.is_empty(), "no-initialiser-succeeded", "{} initialisers raced, none reports success: {:?}", k, inits.iter().map(|r| r.outcome).collect::<Vec<_>>());
        vassert!(cx, winners.len() == 1, "multiple-initialisers-succeeded", "{} initialisers raced, {:?} all report success", k, winners);
    }
    for (i, r) in inits.iter().enumerate() {
        let by_panic = c.inits[i].method % 3 == 1;
        if r.outcome != InitOutcome::Won {
            vassert_eq!(cx, r.outcome, if by_panic { InitOutcome::LostByPanic } else { InitOutcome::Lost }, "harness/loss-shape", "initialiser #{}", i + 1);
        }
    }
    let winner = winners.first().copied();

    // no component of a loser is ever invoked
    for tag in 1..MAX_TAG as u8 {
        if Some(tag) == winner {
            continue;
        }
        for (comp, name) in COMPONENT_NAMES.iter().enumerate() {
            let n = log.calls[tag as usize][comp].load(Ordering::Relaxed);
            vassert!(cx, n == 0, "loser-component-invoked", "{} of losing initialiser #{} was invoked {} time(s) (winner: {:?})", name, tag, n, winner);
        }
    }

    // every recorded event was produced by the five components of the winner together
    let events = log.events.lock().unwrap().clone();
    for e in &events {
        let w = winner.unwrap_or(0);
        vassert!(cx, winner.is_some(), "event-without-winner", "an event was recorded although no initialiser succeeded: {:?}", e);
        vassert!(
            cx,
            e.emitter == w && e.filter == Some(w) && e.ctxt == Some(w) && e.clock == Some(w) && (!e.is_span || e.rng == Some(w)),
            "mixed-components",
            "event did not pass through all five components of winner #{}: {:?}",
            w,
            e
        );
    }

    // delivery: once an observer has seen the slot enabled, every later emit/span of its own arrives (once)
    let count = |actor: u32, seq: u32| events.iter().filter(|e| e.actor == actor && e.seq == seq).count();
    let mut any_before = false;
    for (i, o) in observers.iter().enumerate() {
        let actor = i as u32 + 1;
        for s in &o.sent {
            let n = count(actor, s.seq);
            vassert!(cx, n <= 1, "event-duplicated", "observer {} op {} was recorded {} times", actor, s.seq, n);
            if s.after_enabled {
                vassert!(
                    cx,
                    n == 1,
                    "emit-lost-after-enabled",
                    "observer {} saw is_enabled() == true, then its {} #{} was not delivered",
                    actor,
                    if s.is_span { "span" } else { "event" },
                    s.seq
                );
            } else {
                any_before = true;
                if n == 1 {
                    // initialisation completed between the observer's check and its emit: allowed
                    cx.dont_care();
                }
            }
            if let Some(e) = events.iter().find(|e| e.actor == actor && e.seq == s.seq) {
                vassert_eq!(cx, e.is_span, s.is_span, "harness/kind", "observer {} op {}", actor, s.seq);
            }
        }
    }
    for (i, r) in inits.iter().enumerate() {
        if r.outcome == InitOutcome::Won && c.inits[i].post_emit {
            let actor = ACTOR_INIT_BASE + i as u32 + 1;
            vassert_eq!(cx, count(actor, 1), 1usize, "emit-lost-after-enabled", "winner #{} emitted through its own handle", i + 1);
        }
    }
    vassert_eq!(cx, count(ACTOR_MAIN_PRE, 1) + count(ACTOR_MAIN_PRE, 2), 0usize, "pre-init-recorder-touched", "pre-init operations of the main thread were recorded later");

    match post {
        Err(p) => cx.fail("post-init-panicked", format!("using the slot after the race panicked: {}", p.msg))?,
        Ok((enabled, flushed)) => {
            vassert_eq!(cx, enabled, k > 0, "post-race-enabled-mismatch", "is_enabled() after {} initialisers ran", k);
            vassert!(cx, flushed, "flush-returned-false", "blocking_flush after the race returned false");
            let want = if k > 0 { 1 } else { 0 };
            vassert_eq!(cx, count(ACTOR_MAIN_POST, 1), want, "emit-lost-after-enabled", "event emitted after the race (k={})", k);
            vassert_eq!(cx, count(ACTOR_MAIN_POST, 2), want, "emit-lost-after-enabled", "span completed after the race (k={})", k);
        }
    }

    // classification (by what actually happened in this schedule: diagnostic only)
    let saw_before = observers.iter().any(|o| o.sent.iter().any(|s| !s.after_enabled));
    let saw_after = observers.iter().any(|o| o.sent.iter().any(|s| s.after_enabled));
    cx.class_if(any_before && saw_before && saw_after, "observed-both-sides-of-init");
    cx.class_if(observers.iter().any(|o| o.sent.iter().any(|s| !s.after_enabled && count_in(&events, o, s))), "delivered-before-seen-enabled");
    cx.class_if(winner.is_some() && winner != Some(1), "winner-not-first-spawned");
    Ok(())
}

fn count_in(events: &[EvRec], _o: &ObsReport, s: &Sent) -> bool {
    events.iter().any(|e| e.seq == s.seq && e.is_span == s.is_span && e.actor < ACTOR_MAIN_PRE)
}

pub(crate) static RERUN_BUDGET: std::sync::atomic::AtomicI64 = std::sync::atomic::AtomicI64::new(60_000);

pub fn check(c: &Case, cx: &mut Cx) -> Res {
    let k = c.inits.len();
    let m = c.observers.len();
    cx.nontrivial(k >= 2 && m >= 1);
    cx.class_if(k >= 2 && m >= 1, "race:k>=2,m>=1");
    cx.class_if(k == 0, "k=0:never-initialised");
    cx.class_if(k == 1, "k=1");
    cx.class_if(k >= 8, "k>=8");
    cx.class_if(m == 0, "m=0");
    cx.class_if(m >= 8, "m>=8");
    cx.class_if(c.inits.iter().any(|i| i.method % 3 == 1) && k >= 2, "init_slot-loser-may-panic");
    cx.class_if(c.inits.iter().any(|i| i.method % 3 == 2), "raw-AmbientSlot-init");
    cx.class_if(c.inits.iter().any(|i| i.method % 3 == 0), "try_init_slot");
    // the schedule is not owned: when replaying / shrinking a failure the workload is re-run many
    // times (best effort), stopping at the first run that fails
    let runs = if cx.replaying {
        // `replay <file>` evaluates once (200 runs); a shrink evaluates thousands of candidates, so the
        // total number of extra runs per process is capped (a pure work bound, never a verdict)
        let left = RERUN_BUDGET.fetch_sub(200, Ordering::Relaxed);
        if left >= 200 {
            200
        } else {
            1
        }
    } else {
        1
    };
    for _ in 0..runs {
        run_once(c, cx)?;
    }
    Ok(())
}
