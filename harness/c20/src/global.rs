//! The two process-global slots (`emit::runtime::shared()` / `internal()`).
//!
//! A global slot can be initialised once per process, so every case runs in a CHILD process: the parent
//! re-executes this binary with the hidden argument `--c20-global-child`, writes the case (JSON) to the
//! child's stdin, the child runs the workload on its global slot and prints a JSON report, the parent
//! judges the report with the same schedule-independent oracle as the local-slot generator.
//!
//! What is new compared to a local `AmbientSlot`: runtime references are `&'static`, so they can be taken
//! EARLY (before initialisation) and used afterwards, and the macros' default path (`emit::emit!(..)`
//! without `rt:`) resolves `shared()` by itself. Observers therefore use an early reference, a fresh one,
//! or the macro default path, and some of their emits run user code inside `emit` (a slow `ToEvent`, a
//! slow `when:` filter) so that initialisation can complete while an emit is in flight.
//!
//! A child may also initialise BOTH global slots (`GCase::layout`): shared first and then a race on internal,
//! internal first and then a race on shared, or two sets of initialisers released by the same barrier. The
//! oracle is applied per slot; a "loser" is any attempt that REPORTED failure.

use std::io::{Read, Write};
use std::panic::{catch_unwind, AssertUnwindSafe};
use std::sync::atomic::{AtomicUsize, Ordering};
use std::sync::Arc;
use std::time::Duration;

use emit::event::ToEvent;
use emit::runtime::{AmbientRuntime, AssertInternal};
use emit::{Emitter, Event, Filter, Path, Template};
use serde::{Deserialize, Serialize};
use vcore::{vassert, vassert_eq, Cx, Fail, Res};

use crate::*;

pub const CHILD_ARG: &str = "--c20-global-child";

#[derive(Serialize, Deserialize, Debug, Clone)]
pub struct GInit {
    /// which global slot this attempt targets when both sets race (layout 4); otherwise implied by the layout
    pub slot: u8,
    /// 0 = try_init / try_init_internal, 1 = init / init_internal (panics when it loses)
    pub method: u8,
    pub skew: u16,
    pub post_emit: bool,
}

#[derive(Serialize, Deserialize, Debug, Clone)]
pub struct GObs {
    /// which global runtime this observer uses when both slots are in play; otherwise implied by the layout
    pub slot: u8,
    /// 0 = a fresh `shared()`/`internal()` at every use, 1 = only the reference taken before the barrier,
    /// 2 = alternate (early, fresh, early, ..), 3 = the macros' default path (`emit!` without `rt:`; shared
    /// slot only, otherwise like 0)
    pub ref_mode: u8,
    pub skew: u16,
    pub iters: u8,
    pub poll: u16,
    pub gap: u16,
    /// spin iterations of user code INSIDE emit (0 = plain `emit!`): odd rounds use a slow `ToEvent`, even
    /// rounds a slow `when:` filter
    pub inner_spin: u16,
    pub do_span: bool,
    pub do_flush: bool,
}

#[derive(Serialize, Deserialize, Debug, Clone)]
pub struct GCase {
    /// 0 = shared slot only, 1 = internal slot only,
    /// 2 = both: the main thread initialises SHARED first, then `inits` race on INTERNAL,
    /// 3 = both: the main thread initialises INTERNAL first, then `inits` race on SHARED,
    /// 4 = both: every initialiser targets its own `slot`, all released by the same barrier
    pub layout: u8,
    pub inits: Vec<GInit>,
    pub observers: Vec<GObs>,
}

pub const SHARED: u8 = 0;
pub const INTERNAL: u8 = 1;
/// tag of the components the main thread installs first in layouts 2 and 3
pub const FIRST_TAG: u8 = 16;

impl GCase {
    pub fn layout(&self) -> u8 {
        self.layout % 5
    }

    /// the slot the `ix`-th racing initialiser targets
    pub fn init_slot(&self, ix: usize) -> u8 {
        match self.layout() {
            0 => SHARED,
            1 => INTERNAL,
            2 => INTERNAL,
            3 => SHARED,
            _ => self.inits[ix].slot % 2,
        }
    }

    /// the slot the main thread initialises sequentially before the race, if any
    pub fn first_slot(&self) -> Option<u8> {
        match self.layout() {
            2 => Some(SHARED),
            3 => Some(INTERNAL),
            _ => None,
        }
    }

    pub fn obs_slot(&self, ix: usize) -> u8 {
        match self.layout() {
            0 => SHARED,
            1 => INTERNAL,
            _ => self.observers[ix].slot % 2,
        }
    }
}

// ---- report (child -> parent) -------------------------------------------------------------------------

pub const OP_EMIT: u8 = 0;
pub const OP_SLOW_EVENT: u8 = 1;
pub const OP_WHEN: u8 = 2;
pub const OP_SPAN: u8 = 3;

#[derive(Serialize, Deserialize, Debug, Clone)]
pub struct GSent {
    /// the global runtime the operation went through
    pub slot: u8,
    pub seq: u32,
    pub op: u8,
    /// through the reference taken before initialisation (else: fresh reference / macro default path)
    pub early: bool,
    /// the thread had already seen `is_enabled() == true` when it started this operation
    pub after_enabled: bool,
    /// `is_enabled()` right after the operation returned
    pub enabled_after: bool,
}

#[derive(Serialize, Deserialize, Debug, Clone, Default)]
pub struct GActor {
    pub sent: Vec<GSent>,
    /// (signature, message)
    pub problems: Vec<(String, String)>,
}

#[derive(Serialize, Deserialize, Debug, Clone)]
pub struct GReport {
    /// per racing initialiser: 0 lost, 1 won, 2 lost by the documented panic
    pub outcomes: Vec<u8>,
    /// outcome of the main thread's sequential initialisation of the first slot (layouts 2, 3)
    pub first_outcome: Option<u8>,
    pub init_actors: Vec<GActor>,
    pub observers: Vec<GActor>,
    /// main thread, per slot [shared, internal]
    pub main_pre: [GActor; 2],
    pub main_post: [GActor; 2],
    pub pre_enabled: [bool; 2],
    pub pre_touched: bool,
    /// is_enabled() of each slot right after the sequential first initialisation
    pub mid_enabled: [bool; 2],
    pub post_enabled: [bool; 2],
    pub events: Vec<EvRec>,
    pub calls: Vec<[u32; 6]>,
}

// ---- child ---------------------------------------------------------------------------------------------

fn rt_of(slot: u8) -> &'static AmbientRuntime<'static> {
    if slot == 0 {
        emit::runtime::shared()
    } else {
        emit::runtime::internal()
    }
}

fn enabled_of(slot: u8) -> bool {
    if slot == 0 {
        emit::runtime::shared_slot().is_enabled()
    } else {
        emit::runtime::internal_slot().is_enabled()
    }
}

struct SlowEvt {
    spin: u32,
    actor: u32,
    seq: u32,
}

impl ToEvent for SlowEvt {
    type Props<'a>
        = [(&'static str, u32); 2]
    where
        Self: 'a;

    fn to_event<'a>(&'a self) -> Event<'a, Self::Props<'a>> {
        spin(self.spin);
        Event::new(Path::new_raw("c20"), Template::literal("c20 slow event"), emit::Empty, [("actor", self.actor), ("seq", self.seq)])
    }
}

struct SpinFilter(u32);

impl Filter for SpinFilter {
    fn matches<E: ToEvent>(&self, _: E) -> bool {
        spin(self.0);
        true
    }
}

struct Actor {
    slot: u8,
    id: u32,
    seq: u32,
    early: &'static AmbientRuntime<'static>,
    seen_enabled: bool,
    rep: GActor,
}

impl Actor {
    /// takes the early reference NOW
    fn new(slot: u8, id: u32) -> Actor {
        Actor {
            slot,
            id,
            seq: 0,
            early: rt_of(slot),
            seen_enabled: false,
            rep: GActor::default(),
        }
    }

    fn observe_enabled(&mut self, polls: u16) {
        let mut enabled = enabled_of(self.slot);
        let mut n = 0;
        while !enabled && n < polls {
            enabled = enabled_of(self.slot);
            n += 1;
        }
        if self.seen_enabled && !enabled {
            self.rep.problems.push(("is-enabled-went-false".into(), format!("actor {}: is_enabled() returned false after it had returned true", self.id)));
        }
        self.seen_enabled |= enabled;
    }

    /// one operation; `macro_default` = let the macro resolve the shared runtime itself
    fn op(&mut self, op: u8, early: bool, macro_default: bool, inner_spin: u32) {
        self.seq += 1;
        let (actor, seq) = (self.id, self.seq);
        let after_enabled = self.seen_enabled;
        set_actor(actor, seq);
        let early = early && !macro_default;
        let rt = if early { self.early } else { rt_of(self.slot) };
        match op {
            OP_EMIT => {
                if macro_default && self.slot == 0 {
                    emit::emit!("c20 global event {actor} {seq}", actor, seq);
                } else {
                    emit::emit!(rt: rt, "c20 global event {actor} {seq}", actor, seq);
                }
            }
            OP_SLOW_EVENT => rt.emit(SlowEvt { spin: inner_spin, actor, seq }),
            OP_WHEN => {
                let when = SpinFilter(inner_spin);
                emit::emit!(rt: rt, when: when, "c20 global when {actor} {seq}", actor, seq);
            }
            _ => {
                let (mut guard, frame) = emit::new_span!(rt: rt, "c20 global span {actor} {seq}", actor, seq);
                frame.call(move || {
                    guard.start();
                    guard.complete();
                });
            }
        }
        let enabled_after = enabled_of(self.slot);
        self.rep.sent.push(GSent { slot: self.slot, seq, op, early, after_enabled, enabled_after });
    }

    fn flush(&mut self, early: bool) {
        let rt = if early { self.early } else { rt_of(self.slot) };
        if !rt.emitter().blocking_flush(Duration::ZERO) {
            self.rep.problems.push(("flush-returned-false".into(), format!("actor {}: blocking_flush through the global runtime returned false (enabled seen: {})", self.id, self.seen_enabled)));
        }
    }
}

pub fn main_pre_id(slot: u8) -> u32 {
    ACTOR_MAIN_PRE + 2 * slot as u32
}

pub fn main_post_id(slot: u8) -> u32 {
    ACTOR_MAIN_POST + 2 * slot as u32
}

fn panic_text(p: Box<dyn std::any::Any + Send>) -> String {
    if let Some(s) = p.downcast_ref::<&str>() {
        s.to_string()
    } else if let Some(s) = p.downcast_ref::<String>() {
        s.clone()
    } else {
        "<non-string panic>".to_string()
    }
}

/// One initialisation attempt on a global slot with components tagged `tag`.
/// Returns 0 lost, 1 won, 2 lost by panic; problems are appended to `problems`.
fn attempt(slot: u8, method: u8, tag: u8, log: &Arc<Log>, problems: &mut Vec<(String, String)>) -> u8 {
    let (e, f, x, k, r) = (TagEmitter(tag, log.clone()), TagFilter(tag, log.clone()), TagCtxt(tag, log.clone()), TagClock(tag, log.clone()), TagRng(tag, log.clone()));
    // Some(own emitter tag, own ctxt tag) when this thread won
    let attempt = catch_unwind(AssertUnwindSafe(|| -> Option<(u8, u8)> {
        if slot == SHARED {
            let setup = emit::setup().emit_to(e).emit_when(f).with_ctxt(x).with_clock(k).with_rng(r);
            if method % 2 == 0 {
                setup.try_init().map(|init| (init.emitter().0, init.ctxt().0))
            } else {
                let init = setup.init();
                Some((init.emitter().0, init.ctxt().0))
            }
        } else {
            let setup = emit::setup()
                .emit_to(AssertInternal(e))
                .emit_when(AssertInternal(f))
                .with_ctxt(AssertInternal(x))
                .with_clock(AssertInternal(k))
                .with_rng(AssertInternal(r));
            if method % 2 == 0 {
                setup.try_init_internal().map(|init| (init.emitter().0 .0, init.ctxt().0 .0))
            } else {
                let init = setup.init_internal();
                Some((init.emitter().0 .0, init.ctxt().0 .0))
            }
        }
    }));
    match attempt {
        Ok(Some((et, ct))) => {
            if et != tag || ct != tag {
                problems.push(("winner-handle-foreign".into(), format!("initialiser #{tag} won but its handle points at emitter #{et} / ctxt #{ct}")));
            }
            1
        }
        Ok(None) => 0,
        Err(p) => {
            let msg = panic_text(p);
            if method % 2 == 0 || !msg.contains("already initialized") {
                problems.push(("init-unexpected-panic".into(), format!("initialiser #{tag} (method {}) panicked with {msg:?}", method % 2)));
            }
            2
        }
    }
}

fn child_initialiser(c: &GCase, log: &Arc<Log>, barrier: &SpinBarrier, ix: usize) -> (u8, GActor) {
    let spec = &c.inits[ix];
    let slot = c.init_slot(ix);
    let tag = ix as u8 + 1;
    let mut actor = Actor::new(slot, ACTOR_INIT_BASE + tag as u32);
    barrier.wait();
    spin(spec.skew as u32);
    let outcome = attempt(slot, spec.method, tag, log, &mut actor.rep.problems);
    if outcome == 1 && spec.post_emit {
        actor.seen_enabled = true;
        actor.op(OP_EMIT, false, false, 0);
    }
    (outcome, actor.rep)
}

fn child_observer(c: &GCase, barrier: &SpinBarrier, ix: usize) -> GActor {
    let spec = &c.observers[ix];
    // the early reference is taken here, before the barrier, i.e. before any initialiser runs
    let mut actor = Actor::new(c.obs_slot(ix), ix as u32 + 1);
    barrier.wait();
    spin(spec.skew as u32);
    let mut n = 0u32;
    for round in 0..spec.iters {
        actor.observe_enabled(spec.poll);
        let mut next_early = || {
            n += 1;
            match spec.ref_mode % 4 {
                1 => true,
                2 => n % 2 == 1,
                _ => false,
            }
        };
        let macro_default = spec.ref_mode % 4 == 3;
        if spec.inner_spin == 0 {
            actor.op(OP_EMIT, next_early(), macro_default, 0);
        } else if round % 2 == 0 {
            actor.op(OP_SLOW_EVENT, next_early(), false, spec.inner_spin as u32);
        } else {
            actor.op(OP_WHEN, next_early(), false, spec.inner_spin as u32);
        }
        if spec.do_span {
            actor.op(OP_SPAN, next_early(), false, 0);
        }
        if spec.do_flush {
            actor.flush(next_early());
        }
        spin(spec.gap as u32);
    }
    actor.rep
}

pub fn child_main() -> ! {
    std::panic::set_hook(Box::new(|_| {}));
    let mut input = String::new();
    let _ = std::io::stdin().read_to_string(&mut input);
    let c: GCase = match vcore::serde_json::from_str(&input) {
        Ok(c) => c,
        Err(e) => {
            eprintln!("c20 global child: bad case: {e}");
            std::process::exit(3);
        }
    };
    let log = Log::new();
    let (k, m) = (c.inits.len(), c.observers.len());

    // before any initialisation, on both global runtimes (the main thread's early references are taken here)
    let mut mains = [Actor::new(SHARED, main_pre_id(SHARED)), Actor::new(INTERNAL, main_pre_id(INTERNAL))];
    let mut pre_enabled = [false; 2];
    for main in mains.iter_mut() {
        let slot = main.slot;
        let pre = catch_unwind(AssertUnwindSafe(|| {
            let enabled = enabled_of(slot);
            main.op(OP_EMIT, false, slot == SHARED, 0);
            main.op(OP_SPAN, false, false, 0);
            main.op(OP_SLOW_EVENT, true, false, 1);
            main.flush(false);
            main.flush(true);
            enabled
        }));
        match pre {
            Ok(e) => pre_enabled[slot as usize] = e,
            Err(p) => main.rep.problems.push(("pre-init-panicked".into(), format!("using the uninitialised global runtime panicked: {}", panic_text(p)))),
        }
    }
    let pre_touched = !log.events.lock().unwrap().is_empty() || log.total_calls() != 0;
    let main_pre = [std::mem::take(&mut mains[0].rep), std::mem::take(&mut mains[1].rep)];

    // layouts 2 / 3: one slot is initialised first, sequentially, by this thread
    let first_outcome = c.first_slot().map(|slot| attempt(slot, 0, FIRST_TAG, &log, &mut mains[slot as usize].rep.problems));
    let mid_enabled = [enabled_of(SHARED), enabled_of(INTERNAL)];

    let barrier = SpinBarrier {
        arrived: AtomicUsize::new(0),
        total: k + m,
    };
    let (init_results, obs_results): (Vec<(u8, GActor)>, Vec<GActor>) = std::thread::scope(|scope| {
        let mut ih = Vec::new();
        let mut oh = Vec::new();
        let (mut i, mut o) = (0, 0);
        while i < k || o < m {
            if i < k {
                let (c, log, barrier, ix) = (&c, &log, &barrier, i);
                ih.push(scope.spawn(move || {
                    catch_unwind(AssertUnwindSafe(|| child_initialiser(c, log, barrier, ix))).unwrap_or_else(|p| {
                        (
                            0,
                            GActor {
                                sent: vec![],
                                problems: vec![("initialiser-panicked".into(), format!("initialiser thread panicked: {}", panic_text(p)))],
                            },
                        )
                    })
                }));
                i += 1;
            }
            if o < m {
                let (c, barrier, ix) = (&c, &barrier, o);
                oh.push(scope.spawn(move || {
                    catch_unwind(AssertUnwindSafe(|| child_observer(c, barrier, ix))).unwrap_or_else(|p| GActor {
                        sent: vec![],
                        problems: vec![("observer-panicked".into(), format!("observer thread panicked: {}", panic_text(p)))],
                    })
                }));
                o += 1;
            }
        }
        (ih.into_iter().map(|h| h.join().expect("join")).collect(), oh.into_iter().map(|h| h.join().expect("join")).collect())
    });

    // after the race: a fresh use and a use of the reference taken before initialisation, on both runtimes
    for main in mains.iter_mut() {
        let slot = main.slot;
        main.id = main_post_id(slot);
        main.seq = 0;
        let post = catch_unwind(AssertUnwindSafe(|| {
            main.observe_enabled(0);
            main.op(OP_EMIT, false, slot == SHARED, 0);
            main.op(OP_SPAN, false, false, 0);
            main.op(OP_EMIT, true, false, 0);
            main.op(OP_SPAN, true, false, 0);
            main.flush(false);
            main.flush(true);
        }));
        if let Err(p) = post {
            main.rep.problems.push(("post-init-panicked".into(), format!("using the global runtime after the race panicked: {}", panic_text(p))));
        }
    }
    let [m0, m1] = mains;

    let report = GReport {
        outcomes: init_results.iter().map(|(o, _)| *o).collect(),
        first_outcome,
        init_actors: init_results.into_iter().map(|(_, a)| a).collect(),
        observers: obs_results,
        main_pre,
        main_post: [m0.rep, m1.rep],
        pre_enabled,
        pre_touched,
        mid_enabled,
        post_enabled: [enabled_of(SHARED), enabled_of(INTERNAL)],
        events: log.events.lock().unwrap().clone(),
        calls: log.calls.iter().map(|row| std::array::from_fn(|i| row[i].load(Ordering::Relaxed))).collect(),
    };
    let text = vcore::serde_json::to_string(&report).expect("report");
    let mut so = std::io::stdout().lock();
    let _ = so.write_all(text.as_bytes());
    let _ = so.flush();
    std::process::exit(0);
}

// ---- parent ----------------------------------------------------------------------------------------------

fn run_child(c: &GCase) -> Result<GReport, Fail> {
    use std::process::{Command, Stdio};
    let exe = std::env::current_exe().map_err(|e| Fail::new("harness/child-spawn-failed", e.to_string()))?;
    // a transient EAGAIN under load must not look like a finding: retry a few times
    let mut attempt = 0;
    let mut child = loop {
        match Command::new(&exe).arg(CHILD_ARG).env("RUST_BACKTRACE", "0").stdin(Stdio::piped()).stdout(Stdio::piped()).stderr(Stdio::piped()).spawn() {
            Ok(ch) => break ch,
            Err(e) if attempt >= 8 => return Err(Fail::new("harness/child-spawn-failed", e.to_string())),
            Err(_) => {
                attempt += 1;
                std::thread::sleep(Duration::from_millis(100 * attempt));
            }
        }
    };
    {
        let mut stdin = child.stdin.take().expect("stdin");
        let _ = stdin.write_all(vcore::serde_json::to_string(c).expect("case").as_bytes());
    }
    let out = child.wait_with_output().map_err(|e| Fail::new("harness/child-wait-failed", e.to_string()))?;
    if !out.status.success() {
        // the workload catches every panic itself: a dying child means something aborted the process
        return Err(Fail::new(
            "global-child-died",
            format!("child process ended with {}: {}", out.status, String::from_utf8_lossy(&out.stderr).chars().take(400).collect::<String>()),
        ));
    }
    vcore::serde_json::from_slice(&out.stdout).map_err(|e| Fail::new("harness/child-report-unreadable", format!("{e}: {}", String::from_utf8_lossy(&out.stdout).chars().take(200).collect::<String>())))
}

const SLOT_NAMES: [&str; 2] = ["shared", "internal"];

fn judge(c: &GCase, r: &GReport, cx: &mut Cx) -> Res {
    // inert before initialisation
    for slot in [SHARED, INTERNAL] {
        vassert!(cx, !r.pre_enabled[slot as usize], "pre-init-enabled", "{} slot reports is_enabled() before any initialiser ran", SLOT_NAMES[slot as usize]);
    }
    vassert!(cx, !r.pre_touched, "pre-init-recorder-touched", "something was recorded before any initialisation");
    let all_actors = || r.init_actors.iter().chain(r.observers.iter()).chain(r.main_pre.iter()).chain(r.main_post.iter());
    for a in all_actors() {
        for (sig, msg) in &a.problems {
            cx.fail(sig.clone(), msg.clone())?;
        }
    }

    // every attempt: (slot, tag, outcome, loses by panic)
    let mut attempts: Vec<(u8, u8, u8, bool)> = Vec::new();
    if let (Some(slot), Some(o)) = (c.first_slot(), r.first_outcome) {
        attempts.push((slot, FIRST_TAG, o, false));
    }
    for (i, o) in r.outcomes.iter().enumerate() {
        attempts.push((c.init_slot(i), i as u8 + 1, *o, c.inits[i].method % 2 == 1));
    }
    // an attempt that REPORTED failure is a loser, whatever the slot did with its components
    let reported_success: Vec<u8> = attempts.iter().filter(|a| a.2 == 1).map(|a| a.1).collect();
    for (tag, row) in r.calls.iter().enumerate() {
        if tag == 0 || reported_success.contains(&(tag as u8)) {
            continue;
        }
        for (comp, n) in row.iter().enumerate() {
            let slot = attempts.iter().find(|a| a.1 as usize == tag).map(|a| SLOT_NAMES[a.0 as usize]).unwrap_or("?");
            vassert!(
                cx,
                *n == 0,
                "loser-component-invoked",
                "{} slot: {} of initialiser #{}, which reported failure, was invoked {} time(s) (attempts that reported success: {:?})",
                slot,
                COMPONENT_NAMES[comp],
                tag,
                n,
                reported_success
            );
        }
    }

    // per slot: exactly one winner
    let mut winner: [Option<u8>; 2] = [None, None];
    for slot in [SHARED, INTERNAL] {
        let which = SLOT_NAMES[slot as usize];
        let mine: Vec<&(u8, u8, u8, bool)> = attempts.iter().filter(|a| a.0 == slot).collect();
        let winners: Vec<u8> = mine.iter().filter(|a| a.2 == 1).map(|a| a.1).collect();
        if !mine.is_empty() {
            vassert!(
                cx,
                !winners.is_empty(),
                "no-initialiser-succeeded",
                "{} slot: {} attempt(s), none reports success (tag, outcome 0 = None / 2 = panicked): {:?}; is_enabled() afterwards: {}",
                which,
                mine.len(),
                mine.iter().map(|a| (a.1, a.2)).collect::<Vec<_>>(),
                r.post_enabled[slot as usize]
            );
            vassert!(cx, winners.len() <= 1, "multiple-initialisers-succeeded", "{} slot: {} attempts, {:?} all report success", which, mine.len(), winners);
        }
        for a in &mine {
            if a.2 != 1 {
                vassert_eq!(cx, a.2, if a.3 { 2 } else { 0 }, "harness/loss-shape", "{} slot: initialiser #{}", which, a.1);
            }
        }
        winner[slot as usize] = winners.first().copied();
        vassert_eq!(cx, r.post_enabled[slot as usize], !mine.is_empty(), "post-race-enabled-mismatch", "{} slot: is_enabled() after {} attempt(s)", which, mine.len());
        if c.first_slot().is_some() {
            vassert_eq!(cx, r.mid_enabled[slot as usize], c.first_slot() == Some(slot), "post-race-enabled-mismatch", "{} slot: is_enabled() right after the main thread initialised the first slot", which);
        }
    }

    // who sent what
    let mut sent: Vec<(u32, &GSent)> = Vec::new();
    for (i, a) in r.observers.iter().enumerate() {
        sent.extend(a.sent.iter().map(|s| (i as u32 + 1, s)));
    }
    for (i, a) in r.init_actors.iter().enumerate() {
        sent.extend(a.sent.iter().map(|s| (ACTOR_INIT_BASE + i as u32 + 1, s)));
    }
    for slot in [SHARED, INTERNAL] {
        sent.extend(r.main_pre[slot as usize].sent.iter().map(|s| (main_pre_id(slot), s)));
        sent.extend(r.main_post[slot as usize].sent.iter().map(|s| (main_post_id(slot), s)));
    }

    // every event a tagged emitter received came through all of the components of the winner of the slot it
    // was sent to, together
    for e in &r.events {
        let Some((_, s)) = sent.iter().find(|(a, s)| *a == e.actor && s.seq == e.seq) else {
            return cx.fail("harness/unattributed-event", format!("{e:?}"));
        };
        let which = SLOT_NAMES[s.slot as usize % 2];
        let Some(w) = winner[s.slot as usize % 2] else {
            return cx.fail("event-without-winner", format!("{which} slot: an event was recorded although no initialiser of that slot succeeded: {e:?}"));
        };
        // a call-site `when:` replaces the runtime's filter, so the winner's filter is legitimately not consulted
        let filter_ok = e.filter == Some(w) || (s.op == OP_WHEN && e.filter.is_none());
        vassert!(
            cx,
            e.emitter == w && filter_ok && e.ctxt == Some(w) && e.clock == Some(w) && (!e.is_span || e.rng == Some(w)),
            // two ways to get there: a reference taken before initialisation and used after it, or a fresh
            // reference whose emit was in flight while initialisation completed
            if s.early { "mixed-components/early-reference" } else { "mixed-components/in-flight-emit" },
            "{} slot: an event reached emitter #{} without passing through all of the components of that slot's winner #{} (None = that component was not the winner's / was skipped): {:?}; sent as {:?} (early reference: {}, issued after is_enabled() was seen: {}, is_enabled() right after: {})",
            which,
            e.emitter,
            w,
            e,
            s,
            s.early,
            s.after_enabled,
            s.enabled_after
        );
        vassert_eq!(cx, e.is_span, s.op == OP_SPAN, "harness/kind", "{} slot: actor {} op {}", which, e.actor, e.seq);
    }

    // delivery
    let count = |actor: u32, seq: u32| r.events.iter().filter(|e| e.actor == actor && e.seq == seq).count();
    let mut early_after = false;
    let mut straddle = false;
    let mut both_sides = false;
    for (actor, s) in &sent {
        let which = SLOT_NAMES[s.slot as usize % 2];
        let n = count(*actor, s.seq);
        vassert!(cx, n <= 1, "event-duplicated", "{} slot: actor {} op {} was recorded {} times", which, actor, s.seq, n);
        if *actor == main_pre_id(SHARED) || *actor == main_pre_id(INTERNAL) {
            vassert!(cx, n == 0, "pre-init-recorder-touched", "{} slot: a pre-init operation of the main thread was recorded", which);
            continue;
        }
        if s.after_enabled && !s.early {
            vassert!(
                cx,
                n == 1,
                "emit-lost-after-enabled",
                "{} slot: actor {} saw is_enabled() == true, then its op {} (kind {}) through a fresh reference was not delivered",
                which,
                actor,
                s.seq,
                s.op
            );
        } else if n == 1 || s.early {
            // before is_enabled() was seen, or through a reference taken before initialisation: delivered
            // coherently or not at all -- both allowed
            cx.dont_care();
        }
        early_after |= s.early && s.after_enabled;
        straddle |= !s.after_enabled && s.enabled_after && s.op != OP_SPAN;
        both_sides |= !s.after_enabled;
    }
    cx.class_if(early_after, "global:early-reference-used-after-init");
    cx.class_if(straddle, "global:emit-straddles-init");
    cx.class_if(both_sides && (winner[0].is_some() || winner[1].is_some()), "global:used-before-and-after-init");
    Ok(())
}

pub fn check_global(c: &GCase, cx: &mut Cx) -> Res {
    let (k, m) = (c.inits.len(), c.observers.len());
    let on = |slot: u8| c.first_slot() == Some(slot) || (0..k).any(|i| c.init_slot(i) == slot);
    let racing = |slot: u8| (0..k).filter(|i| c.init_slot(*i) == slot).count();
    cx.nontrivial(k >= 1 && m >= 1);
    cx.class_if(on(SHARED) || (c.layout() == 0), "global:shared");
    cx.class_if(on(INTERNAL) || (c.layout() == 1), "global:internal");
    cx.class_if(on(SHARED) && on(INTERNAL), "global:both-slots");
    cx.class_if(c.layout() == 2 && k >= 1, "global:internal-after-shared");
    cx.class_if(c.layout() == 3 && k >= 1, "global:shared-after-internal");
    cx.class_if(c.layout() == 4 && racing(SHARED) >= 1 && racing(INTERNAL) >= 1, "global:internal-concurrent-with-shared");
    cx.class_if(racing(SHARED) >= 2 || racing(INTERNAL) >= 2, "global:k>=2");
    cx.class_if(k == 0, "global:k=0");
    cx.class_if((0..m).any(|i| c.observers[i].ref_mode % 4 == 3 && c.obs_slot(i) == SHARED), "global:macro-default-path");
    cx.class_if(c.observers.iter().any(|o| o.inner_spin > 0), "global:user-code-inside-emit");
    cx.class_if(c.layout() >= 2 && (0..m).any(|i| c.obs_slot(i) == SHARED) && (0..m).any(|i| c.obs_slot(i) == INTERNAL), "global:observers-on-both-runtimes");
    let runs = if cx.replaying && RERUN_BUDGET.fetch_sub(2000, Ordering::Relaxed) >= 2000 { 10 } else { 1 };
    for _ in 0..runs {
        let report = match run_child(c) {
            Ok(r) => r,
            Err(f) => return cx.fail(f.sig, f.msg),
        };
        judge(c, &report, cx)?;
    }
    Ok(())
}
