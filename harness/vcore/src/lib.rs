//! vcore — the engine shared by every check binary (DESIGN §1, engine E1).
//!
//! A check binary is `fn main() { vcore::run("C15", Level::Exploration, RULE, ASSUMPTIONS, |s| { ... }) }`
//! where the body registers *generators*: a proptest strategy (or an enumerator) plus an oracle
//! `Fn(&Case, &mut Cx) -> Result<(), Fail>`. In run mode a generator is executed at once, sharded
//! over threads with seeds derived from `VERIF_SEED`; the first failure of a generator is shrunk by
//! proptest and written as a replay file. In replay mode (`<bin> replay <file>`) the stored case is
//! deserialised and handed to the *same oracle function* with no generator library involved.
//!
//! Exit codes: 0 = held on everything explored, 1 = violation (`VIOLATION property=<id> replay=<path>`),
//! 2 = inconclusive (harness error, required class never generated, ...).

use std::collections::{BTreeMap, HashSet};
use std::fmt::Debug;
use std::hash::{Hash, Hasher};
use std::path::{Path, PathBuf};
use std::sync::atomic::{AtomicBool, AtomicU64, Ordering};
use std::sync::Mutex;
use std::time::Instant;

pub use proptest;
use proptest::strategy::{Strategy, ValueTree};
use proptest::test_runner::{Config, RngSeed, TestCaseError, TestError, TestRunner};
pub use serde;
use serde::de::DeserializeOwned;
use serde::Serialize;
pub use serde_json;
use serde_json::{json, Value as J};

#[derive(Clone, Copy, PartialEq, Eq, Debug)]
pub enum Tier {
    Quick,
    Thorough,
}

#[derive(Clone, Copy, PartialEq, Eq, Debug)]
pub enum Level {
    Exploration,
    FaultEnumeration,
}

impl Level {
    fn as_str(self) -> &'static str {
        match self {
            Level::Exploration => "exploration",
            Level::FaultEnumeration => "fault_enumeration",
        }
    }
}

/// An oracle failure. `sig` is a short, stable signature of the failing *class* (used to match
/// listed known findings exactly); `msg` is the human readable detail.
#[derive(Debug, Clone)]
pub struct Fail {
    pub sig: String,
    pub msg: String,
}

impl Fail {
    pub fn new(sig: impl Into<String>, msg: impl Into<String>) -> Fail {
        Fail {
            sig: sig.into(),
            msg: msg.into(),
        }
    }
}

pub type Res = Result<(), Fail>;

/// Fail unless `cond`; like `prop_assert!` but carrying a signature.
#[macro_export]
macro_rules! vassert {
    ($cx:expr, $cond:expr, $sig:expr, $($fmt:tt)+) => {
        if !($cond) {
            $cx.fail($sig, format!($($fmt)+))?;
        }
    };
}

/// Fail unless `a == b`.
#[macro_export]
macro_rules! vassert_eq {
    ($cx:expr, $a:expr, $b:expr, $sig:expr, $($fmt:tt)+) => {{
        let (a, b) = (&$a, &$b);
        if a != b {
            $cx.fail($sig, format!("{}: left={:?} right={:?}", format!($($fmt)+), a, b))?;
        }
    }};
}

// ---------------------------------------------------------------------------------------------
// Known findings

#[derive(Debug, Clone)]
pub struct KnownFinding {
    pub property: String,
    pub sig: String,
    pub what: String,
}

#[derive(Debug, Default, Clone)]
pub struct Known {
    findings: Vec<KnownFinding>,
}

impl Known {
    /// Parse `known-findings.txt`. Lines:
    /// `finding: property=<id> sig=<signature> :: <what fails>`  (suppresses exactly that signature)
    /// `fixed: property=<id> <commit> <what failed>`             (suppresses nothing)
    pub fn load(path: &Path) -> Known {
        let mut findings = Vec::new();
        if let Ok(text) = std::fs::read_to_string(path) {
            for line in text.lines() {
                let line = line.trim();
                if let Some(rest) = line.strip_prefix("finding:") {
                    let rest = rest.trim();
                    let (head, what) = match rest.split_once(" :: ") {
                        Some((h, w)) => (h, w),
                        None => (rest, ""),
                    };
                    let mut property = String::new();
                    let mut sig = String::new();
                    for tok in head.split_whitespace() {
                        if let Some(p) = tok.strip_prefix("property=") {
                            property = p.to_string();
                        } else if let Some(s) = tok.strip_prefix("sig=") {
                            sig = s.to_string();
                        }
                    }
                    if !property.is_empty() && !sig.is_empty() {
                        findings.push(KnownFinding {
                            property,
                            sig,
                            what: what.to_string(),
                        });
                    }
                }
            }
        }
        // development aid: `VERIF_KNOWN_EXTRA="C02=sig-a;C02=sig-b"` steps over further signatures
        // (never set by the registered commands)
        if let Ok(extra) = std::env::var("VERIF_KNOWN_EXTRA") {
            for item in extra.split(';') {
                if let Some((p, sig)) = item.split_once('=') {
                    findings.push(KnownFinding {
                        property: p.trim().to_string(),
                        sig: sig.trim().to_string(),
                        what: "(development-only VERIF_KNOWN_EXTRA)".to_string(),
                    });
                }
            }
        }
        Known { findings }
    }

    pub fn is_known(&self, property: &str, sig: &str) -> bool {
        self.findings
            .iter()
            .any(|f| f.property == property && f.sig == sig)
    }
}

// ---------------------------------------------------------------------------------------------
// Per-case context

/// Handed to the oracle for every case: classification labels, the non-trivial flag, don't-care
/// counts and the failure gate that knows about listed known findings.
pub struct Cx<'a> {
    property: &'a str,
    known: &'a Known,
    pub(crate) classes: Vec<String>,
    pub(crate) nontrivial: bool,
    pub(crate) dont_care: u64,
    pub(crate) known_hits: Vec<String>,
    /// true while proptest is shrinking (or on replay): oracles may use it to skip expensive extras
    pub replaying: bool,
    pub tier: Tier,
}

impl<'a> Cx<'a> {
    fn new(property: &'a str, known: &'a Known, tier: Tier) -> Cx<'a> {
        Cx {
            property,
            known,
            classes: Vec::new(),
            nontrivial: false,
            dont_care: 0,
            known_hits: Vec::new(),
            replaying: false,
            tier,
        }
    }

    /// Label this case (histogram in evidence; `Session::require` refers to these).
    pub fn class(&mut self, name: &str) {
        if !self.classes.iter().any(|c| c == name) {
            self.classes.push(name.to_string());
        }
    }

    pub fn class_if(&mut self, cond: bool, name: &str) {
        if cond {
            self.class(name);
        }
    }

    /// Mark the case as non-trivial by the property's stated rule.
    pub fn nontrivial(&mut self, yes: bool) {
        if yes {
            self.nontrivial = true;
        }
    }

    /// Count an outcome the property leaves open (neither asserted nor rejected).
    pub fn dont_care(&mut self) {
        self.dont_care += 1;
    }

    /// True when `sig` is a listed known finding for this property: generators/oracles use it to
    /// step over exactly that class (and it is counted).
    pub fn is_known(&self, sig: &str) -> bool {
        self.known.is_known(self.property, sig)
    }

    /// Report a failure. Listed known findings are recorded and checking continues (`Ok`), anything
    /// else aborts the case with `Err`.
    pub fn fail(&mut self, sig: impl Into<String>, msg: impl Into<String>) -> Res {
        let sig = sig.into();
        if self.known.is_known(self.property, &sig) {
            if !self.known_hits.contains(&sig) {
                self.known_hits.push(sig);
            }
            Ok(())
        } else {
            Err(Fail {
                sig,
                msg: msg.into(),
            })
        }
    }
}

/// Run an oracle outside a `Session` (libFuzzer targets, child processes): a `Cx` that knows the
/// listed known findings of `property` (so a campaign does not rediscover one finding forever).
pub fn with_cx<R>(property: &'static str, f: impl FnOnce(&mut Cx) -> R) -> R {
    static KNOWN: std::sync::OnceLock<Known> = std::sync::OnceLock::new();
    let known = KNOWN.get_or_init(|| {
        let dir = PathBuf::from(std::env::var("VERIF_DIR").unwrap_or_else(|_| "/verif".into()));
        Known::load(&dir.join("known-findings.txt"))
    });
    let mut cx = Cx::new(property, known, Tier::Quick);
    f(&mut cx)
}

// ---------------------------------------------------------------------------------------------
// Aggregation

#[derive(Default)]
struct GenAgg {
    evaluations: u64,
    nontrivial: u64,
    exhaustive: bool,
}

#[derive(Default)]
struct Agg {
    evaluations: u64,
    nontrivial_hashes: HashSet<u64>,
    nontrivial_total: u64,
    classes: BTreeMap<String, u64>,
    dont_care: u64,
    known_hits: BTreeMap<String, u64>,
    samples: Vec<J>,
    sample_keys: HashSet<String>,
    gens: BTreeMap<String, GenAgg>,
    violations: Vec<(String, String, String)>, // (generator, reason, replay path)
    notes: Vec<String>,
    extra: BTreeMap<String, J>,
    inconclusive: Vec<String>,
}

const MAX_DISTINCT_TRACKED: usize = 8_000_000;

#[derive(Default)]
struct Local {
    evaluations: u64,
    nontrivial_hashes: Vec<u64>,
    classes: BTreeMap<String, u64>,
    dont_care: u64,
    known_hits: BTreeMap<String, u64>,
    samples: Vec<(String, J)>,
}

impl Local {
    fn absorb(&mut self, gen: &str, cx: Cx<'_>, case_json: impl FnOnce() -> J) {
        self.evaluations += 1;
        for c in &cx.classes {
            *self.classes.entry(c.clone()).or_default() += 1;
        }
        self.dont_care += cx.dont_care;
        for k in &cx.known_hits {
            *self.known_hits.entry(k.clone()).or_default() += 1;
        }
        if cx.nontrivial {
            let j = case_json();
            let s = j.to_string();
            let mut h = std::collections::hash_map::DefaultHasher::new();
            gen.hash(&mut h);
            s.hash(&mut h);
            self.nontrivial_hashes.push(h.finish());
            // keep one sample per distinct class-set (bounded), first come first served
            if self.samples.len() < 6 {
                let mut key = cx.classes.clone();
                key.sort();
                let key = format!("{gen}|{}", key.join(","));
                if !self.samples.iter().any(|(k, _)| *k == key) {
                    self.samples.push((key, clip(j)));
                }
            }
        }
    }
}

fn clip(j: J) -> J {
    let s = j.to_string();
    if s.len() > 3000 {
        let mut end = 3000;
        while !s.is_char_boundary(end) {
            end -= 1;
        }
        J::String(format!("{}…(clipped, {} bytes)", &s[..end], s.len()))
    } else {
        j
    }
}

// ---------------------------------------------------------------------------------------------
// Session

enum Mode {
    Run,
    Replay {
        generator: String,
        case: J,
        path: PathBuf,
        matched: AtomicBool,
    },
}

pub struct Session {
    pub id: &'static str,
    pub tier: Tier,
    pub seed: u64,
    pub threads: usize,
    pub verif_dir: PathBuf,
    level: Level,
    mode: Mode,
    known: Known,
    agg: Mutex<Agg>,
    required: Mutex<Vec<(String, u64)>>,
    start: Instant,
    only: Option<String>,
    scale: f64,
}

fn splitmix(mut x: u64) -> u64 {
    x = x.wrapping_add(0x9E3779B97F4A7C15);
    let mut z = x;
    z = (z ^ (z >> 30)).wrapping_mul(0xBF58476D1CE4E5B9);
    z = (z ^ (z >> 27)).wrapping_mul(0x94D049BB133111EB);
    z ^ (z >> 31)
}

fn fnv(s: &str) -> u64 {
    let mut h = 0xcbf29ce484222325u64;
    for b in s.bytes() {
        h ^= b as u64;
        h = h.wrapping_mul(0x100000001b3);
    }
    h
}

pub fn mix(seed: u64, name: &str, shard: u64) -> u64 {
    splitmix(splitmix(seed ^ fnv(name)).wrapping_add(shard.wrapping_mul(0x2545F4914F6CDD1D)))
}

/// Map a generated 32-bit index monotonically onto `0..len` (never `%`, so shrinking moves towards 0).
pub fn pick(i: u32, len: usize) -> usize {
    debug_assert!(len > 0);
    ((i as u64 * len as u64) >> 32) as usize
}

thread_local! {
    static LAST_PANIC: std::cell::RefCell<Option<(String, String)>> = const { std::cell::RefCell::new(None) };
    static QUIET: std::cell::Cell<bool> = const { std::cell::Cell::new(false) };
}

fn install_panic_hook() {
    let default = std::panic::take_hook();
    std::panic::set_hook(Box::new(move |info| {
        let loc = info
            .location()
            .map(|l| format!("{}:{}", l.file(), l.line()))
            .unwrap_or_default();
        let msg = if let Some(s) = info.payload().downcast_ref::<&str>() {
            s.to_string()
        } else if let Some(s) = info.payload().downcast_ref::<String>() {
            s.clone()
        } else {
            "<non-string panic>".to_string()
        };
        LAST_PANIC.with(|p| *p.borrow_mut() = Some((loc, msg)));
        if !QUIET.with(|q| q.get()) && std::env::var_os("VERIF_LOUD_PANICS").is_some() {
            default(info);
        }
    }));
}

/// Normalised signature of a panic: source file (without line) + message with digits collapsed.
pub fn panic_sig(loc: &str, msg: &str) -> String {
    let file = loc.rsplit_once(':').map(|(f, _)| f).unwrap_or(loc);
    let file = file.trim_start_matches("/repo/");
    let mut norm = String::new();
    let mut last_digit = false;
    for ch in msg.chars().take(80) {
        if ch.is_ascii_digit() {
            if !last_digit {
                norm.push('N');
            }
            last_digit = true;
        } else {
            last_digit = false;
            norm.push(if ch.is_whitespace() { '_' } else { ch });
        }
    }
    format!("panic@{file}:{norm}")
}

/// Run `f`, turning a panic into a `Fail` whose signature names the panic site.
pub fn catch<R>(f: impl FnOnce() -> R) -> Result<R, Fail> {
    LAST_PANIC.with(|p| *p.borrow_mut() = None);
    match std::panic::catch_unwind(std::panic::AssertUnwindSafe(f)) {
        Ok(r) => Ok(r),
        Err(_) => {
            let (loc, msg) = LAST_PANIC
                .with(|p| p.borrow_mut().take())
                .unwrap_or_default();
            Err(Fail {
                sig: panic_sig(&loc, &msg),
                msg: format!("panicked at {loc}: {msg}"),
            })
        }
    }
}

/// The location/message of the most recent panic on this thread (for harnesses that use their own
/// `catch_unwind`).
pub fn last_panic() -> Option<(String, String)> {
    LAST_PANIC.with(|p| p.borrow().clone())
}

impl Session {
    pub fn quick(&self) -> bool {
        self.tier == Tier::Quick
    }

    /// Choose a work amount by tier (scaled by VERIF_SCALE for experiments; default 1).
    pub fn n(&self, quick: u64, thorough: u64) -> u64 {
        let base = match self.tier {
            Tier::Quick => quick,
            Tier::Thorough => thorough,
        };
        ((base as f64 * self.scale) as u64).max(1)
    }

    pub fn is_replay(&self) -> bool {
        matches!(self.mode, Mode::Replay { .. })
    }

    /// A class that must have been generated at least `min` times, else the run is inconclusive
    /// (exit 2): a generator that never produces the interesting shape is a harness bug.
    pub fn require(&self, class: &str, min: u64) {
        self.required.lock().unwrap().push((class.to_string(), min));
    }

    /// For properties that promise "never blocks / never wedges": a case that has not returned after `secs`
    /// seconds is written out as a replay file and the process ends with exit code 97; the driver replays the
    /// case alone and reports a violation only if it hangs (or fails) again, otherwise the run is inconclusive.
    pub fn hang_is_violation(&self, secs: u64) {
        // VERIF_HANG_SECS overrides the limit (used to test the monitor itself quickly)
        let secs = std::env::var("VERIF_HANG_SECS").ok().and_then(|v| v.parse().ok()).unwrap_or(secs);
        inflight::HANG_MS.store(secs * 1000, Ordering::SeqCst);
    }

    pub fn note(&self, text: impl Into<String>) {
        self.agg.lock().unwrap().notes.push(text.into());
    }

    /// Attach an extra measured key to `coverage`.
    pub fn extra(&self, key: &str, value: J) {
        self.agg.lock().unwrap().extra.insert(key.to_string(), value);
    }

    pub fn inconclusive(&self, why: impl Into<String>) {
        self.agg.lock().unwrap().inconclusive.push(why.into());
    }

    pub fn known(&self) -> &Known {
        &self.known
    }

    fn skip(&self, name: &str) -> bool {
        match (&self.only, &self.mode) {
            (Some(o), Mode::Run) => !name.contains(o.as_str()),
            _ => false,
        }
    }

    fn merge(&self, gen: &str, local: Local, exhaustive: bool) {
        let mut agg = self.agg.lock().unwrap();
        agg.evaluations += local.evaluations;
        agg.dont_care += local.dont_care;
        for (k, v) in local.classes {
            *agg.classes.entry(k).or_default() += v;
        }
        for (k, v) in local.known_hits {
            *agg.known_hits.entry(k).or_default() += v;
        }
        let g = agg.gens.entry(gen.to_string()).or_default();
        g.evaluations += local.evaluations;
        g.nontrivial += local.nontrivial_hashes.len() as u64;
        g.exhaustive |= exhaustive;
        agg.nontrivial_total += local.nontrivial_hashes.len() as u64;
        for h in local.nontrivial_hashes {
            if agg.nontrivial_hashes.len() < MAX_DISTINCT_TRACKED {
                agg.nontrivial_hashes.insert(h);
            }
        }
        for (k, s) in local.samples {
            if agg.samples.len() < 12 && agg.sample_keys.insert(k) {
                agg.samples.push(json!({"generator": gen, "case": s}));
            }
        }
    }

    fn write_replay(&self, gen: &str, reason: &str, case: &J) -> String {
        let dir = self.verif_dir.join("replays");
        let _ = std::fs::create_dir_all(&dir);
        let body = json!({
            "property": self.id,
            "generator": gen,
            "seed": self.seed,
            "tier": format!("{:?}", self.tier).to_lowercase(),
            "reason": reason,
            "case": case,
        });
        let text = serde_json::to_string_pretty(&body).unwrap();
        let mut h = std::collections::hash_map::DefaultHasher::new();
        text.hash(&mut h);
        let path = dir.join(format!("{}-{}-{:08x}.json", self.id, sanitize(gen), h.finish() as u32));
        let _ = std::fs::write(&path, text);
        path.to_string_lossy().into_owned()
    }

    fn record_violation(&self, gen: &str, reason: &str, case: &J) {
        let path = match &self.mode {
            Mode::Replay { path, .. } => path.to_string_lossy().into_owned(),
            Mode::Run => self.write_replay(gen, reason, case),
        };
        println!("VIOLATION property={} replay={}", self.id, path);
        println!("  generator={gen} reason={reason}");
        let mut agg = self.agg.lock().unwrap();
        agg.violations
            .push((gen.to_string(), reason.to_string(), path));
    }

    fn run_one<T: Serialize>(
        &self,
        gen: &str,
        value: &T,
        check: &(impl Fn(&T, &mut Cx) -> Res + ?Sized),
        local: &mut Local,
        replaying: bool,
    ) -> Res {
        let mut cx = Cx::new(self.id, &self.known, self.tier);
        cx.replaying = replaying;
        let _inflight = inflight::enter(gen, value);
        let r = match catch(|| check(value, &mut cx)) {
            Ok(r) => r,
            Err(panic_fail) => cx.fail(panic_fail.sig, panic_fail.msg),
        };
        local.absorb(gen, cx, || serde_json::to_value(value).unwrap_or(J::Null));
        r
    }

    /// Regression replays (`replays/regress/<ID>-*.json`) whose generator is `gen`: run before any
    /// generation, in every tier. A failure here is a violation like any other.
    fn run_regress<T: Serialize + DeserializeOwned>(
        &self,
        gen: &str,
        check: &(impl Fn(&T, &mut Cx) -> Res + ?Sized),
    ) {
        let dir = self.verif_dir.join("replays").join("regress");
        let Ok(rd) = std::fs::read_dir(&dir) else { return };
        let mut files: Vec<PathBuf> = rd.filter_map(|e| e.ok()).map(|e| e.path()).collect();
        files.sort();
        let mut local = Local::default();
        for f in files {
            let Ok(text) = std::fs::read_to_string(&f) else { continue };
            let Ok(j) = serde_json::from_str::<J>(&text) else { continue };
            if j["property"] != self.id || j["generator"] != gen {
                continue;
            }
            let case: T = match serde_json::from_value(j["case"].clone()) {
                Ok(c) => c,
                Err(e) => {
                    self.inconclusive(format!("regress file {} does not deserialise: {e}", f.display()));
                    continue;
                }
            };
            if let Err(fail) = self.run_one(gen, &case, check, &mut local, true) {
                println!("VIOLATION property={} replay={}", self.id, f.display());
                println!("  generator={gen} (regression) reason={}: {}", fail.sig, fail.msg);
                self.agg.lock().unwrap().violations.push((
                    gen.to_string(),
                    format!("{}: {}", fail.sig, fail.msg),
                    f.to_string_lossy().into_owned(),
                ));
            }
        }
        let mut agg = self.agg.lock().unwrap();
        *agg.classes.entry("regress-replays".into()).or_default() += local.evaluations;
        drop(agg);
        self.merge(gen, local, false);
    }

    fn try_replay<T: Serialize + DeserializeOwned>(
        &self,
        gen: &str,
        check: &(impl Fn(&T, &mut Cx) -> Res + ?Sized),
    ) -> bool {
        if let Mode::Replay {
            generator,
            case,
            matched,
            ..
        } = &self.mode
        {
            if generator == gen {
                matched.store(true, Ordering::SeqCst);
                match serde_json::from_value::<T>(case.clone()) {
                    Ok(v) => {
                        let mut local = Local::default();
                        let r = self.run_one(gen, &v, check, &mut local, true);
                        self.merge(gen, local, false);
                        match r {
                            Ok(()) => println!("replay: case passes"),
                            Err(f) => self.record_violation(gen, &format!("{}: {}", f.sig, f.msg), case),
                        }
                    }
                    Err(e) => self.inconclusive(format!("replay case does not deserialise: {e}")),
                }
            }
            true
        } else {
            false
        }
    }

    /// Random generation with proptest: `cases` cases split over shards; first failure is shrunk and
    /// written as a replay file.
    pub fn gen<S, F, C>(&self, name: &str, cases: u64, mk: F, check: C)
    where
        S: Strategy,
        S::Value: Serialize + DeserializeOwned + Debug,
        F: Fn() -> S + Sync,
        C: Fn(&S::Value, &mut Cx) -> Res + Sync,
    {
        if self.try_replay::<S::Value>(name, &check) || self.skip(name) {
            return;
        }
        self.run_regress::<S::Value>(name, &check);
        let t0 = Instant::now();
        let shards = (self.threads as u64).min((cases / 32).max(1));
        let per = cases.div_ceil(shards);
        let stop = AtomicBool::new(false);
        let reported = AtomicBool::new(false);
        std::thread::scope(|scope| {
            for shard in 0..shards {
                let stop = &stop;
                let reported = &reported;
                let check = &check;
                let mk = &mk;
                std::thread::Builder::new()
                    .stack_size(64 << 20)
                    .spawn_scoped(scope, move || {
                        let cfg = Config {
                            cases: per as u32,
                            failure_persistence: None,
                            rng_seed: RngSeed::Fixed(mix(self.seed, name, shard)),
                            max_shrink_iters: 30_000,
                            max_global_rejects: 1_000_000,
                            verbose: 0,
                            ..Config::default()
                        };
                        let mut runner = TestRunner::new(cfg);
                        let mut local = Local::default();
                        let failed = std::cell::Cell::new(false);
                        let local_cell = std::cell::RefCell::new(&mut local);
                        let result = runner.run(&mk(), |v| {
                            if failed.get() {
                                // shrinking: plain re-evaluation, nothing is counted
                                let mut cx = Cx::new(self.id, &self.known, self.tier);
                                cx.replaying = true;
                                let _inflight = inflight::enter(name, &v);
                                let r = match catch(|| check(&v, &mut cx)) {
                                    Ok(r) => r,
                                    Err(p) => cx.fail(p.sig, p.msg),
                                };
                                return r.map_err(|f| TestCaseError::fail(format!("{}: {}", f.sig, f.msg)));
                            }
                            if stop.load(Ordering::Relaxed) {
                                return Ok(());
                            }
                            let mut l = local_cell.borrow_mut();
                            match self.run_one(name, &v, check, &mut l, false) {
                                Ok(()) => Ok(()),
                                Err(f) => {
                                    failed.set(true);
                                    stop.store(true, Ordering::Relaxed);
                                    Err(TestCaseError::fail(format!("{}: {}", f.sig, f.msg)))
                                }
                            }
                        });
                        drop(local_cell);
                        self.merge(name, local, false);
                        match result {
                            Ok(()) => {}
                            Err(TestError::Fail(reason, value)) => {
                                // several shards may fail before they see the stop flag: report one
                                if !reported.swap(true, Ordering::SeqCst) {
                                    let j = serde_json::to_value(&value).unwrap_or(J::Null);
                                    self.record_violation(name, &reason.to_string(), &j);
                                }
                            }
                            Err(TestError::Abort(reason)) => {
                                self.inconclusive(format!("generator {name} aborted: {reason}"));
                            }
                        }
                    })
                    .unwrap();
            }
        });
        eprintln!(
            "[{}] {name}: {} cases in {:.1}s",
            self.id,
            cases,
            t0.elapsed().as_secs_f64()
        );
    }

    /// Complete enumeration of a finite space (still "generate + oracle"; the generator is the
    /// enumerator). Marks the sub-space as exhaustive in evidence.
    pub fn enumerate<T, I, C>(&self, name: &str, items: I, check: C)
    where
        T: Serialize + DeserializeOwned + Send,
        I: Iterator<Item = T> + Send,
        C: Fn(&T, &mut Cx) -> Res + Sync,
    {
        if self.try_replay::<T>(name, &check) || self.skip(name) {
            return;
        }
        self.run_regress::<T>(name, &check);
        let t0 = Instant::now();
        let items = Mutex::new(items);
        let stop = AtomicBool::new(false);
        let total = AtomicU64::new(0);
        std::thread::scope(|scope| {
            for _ in 0..self.threads {
                scope.spawn(|| {
                    let mut local = Local::default();
                    loop {
                        if stop.load(Ordering::Relaxed) {
                            break;
                        }
                        let chunk: Vec<T> = {
                            let mut it = items.lock().unwrap();
                            it.by_ref().take(512).collect()
                        };
                        if chunk.is_empty() {
                            break;
                        }
                        for v in &chunk {
                            if let Err(f) = self.run_one(name, v, &check, &mut local, false) {
                                if !stop.swap(true, Ordering::SeqCst) {
                                    let j = serde_json::to_value(v).unwrap_or(J::Null);
                                    self.record_violation(name, &format!("{}: {}", f.sig, f.msg), &j);
                                }
                                break;
                            }
                        }
                    }
                    total.fetch_add(local.evaluations, Ordering::Relaxed);
                    self.merge(name, local, true);
                });
            }
        });
        eprintln!(
            "[{}] {name}: enumerated {} cases in {:.1}s",
            self.id,
            total.load(Ordering::Relaxed),
            t0.elapsed().as_secs_f64()
        );
    }

    /// Hand-driven cases (program generation, OS-thread workloads, end-to-end scenarios): the
    /// caller produces `(case, result)` itself. Each call counts one evaluation.
    pub fn manual<T: Serialize + DeserializeOwned>(
        &self,
        name: &str,
        cases: impl IntoIterator<Item = T>,
        check: impl Fn(&T, &mut Cx) -> Res,
    ) {
        if self.try_replay::<T>(name, &check) || self.skip(name) {
            return;
        }
        self.run_regress::<T>(name, &check);
        let t0 = Instant::now();
        let mut local = Local::default();
        let mut n = 0u64;
        for v in cases {
            n += 1;
            if let Err(f) = self.run_one(name, &v, &check, &mut local, false) {
                let j = serde_json::to_value(&v).unwrap_or(J::Null);
                self.record_violation(name, &format!("{}: {}", f.sig, f.msg), &j);
                break;
            }
        }
        self.merge(name, local, false);
        eprintln!("[{}] {name}: {n} manual cases in {:.1}s", self.id, t0.elapsed().as_secs_f64());
    }

    /// Draw `n` values of a strategy deterministically (for harnesses that need generated values
    /// outside `gen`, e.g. program generation). No shrinking.
    pub fn sample<S: Strategy>(&self, name: &str, strat: S, n: usize) -> Vec<S::Value> {
        let cfg = Config {
            failure_persistence: None,
            rng_seed: RngSeed::Fixed(mix(self.seed, name, 0)),
            ..Config::default()
        };
        let mut runner = TestRunner::new(cfg);
        (0..n)
            .map(|_| strat.new_tree(&mut runner).expect("strategy").current())
            .collect()
    }

    /// Build and write `evidence/<ID>.json` from the aggregate (also used, best effort, by the abort handler).
    fn write_evidence(&self, agg: &Agg, wall: f64, violations: usize, aborted: bool) -> std::io::Result<()> {
        let exhaustive_gens: Vec<&String> = agg
            .gens
            .iter()
            .filter(|(_, g)| g.exhaustive)
            .map(|(k, _)| k)
            .collect();
        let gens: BTreeMap<&String, J> = agg
            .gens
            .iter()
            .map(|(k, g)| {
                (
                    k,
                    json!({"evaluations": g.evaluations, "nontrivial": g.nontrivial, "exhaustive": g.exhaustive}),
                )
            })
            .collect();
        let mut coverage = json!({
            "evaluations": agg.evaluations,
            "distinct_nontrivial": agg.nontrivial_hashes.len(),
            "nontrivial_total": agg.nontrivial_total,
            "rule": RULE.lock().unwrap().clone(),
            "samples": agg.samples,
            "classes": agg.classes,
            "generators": gens,
            "dont_care_outcomes": agg.dont_care,
            "known_finding_hits": agg.known_hits,
            "exhaustive": false,
            "exhaustive_subspaces": exhaustive_gens,
            "explanation": format!(
                "distinct_nontrivial counts distinct 64-bit hashes of the canonical JSON encoding of cases that satisfy the rule (tracked up to {MAX_DISTINCT_TRACKED}); generators marked exhaustive enumerated their finite sub-space completely; the property as a whole is not exhaustively decided. {}",
                agg.notes.join(" ")
            ),
        });
        for (k, v) in &agg.extra {
            coverage[k] = v.clone();
        }
        let evidence = json!({
            "property_id": self.id,
            "tier": match self.tier { Tier::Quick => "quick", Tier::Thorough => "thorough" },
            "seed": self.seed,
            "level": self.level.as_str(),
            "coverage": coverage,
            "assumptions": ASSUMPTIONS.lock().unwrap().clone(),
            "wall_s": wall,
            "violations": violations,
            "aborted": aborted,
            "inconclusive": agg.inconclusive,
        });
        if self.only.is_none() {
            let dir = self.verif_dir.join("evidence");
            let _ = std::fs::create_dir_all(&dir);
            let path = dir.join(format!("{}.json", self.id));
            std::fs::write(&path, serde_json::to_string_pretty(&evidence).unwrap())?;
        }
        Ok(())
    }

    fn finish(self) -> i32 {
        let wall = self.start.elapsed().as_secs_f64();
        let mut agg = std::mem::take(&mut *self.agg.lock().unwrap());
        if let Mode::Replay { matched, generator, .. } = &self.mode {
            if !matched.load(Ordering::SeqCst) {
                eprintln!("replay: no generator named {generator:?} in this binary");
                return 2;
            }
            for (sig, _) in &agg.known_hits {
                let what = self
                    .known
                    .findings
                    .iter()
                    .find(|f| f.property == self.id && f.sig == *sig)
                    .map(|f| f.what.clone())
                    .unwrap_or_default();
                println!("KNOWN-FINDING: property={} {} [{}]", self.id, what, sig);
            }
            if !agg.inconclusive.is_empty() {
                for w in &agg.inconclusive {
                    eprintln!("INCONCLUSIVE: {w}");
                }
                return 2;
            }
            return if agg.violations.is_empty() { 0 } else { 1 };
        }

        // required classes
        if self.only.is_none() {
            for (class, min) in self.required.lock().unwrap().iter() {
                let have = agg.classes.get(class).copied().unwrap_or(0);
                if have < *min {
                    agg.inconclusive.push(format!(
                        "required class {class:?} generated {have} times (< {min}): generator does not reach it"
                    ));
                }
            }
        }

        for (sig, n) in &agg.known_hits {
            let what = self
                .known
                .findings
                .iter()
                .find(|f| f.property == self.id && f.sig == *sig)
                .map(|f| f.what.clone())
                .unwrap_or_default();
            println!(
                "KNOWN-FINDING: property={} {} [sig={} hit {} times, stepped over]",
                self.id, what, sig, n
            );
        }

        if let Err(e) = self.write_evidence(&agg, wall, agg.violations.len(), false) {
            eprintln!("cannot write evidence: {e}");
            return 2;
        }
        eprintln!(
            "[{}] evaluations={} distinct_nontrivial={} violations={} wall={:.1}s",
            self.id,
            agg.evaluations,
            agg.nontrivial_hashes.len(),
            agg.violations.len(),
            wall
        );
        if !agg.violations.is_empty() {
            return 1;
        }
        if !agg.inconclusive.is_empty() {
            for w in &agg.inconclusive {
                eprintln!("INCONCLUSIVE: {w}");
            }
            return 2;
        }
        if agg.evaluations == 0 || agg.nontrivial_hashes.len() < 2 {
            if self.only.is_none() {
                eprintln!("INCONCLUSIVE: fewer than 2 distinct non-trivial cases");
                return 2;
            }
        }
        0
    }
}

/// Cases being evaluated right now, so that a process abort caused by the code under test (a panic
/// while unwinding, a panic in a `Drop` on a thread the harness does not own, a stack overflow, an
/// allocation failure) is attributed to its case instead of killing the check silently.
mod inflight {
    use super::*;
    use std::sync::atomic::{AtomicPtr, AtomicU64, AtomicUsize};
    use std::time::Duration;

    pub struct Slot {
        case: AtomicPtr<()>,
        ser: AtomicUsize,
        gen_ptr: AtomicPtr<u8>,
        gen_len: AtomicUsize,
        /// milliseconds since the session started when the case was entered
        since_ms: AtomicU64,
        tid: i64,
    }

    static SLOTS: Mutex<Vec<&'static Slot>> = Mutex::new(Vec::new());
    pub static SESSION: AtomicPtr<Session> = AtomicPtr::new(std::ptr::null_mut());

    fn gettid() -> i64 {
        unsafe { libc::syscall(libc::SYS_gettid) as i64 }
    }

    thread_local! {
        static MINE: &'static Slot = {
            let slot: &'static Slot = Box::leak(Box::new(Slot {
                case: AtomicPtr::new(std::ptr::null_mut()),
                ser: AtomicUsize::new(0),
                gen_ptr: AtomicPtr::new(std::ptr::null_mut()),
                gen_len: AtomicUsize::new(0),
                since_ms: AtomicU64::new(0),
                tid: gettid(),
            }));
            SLOTS.lock().unwrap().push(slot);
            slot
        };
    }

    fn ser<T: Serialize>(p: *const ()) -> J {
        serde_json::to_value(unsafe { &*(p as *const T) }).unwrap_or(J::Null)
    }

    pub struct Guard(&'static Slot, *mut ());

    impl Drop for Guard {
        fn drop(&mut self) {
            // nested evaluations (a check that runs another generator) restore the outer case
            self.0.case.store(self.1, Ordering::SeqCst);
        }
    }

    pub fn enter<T: Serialize>(gen: &str, value: &T) -> Guard {
        MINE.with(|slot| {
            let slot: &'static Slot = slot;
            let prev = slot.case.load(Ordering::SeqCst);
            slot.gen_ptr.store(gen.as_ptr() as *mut u8, Ordering::SeqCst);
            slot.gen_len.store(gen.len(), Ordering::SeqCst);
            slot.ser.store(ser::<T> as usize, Ordering::SeqCst);
            if HANG_MS.load(Ordering::Relaxed) != 0 {
                slot.since_ms.store(now_ms(), Ordering::SeqCst);
            }
            slot.case.store(value as *const T as *mut (), Ordering::SeqCst);
            Guard(slot, prev)
        })
    }

    static HANDLING: AtomicBool = AtomicBool::new(false);
    /// 0 = a case that never returns is left to the driver's watchdog (exit 2)
    pub static HANG_MS: AtomicU64 = AtomicU64::new(0);
    static T0: std::sync::OnceLock<Instant> = std::sync::OnceLock::new();

    fn now_ms() -> u64 {
        T0.get_or_init(Instant::now).elapsed().as_millis() as u64
    }

    /// A case of a property that promises "never blocks / never wedges" has been running for longer than the
    /// limit: write it out and end the process; the driver replays it alone to confirm (tools/abort_triage.sh).
    pub fn monitor() {
        std::thread::spawn(|| loop {
            std::thread::sleep(Duration::from_millis(500));
            let limit = HANG_MS.load(Ordering::Relaxed);
            let session = SESSION.load(Ordering::SeqCst);
            if limit == 0 || session.is_null() {
                continue;
            }
            let session: &Session = unsafe { &*session };
            let slots: Vec<&'static Slot> = match SLOTS.try_lock() {
                Ok(g) => g.clone(),
                Err(_) => continue,
            };
            let now = now_ms();
            let over = |slot: &&'static Slot, lim: u64| !slot.case.load(Ordering::SeqCst).is_null() && now.saturating_sub(slot.since_ms.load(Ordering::SeqCst)) >= lim;
            if !slots.iter().any(|s| over(s, limit)) {
                continue;
            }
            // every case that is (nearly) over the limit is a candidate, oldest first: cases that only wait
            // for the one that blocks (a shared pool, a concurrency cap) are told apart by the driver's replay
            let mut cands: Vec<&'static Slot> = slots.iter().copied().filter(|s| over(s, limit.saturating_sub(5000))).collect();
            cands.sort_by_key(|s| s.since_ms.load(Ordering::SeqCst));
            let before: Vec<(*mut (), u64)> = cands.iter().map(|s| (s.case.load(Ordering::SeqCst), s.since_ms.load(Ordering::SeqCst))).collect();
            std::thread::sleep(Duration::from_millis(200));
            let cands: Vec<&'static Slot> = cands
                .into_iter()
                .zip(before)
                .filter(|(s, (p, since))| s.case.load(Ordering::SeqCst) == *p && s.since_ms.load(Ordering::SeqCst) == *since)
                .map(|(s, _)| s)
                .collect();
            if cands.is_empty() {
                continue;
            }
            if HANDLING.swap(true, Ordering::SeqCst) {
                return;
            }
            let reason = format!("this case has not returned after {} s: the code under test blocks for ever", limit / 1000);
            if let Mode::Replay { path, .. } = &session.mode {
                println!("VIOLATION property={} replay={}", session.id, path.display());
                println!("  reason={reason}");
                let _ = std::io::Write::flush(&mut std::io::stdout());
                unsafe { libc::_exit(1) }
            }
            for slot in cands {
                let gen = unsafe {
                    std::str::from_utf8_unchecked(std::slice::from_raw_parts(slot.gen_ptr.load(Ordering::SeqCst), slot.gen_len.load(Ordering::SeqCst)))
                }
                .to_string();
                let f: fn(*const ()) -> J = unsafe { std::mem::transmute(slot.ser.load(Ordering::SeqCst)) };
                let case = f(slot.case.load(Ordering::SeqCst));
                let path = session.write_replay(&gen, &reason, &case);
                println!("HUNG-WHILE property={} generator={} replay={}", session.id, gen, path);
            }
            for _ in 0..1000 {
                if let Ok(agg) = session.agg.try_lock() {
                    let _ = session.write_evidence(&agg, session.start.elapsed().as_secs_f64(), agg.violations.len() + 1, true);
                    break;
                }
                std::thread::yield_now();
            }
            let _ = std::io::Write::flush(&mut std::io::stdout());
            unsafe { libc::_exit(97) }
        });
    }

    extern "C" fn on_abort(sig: libc::c_int) {
        if HANDLING.swap(true, Ordering::SeqCst) {
            // another thread is aborting too and already reports: wait for it to end the process
            loop {
                unsafe { libc::sleep(1) };
            }
        }
        let session = SESSION.load(Ordering::SeqCst);
        if session.is_null() {
            unsafe { libc::_exit(128 + sig) }
        }
        let session: &Session = unsafe { &*session };
        let me = gettid();
        let slots: Vec<&'static Slot> = {
            let mut got = None;
            for _ in 0..1000 {
                if let Ok(g) = SLOTS.try_lock() {
                    got = Some(g.clone());
                    break;
                }
                std::thread::yield_now();
            }
            got.unwrap_or_default()
        };
        let mut cands: Vec<(bool, String, J)> = Vec::new();
        for slot in slots {
            let p = slot.case.load(Ordering::SeqCst);
            if p.is_null() {
                continue;
            }
            let gen = unsafe {
                std::str::from_utf8_unchecked(std::slice::from_raw_parts(slot.gen_ptr.load(Ordering::SeqCst), slot.gen_len.load(Ordering::SeqCst)))
            }
            .to_string();
            let f: fn(*const ()) -> J = unsafe { std::mem::transmute(slot.ser.load(Ordering::SeqCst)) };
            cands.push((slot.tid == me, gen, f(p)));
        }
        cands.sort_by_key(|c| !c.0);
        let what = match sig {
            libc::SIGABRT => "SIGABRT",
            libc::SIGSEGV => "SIGSEGV: a memory fault",
            libc::SIGBUS => "SIGBUS: a memory fault",
            _ => "a fatal signal",
        };
        let reason = format!("the check process was aborted ({what}) by the code under test while this case was being evaluated");
        if let Mode::Replay { path, .. } = &session.mode {
            println!("VIOLATION property={} replay={}", session.id, path.display());
            println!("  reason={reason}");
            let _ = std::io::Write::flush(&mut std::io::stdout());
            unsafe { libc::_exit(1) }
        }
        let mut paths = Vec::new();
        for (own, gen, case) in &cands {
            let path = session.write_replay(gen, &reason, case);
            println!("ABORTED-WHILE property={} own_thread={} generator={} replay={}", session.id, *own as u8, gen, path);
            paths.push((gen.clone(), path));
        }
        // best-effort evidence: what had been merged so far, the abort counted as one violation
        for _ in 0..1000 {
            if let Ok(agg) = session.agg.try_lock() {
                let _ = session.write_evidence(&agg, session.start.elapsed().as_secs_f64(), agg.violations.len() + 1, true);
                break;
            }
            std::thread::yield_now();
        }
        let _ = std::io::Write::flush(&mut std::io::stdout());
        unsafe { libc::_exit(128 + sig) }
    }

    pub fn install(session: &Session) {
        SESSION.store(session as *const Session as *mut Session, Ordering::SeqCst);
        unsafe {
            let mut sa: libc::sigaction = std::mem::zeroed();
            sa.sa_sigaction = on_abort as usize;
            sa.sa_flags = libc::SA_ONSTACK;
            libc::sigemptyset(&mut sa.sa_mask);
            libc::sigaction(libc::SIGABRT, &sa, std::ptr::null_mut());
            // memory faults raised by the code under test (a use-after-free, a wild pointer): attributed to the cases in
            // flight exactly like an abort. (Replaces std's stack-overflow reporter: an overflow still ends here.)
            for sig in [libc::SIGSEGV, libc::SIGBUS, libc::SIGILL, libc::SIGFPE] {
                libc::sigaction(sig, &sa, std::ptr::null_mut());
            }
        }
    }
}

fn sanitize(s: &str) -> String {
    s.chars()
        .map(|c| if c.is_ascii_alphanumeric() { c } else { '_' })
        .collect()
}

static RULE: Mutex<String> = Mutex::new(String::new());
static ASSUMPTIONS: Mutex<Vec<String>> = Mutex::new(Vec::new());

/// Entry point of every check binary.
///
/// `<bin> run [--tier quick|thorough] [--seed N] [--only <generator substring>]`
/// `<bin> replay <file>`
pub fn run(
    id: &'static str,
    level: Level,
    rule: &str,
    assumptions: &[&str],
    body: impl FnOnce(&Session),
) -> ! {
    *RULE.lock().unwrap() = rule.to_string();
    *ASSUMPTIONS.lock().unwrap() = assumptions.iter().map(|s| s.to_string()).collect();
    install_panic_hook();
    let args: Vec<String> = std::env::args().skip(1).collect();
    let verif_dir = PathBuf::from(std::env::var("VERIF_DIR").unwrap_or_else(|_| "/verif".into()));
    let mut tier = match std::env::var("VERIF_TIER").as_deref() {
        Ok("thorough") => Tier::Thorough,
        _ => Tier::Quick,
    };
    let mut seed: u64 = std::env::var("VERIF_SEED")
        .ok()
        .and_then(|s| s.trim().parse::<i128>().ok())
        .map(|v| v as u64)
        .unwrap_or(0);
    let mut only = None;
    let mut mode = Mode::Run;
    let mut i = 0;
    while i < args.len() {
        match args[i].as_str() {
            "run" => {}
            "--tier" => {
                i += 1;
                tier = if args.get(i).map(|s| s.as_str()) == Some("thorough") {
                    Tier::Thorough
                } else {
                    Tier::Quick
                };
            }
            "--seed" => {
                i += 1;
                seed = args
                    .get(i)
                    .and_then(|s| s.parse::<i128>().ok())
                    .map(|v| v as u64)
                    .unwrap_or(0);
            }
            "--only" => {
                i += 1;
                only = args.get(i).cloned();
            }
            "replay" => {
                i += 1;
                let path = PathBuf::from(args.get(i).cloned().unwrap_or_default());
                let text = match std::fs::read_to_string(&path) {
                    Ok(t) => t,
                    Err(e) => {
                        eprintln!("cannot read replay file {}: {e}", path.display());
                        std::process::exit(2);
                    }
                };
                let j: J = match serde_json::from_str(&text) {
                    Ok(j) => j,
                    Err(e) => {
                        eprintln!("replay file is not JSON: {e}");
                        std::process::exit(2);
                    }
                };
                if j["property"] != id {
                    eprintln!("replay file is for property {} not {id}", j["property"]);
                    std::process::exit(2);
                }
                mode = Mode::Replay {
                    generator: j["generator"].as_str().unwrap_or("").to_string(),
                    case: j["case"].clone(),
                    path,
                    matched: AtomicBool::new(false),
                };
            }
            other => {
                eprintln!("unknown argument {other}");
                std::process::exit(2);
            }
        }
        i += 1;
    }
    let threads = std::env::var("VERIF_THREADS")
        .ok()
        .and_then(|s| s.parse().ok())
        .unwrap_or_else(|| {
            std::thread::available_parallelism()
                .map(|n| n.get())
                .unwrap_or(4)
        });
    let scale = std::env::var("VERIF_SCALE")
        .ok()
        .and_then(|s| s.parse().ok())
        .unwrap_or(1.0);
    let session = Session {
        id,
        tier,
        seed,
        threads,
        verif_dir: verif_dir.clone(),
        level,
        mode,
        known: Known::load(&verif_dir.join("known-findings.txt")),
        agg: Mutex::new(Agg::default()),
        required: Mutex::new(Vec::new()),
        start: Instant::now(),
        only,
        scale,
    };
    QUIET.with(|q| q.set(true));
    inflight::install(&session);
    inflight::monitor();
    body(&session);
    inflight::SESSION.store(std::ptr::null_mut(), Ordering::SeqCst);
    let code = session.finish();
    std::process::exit(code);
}
