//! The reference evaluator for C01, written from the property text:
//!
//! * the event a runtime hands to its filter and destinations = the event's own properties followed
//!   by the current ambient properties, with its own extent if it has one and otherwise the clock's
//!   reading (else none);
//! * the effective filter = the call-site filter when one is given, otherwise the runtime's;
//! * composite filters / destinations by their logical definition (both, either, optional, wrapped,
//!   boxed, shared, borrowed, type-erased are all transparent except for what their name says).
//!
//! Nothing here looks at emit; it only interprets the case data.

use std::collections::BTreeMap;

use crate::spec::*;
use crate::trees::{fnptr_pred, Snap};

#[derive(Clone, Debug, PartialEq)]
pub struct MP {
    pub k: &'static str,
    pub v: String,
    /// 0 = position is significant; g > 0 = member of the contiguous block g whose internal order
    /// is unspecified (ambient properties served by the hash-map backed `ThreadLocalCtxt`)
    pub grp: u16,
}

#[derive(Clone, Debug, PartialEq)]
pub enum MPart {
    Text(&'static str),
    Hole(&'static str),
}

#[derive(Clone, Debug)]
pub struct MEv {
    pub mdl: String,
    pub parts: Vec<MPart>,
    pub extent: Option<(Option<u128>, u128)>,
    pub props: Vec<MP>,
}

impl MEv {
    /// first value of a key (Props: "the first for a given key is the one to use")
    pub fn first(&self, k: &str) -> Option<&str> {
        self.props.iter().find(|p| p.k == k).map(|p| p.v.as_str())
    }

    pub fn tpl(&self) -> String {
        let mut s = String::new();
        for p in &self.parts {
            match p {
                MPart::Text(t) => s.push_str(t),
                MPart::Hole(l) => {
                    s.push('{');
                    s.push_str(l);
                    s.push('}');
                }
            }
        }
        s
    }

    /// text verbatim; a hole is the first value of its label, or `{label}` when there is none
    pub fn msg(&self) -> String {
        let mut s = String::new();
        for p in &self.parts {
            match p {
                MPart::Text(t) => s.push_str(t),
                MPart::Hole(l) => match self.first(l) {
                    Some(v) => s.push_str(v),
                    None => {
                        s.push('{');
                        s.push_str(l);
                        s.push('}');
                    }
                },
            }
        }
        s
    }

    /// The typed lookups on the event as built: the FIRST occurrence of the key (own props precede
    /// ambient ones), cast to the slot's type, else none. `Props::pull`: "If the key is present, and the
    /// raw value can be converted into `V` … `Some`. Otherwise `None`. If the key appears multiple
    /// times, the first value seen should be returned."
    pub fn typed(&self) -> [Option<String>; 4] {
        let mut out: [Option<String>; 4] = Default::default();
        for (slot, k) in SLOT_KEYS.iter().enumerate() {
            out[slot] = self.first(key(*k)).and_then(|text| cast_text(slot, text));
        }
        out
    }

    pub fn snap(&self) -> MSnap {
        MSnap {
            mdl: self.mdl.clone(),
            tpl: self.tpl(),
            msg: self.msg(),
            extent: self.extent,
            props: self.props.clone(),
            typed: self.typed(),
        }
    }
}

/// Does a value (given by its text; the typed keys' value sets make the text decisive) cast to the
/// slot's type, and to what (Display of the result)?
/// * Level: an `emit::Level` value, or text naming a level — the generated texts are the four canonical
///   names (cast) or `trace` / `spam` / integers / booleans (clearly not levels);
/// * Kind: an `emit::Kind` value or the text `span` / `metric`; anything else generated is not a kind;
/// * i64 under `n`: generated values are integers (cast) or the texts `trace` / `spam` (not numbers);
/// * bool under `flag`: generated values are booleans (cast) or those texts.
pub fn cast_text(slot: usize, text: &str) -> Option<String> {
    match slot {
        0 => LEVEL_NAMES.iter().find(|n| **n == text).map(|n| n.to_string()),
        1 => KIND_NAMES.iter().find(|n| **n == text).map(|n| n.to_string()),
        2 => text.parse::<i64>().ok().map(|v| v.to_string()),
        _ => text.parse::<bool>().ok().map(|v| v.to_string()),
    }
}

#[derive(Clone, Debug)]
pub struct MSnap {
    pub mdl: String,
    pub tpl: String,
    pub msg: String,
    pub extent: Option<(Option<u128>, u128)>,
    pub props: Vec<MP>,
    pub typed: [Option<String>; 4],
}

impl MSnap {
    /// Exact agreement with an observed snapshot: module, template, rendered message, extent and the
    /// ORDERED property list — except inside an unordered block, which is compared as a multiset.
    pub fn agrees(&self, s: &Snap) -> bool {
        if self.mdl != s.mdl || self.tpl != s.tpl || self.msg != s.msg || self.extent != s.extent {
            return false;
        }
        if self.typed != s.typed {
            return false;
        }
        if self.props.len() != s.props.len() {
            return false;
        }
        let mut i = 0;
        while i < self.props.len() {
            let g = self.props[i].grp;
            if g == 0 {
                if self.props[i].k != s.props[i].0 || self.props[i].v != s.props[i].1 {
                    return false;
                }
                i += 1;
            } else {
                let mut j = i;
                while j < self.props.len() && self.props[j].grp == g {
                    j += 1;
                }
                let mut want: Vec<(&str, &str)> = self.props[i..j].iter().map(|p| (p.k, p.v.as_str())).collect();
                let mut have: Vec<(&str, &str)> = s.props[i..j].iter().map(|p| (p.0.as_str(), p.1.as_str())).collect();
                want.sort();
                have.sort();
                if want != have {
                    return false;
                }
                i = j;
            }
        }
        true
    }
}

pub fn model_pred(p: &Pred, ev: &MEv) -> bool {
    match p {
        Pred::Const(b) => *b,
        Pred::MdlFirst(i) => ev.mdl.split("::").next() == Some(SEGS[*i as usize % SEGS.len()]),
        Pred::MdlLen(n) => ev.mdl.split("::").count() == *n as usize,
        Pred::HasKey(k) => ev.first(key(*k)).is_some(),
        Pred::FirstValIs(k, v) => ev.first(key(*k)) == Some(v.text().as_str()),
        Pred::ExtentIs(shape) => match (shape, &ev.extent) {
            (ExtShape::None, None) => true,
            (ExtShape::Point, Some((None, _))) => true,
            (ExtShape::Range, Some((Some(_), _))) => true,
            _ => false,
        },
        Pred::TsBefore(ts) => match &ev.extent {
            Some((_, point)) => *point < ts.nanos(),
            None => false,
        },
        // MinLevelFilter: "The level to match is pulled from the KEY_LVL well-known property. Events
        // that don't carry any specific level are treated as carrying a default one, as set by
        // treat_unleveled_as" (else Level::default() = Info); matches when level >= min
        Pred::MinLevel { min, default } => {
            let rank = |name: &str| LEVEL_NAMES.iter().position(|n| *n == name).unwrap();
            let lvl = match &ev.typed()[0] {
                Some(l) => rank(l),
                None => default.map(|d| d as usize % 4).unwrap_or(1),
            };
            lvl >= *min as usize % 4
        }
        // KindFilter: "Events that match must carry a Kind::Span / Kind::Metric … Events that don't
        // carry any kind are not matched."
        Pred::KindIs(k) => ev.typed()[1].as_deref() == Some(KIND_NAMES[*k as usize % 2]),
        Pred::PullSome(slot) => ev.typed()[*slot as usize % 4].is_some(),
    }
}

/// A nested emission the model came across (classification only).
#[derive(Clone, Debug)]
pub struct NestFact {
    /// number of emissions in flight around it: 1 = emitted from inside the outermost emission, 2 = from
    /// inside a nested emission, ... (0 = from a leaf that was handed the event directly)
    pub depth: usize,
    pub via: Via,
    /// entry kinds (macro?) of the emissions in flight around it, outermost first
    pub around: Vec<bool>,
    pub uses_when: bool,
    pub accepted: bool,
    /// the emitting leaf is a filter leaf logging its decision (whether it is evaluated is don't-care)
    pub from_filter: bool,
}

#[derive(Default, Debug)]
pub struct Expect {
    /// per destination leaf id: the multiset of events it must receive
    pub emits: BTreeMap<u32, Vec<MSnap>>,
    /// per AUDIT filter leaf id: the deliveries ONE evaluation of that leaf causes in its audit runtime
    /// (how often a filter leaf is evaluated is don't-care, so these are owed per OBSERVED evaluation)
    pub per_eval: BTreeMap<u32, BTreeMap<u32, Vec<MSnap>>>,
    /// entry kinds (macro or not) of the emissions in flight at the point the model is at
    pub chain: Vec<bool>,
    /// the model is inside what ONE evaluation of an audit filter leaf causes (happens only if evaluated)
    pub under_filter_leaf: bool,
    pub nested: Vec<NestFact>,
    /// per filter leaf id: the event(s) it may have been evaluated on
    pub filter_may_see: BTreeMap<u32, Vec<MSnap>>,
    /// per filter leaf id: the verdict its predicate has on each of those events (same order)
    pub filter_verdicts: BTreeMap<u32, Vec<bool>>,
}

/// Logical value of a filter tree on an event; registers what each leaf may see.
pub fn eval_f(f: &FS, ev: &MEv, out: &mut Expect) -> bool {
    match f {
        FS::Leaf { id, pred } | FS::FromFn { id, pred } => {
            let v = model_pred(pred, ev);
            out.filter_may_see.entry(*id).or_default().push(ev.snap());
            out.filter_verdicts.entry(*id).or_default().push(v);
            v
        }
        // a leaf that logs its decision: the verdict is the predicate's; one evaluation emits the event it
        // was handed into the audit runtime (an emission like any other) when `on` fires
        FS::Audit { id, pred, on, fwd } => {
            let v = model_pred(pred, ev);
            out.filter_may_see.entry(*id).or_default().push(ev.snap());
            out.filter_verdicts.entry(*id).or_default().push(v);
            if on.fires(v) {
                let mut sub = Expect {
                    chain: out.chain.clone(),
                    under_filter_leaf: true,
                    ..Expect::default()
                };
                nested_emit(fwd, ev, true, &mut sub);
                for (id, v) in sub.filter_may_see {
                    out.filter_may_see.entry(id).or_default().extend(v);
                }
                for (id, v) in sub.filter_verdicts {
                    out.filter_verdicts.entry(id).or_default().extend(v);
                }
                out.per_eval.extend(sub.per_eval);
                out.nested.extend(sub.nested);
                out.per_eval.insert(*id, sub.emits);
            }
            v
        }
        FS::FnPtr(k) => {
            let v = model_pred(&fnptr_pred(*k), ev);
            let id = ID_FNPTR_FILTER + (*k % 3) as u32;
            out.filter_may_see.entry(id).or_default().push(ev.snap());
            out.filter_verdicts.entry(id).or_default().push(v);
            v
        }
        FS::Empty | FS::Always => true,
        FS::MinLevel { .. } | FS::KindIs(_) => model_pred(&f.leaf_pred().unwrap(), ev),
        // both operands are always "evaluated" by the model so that every leaf that MAY be
        // evaluated has its expected event registered; short-circuiting is don't-care
        FS::And(a, b) => {
            let (x, y) = (eval_f(a, ev, out), eval_f(b, ev, out));
            x && y
        }
        FS::Or(a, b) => {
            let (x, y) = (eval_f(a, ev, out), eval_f(b, ev, out));
            x || y
        }
        // an absent optional filter lets everything through
        FS::Opt(None) => true,
        FS::Opt(Some(a))
        | FS::Boxed(a)
        | FS::Arc(a)
        | FS::Ref(a)
        | FS::Erased(a)
        | FS::ErasedPlain(a)
        | FS::AssertInternal(a) => eval_f(a, ev, out),
    }
}

/// What a runtime (outer or nested) makes of an incoming event: own extent else the clock's reading,
/// own props followed by the ambient ones.
pub fn through_runtime(ev: &MEv, ambient: &[MP], clock: Option<Ts>) -> MEv {
    let mut ev = ev.clone();
    if ev.extent.is_none() {
        ev.extent = clock.map(|ts| (None, ts.nanos()));
    }
    ev.props.extend(ambient.iter().cloned());
    ev
}

/// What the nested entry point makes of the event the leaf was handed, BEFORE the target runtime sees it.
pub fn via_own(via: Via, a: i64, ev: &MEv) -> MEv {
    let mut own = ev.clone();
    let front = |own: &mut MEv, k: &'static str, v: String| own.props.insert(0, MP { k, v, grp: 0 });
    match via {
        Via::Core | Via::RtEmit | Via::RtAsEmitter | Via::MacroEvt => {}
        Via::MacroEvtTpl => own.parts = vec![MPart::Text("fwd override")],
        Via::MacroTpl(site) => {
            if site % VIA_TPL_SITES == 0 {
                own.parts = vec![MPart::Text("fwd plain")];
            } else {
                // captured properties first, then the base `props:`
                own.parts = vec![MPart::Text("fwd "), MPart::Hole("a")];
                front(&mut own, "a", a.to_string());
            }
        }
        // "the level macros … attach a level to the event" as the well-known `lvl` property, captured
        // like any other property of the call site (so in front of the base props)
        Via::Level(l) => {
            own.parts = vec![MPart::Text("leveled")];
            front(&mut own, key(KEY_LVL), LEVEL_NAMES[l as usize % 4].to_string());
        }
    }
    own
}

/// A nested emission is an emission like any other: the target runtime's clock fills in a missing extent,
/// its ambient props follow the event's, the effective filter (call-site filter when the entry point
/// carries one, else the target runtime's) decides, and each destination receives the event exactly once.
pub fn nested_emit(fw: &FwdSpec, ev: &MEv, from_filter: bool, out: &mut Expect) {
    let own = via_own(fw.via, fw.a, ev);
    let amb: Vec<MP> = fw
        .ctxt
        .iter()
        .map(|(k, v)| MP {
            k: key(*k),
            v: v.text(),
            grp: 0,
        })
        .collect();
    let full = through_runtime(&own, &amb, fw.clock);
    let around = out.chain.clone();
    out.chain.push(fw.via.is_macro());
    let accepted = if fw.uses_when() {
        // whether the target runtime's own filter is consulted at all is don't-care; if it is, it can
        // only be handed the same event (eval_f only registers what leaves MAY see / cause per evaluation)
        let _ = eval_f(&fw.filter, &full, out);
        eval_f(fw.when.as_ref().unwrap(), &full, out)
    } else {
        eval_f(&fw.filter, &full, out)
    };
    out.nested.push(NestFact {
        depth: around.len(),
        via: fw.via,
        around,
        uses_when: fw.uses_when(),
        accepted,
        from_filter: from_filter || out.under_filter_leaf,
    });
    if accepted {
        deliver(&fw.emitter, &full, out);
    }
    out.chain.pop();
}

/// Deliveries of a destination tree for an event handed to it.
pub fn deliver(e: &ES, ev: &MEv, out: &mut Expect) {
    match e {
        ES::Leaf { id, .. } | ES::FromFn { id } => out.emits.entry(*id).or_default().push(ev.snap()),
        ES::FnPtr(k) => out
            .emits
            .entry(ID_FNPTR_EMITTER + (*k % 2) as u32)
            .or_default()
            .push(ev.snap()),
        ES::Empty | ES::Opt(None) => {}
        ES::And(a, b) => {
            deliver(a, ev, out);
            deliver(b, ev, out);
        }
        ES::Opt(Some(a))
        | ES::Boxed(a)
        | ES::Arc(a)
        | ES::Ref(a)
        | ES::Erased(a)
        | ES::ErasedPlain(a)
        | ES::AssertInternal(a) => deliver(a, ev, out),
        ES::Wrap(a, w) => match w.core() {
            // "only passed to the output emitter when they match"
            WS::Filter(g) => {
                if eval_f(g, ev, out) {
                    deliver(a, ev, out);
                }
            }
            WS::Prepend(k, v) => {
                let mut ev2 = ev.clone();
                ev2.props.insert(
                    0,
                    MP {
                        k: key(*k),
                        v: v.text(),
                        grp: 0,
                    },
                );
                deliver(a, &ev2, out);
            }
            _ => unreachable!("core() peels the reference layers"),
        },
        ES::Fwd(fw) => nested_emit(fw, ev, false, out),
        // Runtime::emit: "1. assign an extent using Clock::now if the event doesn't already have one.
        // 2. Add Ctxt::Current to the event properties. 3. Ensure the event passes Filter::matches.
        // 4. Emit the event through Emitter::emit." — with the nested runtime's own components.
        ES::Rt {
            emitter,
            filter,
            ctxt,
            clock,
        } => {
            let amb: Vec<MP> = ctxt
                .iter()
                .map(|(k, v)| MP {
                    k: key(*k),
                    v: v.text(),
                    grp: 0,
                })
                .collect();
            let ev2 = through_runtime(ev, &amb, *clock);
            if eval_f(filter, &ev2, out) {
                deliver(emitter, &ev2, out);
            }
        }
    }
}

/// Flush: every reachable leaf is flushed, result = conjunction of their scripted answers.
/// (`Empty`, `from_fn` and fn-pointer emitters have nothing to flush: true.)
pub fn flush(e: &ES, reach: &mut Vec<u32>) -> bool {
    match e {
        ES::Leaf { id, flush } => {
            reach.push(*id);
            *flush
        }
        ES::FromFn { .. } | ES::FnPtr(_) | ES::Empty | ES::Opt(None) => true,
        ES::And(a, b) => {
            let (x, y) = (flush(a, reach), flush(b, reach));
            x && y
        }
        ES::Opt(Some(a))
        | ES::Boxed(a)
        | ES::Arc(a)
        | ES::Ref(a)
        | ES::Erased(a)
        | ES::ErasedPlain(a)
        | ES::AssertInternal(a) => flush(a, reach),
        // "Flushing defers to the wrapped emitter."
        ES::Wrap(a, _) => flush(a, reach),
        ES::Rt { emitter, .. } => flush(emitter, reach),
        // the harness's forwarding leaf flushes the destination it forwards into
        ES::Fwd(fw) => flush(&fw.emitter, reach),
    }
}

// ---------------------------------------------------------------------------------------------
// the case as a whole

pub const SITE_COUNT: u8 = 4;

/// Template and captured properties of the macro call sites in run.rs (`a` then `b`, which is both
/// their source order and their sorted order).
pub fn site(n: u8) -> (Vec<MPart>, &'static [&'static str]) {
    match n % SITE_COUNT {
        0 => (vec![MPart::Text("plain")], &[]),
        1 => (vec![MPart::Text("x "), MPart::Hole("a"), MPart::Text(" y")], &["a"]),
        2 => (vec![MPart::Hole("a"), MPart::Hole("b")], &["a", "b"]),
        _ => (vec![MPart::Text("t "), MPart::Hole("a")], &["a", "b"]),
    }
}

#[allow(dead_code)]
pub struct Model {
    /// the event value the harness constructs (what is handed straight to a destination)
    pub base: MEv,
    /// the event as the entry point constructs it (own props, own extent)
    pub own: MEv,
    pub ambient: Vec<MP>,
    /// the event as the effective filter and the destinations must see it
    pub full: MEv,
    pub accepted: bool,
    pub accepted_without_ambient: bool,
    /// expectations for emitting through the runtime
    pub main: Expect,
    /// expectations for emitting straight to the destination
    pub direct: Expect,
    pub flush_result: bool,
    pub flush_reach: Vec<u32>,
    pub uses_when: bool,
    /// per typed slot: the event's OWN first value for the key does not cast while the first AMBIENT
    /// value does (the shadowing case a typed lookup must not fall through on)
    pub own_blocks_ambient: [bool; 4],
}

/// Ambient properties as the ctxt kind serves them.
pub fn effective_ambient(c: &Case) -> Vec<MP> {
    match c.ctxt {
        CtxtKind::Empty => Vec::new(),
        CtxtKind::List => c
            .ambient
            .iter()
            .map(|(k, v)| MP {
                k: key(*k),
                v: v.text(),
                grp: 0,
            })
            .collect(),
        CtxtKind::ThreadLocal => dedup_ambient(&c.ambient)
            .iter()
            .map(|(k, v)| MP {
                k: key(*k),
                v: v.text(),
                grp: 1,
            })
            .collect(),
    }
}

/// Frames carry distinct keys: keep the first occurrence of each key.
pub fn dedup_ambient(list: &[(u8, Val)]) -> Vec<(u8, Val)> {
    let mut out: Vec<(u8, Val)> = Vec::new();
    for (k, v) in list {
        if !out.iter().any(|(k2, _)| key(*k2) == key(*k)) {
            out.push((*k, v.clone()));
        }
    }
    out
}

impl Model {
    pub fn new(c: &Case) -> Model {
        let mdl = c
            .evt
            .mdl
            .iter()
            .map(|s| SEGS[*s as usize % SEGS.len()])
            .collect::<Vec<_>>()
            .join("::");
        let base_parts: Vec<MPart> = c
            .evt
            .tpl
            .iter()
            .map(|p| match p {
                TplPart::Text(t) => MPart::Text(TEXTS[*t as usize % TEXTS.len()]),
                TplPart::Hole(k) => MPart::Hole(key(*k)),
            })
            .collect();
        let base_props: Vec<MP> = c
            .evt
            .props
            .iter()
            .map(|(k, v)| MP {
                k: key(*k),
                v: v.text(),
                grp: 0,
            })
            .collect();
        let extent = match &c.evt.extent {
            ExtSpec::None => None,
            ExtSpec::Point(ts) => Some((None, ts.nanos())),
            ExtSpec::Range(a, b) => Some((Some(a.nanos()), b.nanos())),
        };
        // what the entry point makes of the inputs BEFORE the runtime sees the event
        let base = MEv {
            mdl: mdl.clone(),
            parts: base_parts.clone(),
            extent,
            props: base_props.clone(),
        };
        let (parts, props) = match c.entry {
            Entry::Core | Entry::RtEmit | Entry::RtAsEmitter | Entry::MacroEvt => (base_parts, base_props),
            Entry::MacroEvtTpl => (vec![MPart::Text("override")], base_props),
            Entry::MacroEmit(n) => {
                // captured properties first, then the base `props:` (emit_props_precedence: evt > props > ctxt)
                let (parts, captured) = site(n);
                let mut props = Vec::new();
                for k in captured {
                    props.push(MP {
                        k,
                        v: if *k == "a" {
                            c.macro_a.to_string()
                        } else {
                            STRS[c.macro_b as usize % STRS.len()].to_string()
                        },
                        grp: 0,
                    });
                }
                props.extend(base_props);
                (parts, props)
            }
        };
        let own = MEv {
            mdl,
            parts,
            extent,
            props,
        };
        let ambient = effective_ambient(c);
        let full = through_runtime(&own, &ambient, c.clock);
        let uses_when = c.entry.is_macro() && c.when.is_some();
        let effective: &FS = if uses_when { c.when.as_ref().unwrap() } else { &c.filter };

        let mut main = Expect {
            chain: vec![c.entry.is_macro()],
            ..Expect::default()
        };
        let accepted = eval_f(effective, &full, &mut main);
        if uses_when {
            // the runtime's own filter is not the effective one; whether it is evaluated at all is
            // don't-care, but if it is, it can only be handed the same event (eval_f only registers what
            // leaves MAY see and what one evaluation of an audit leaf causes)
            let _ = eval_f(&c.filter, &full, &mut main);
        }
        if accepted {
            deliver(&c.dest, &full, &mut main);
        } else {
            // rejected: no destination leaf receives anything, but filters inside the destination
            // tree are never reached either — nothing to register
        }
        let without = through_runtime(&own, &[], c.clock);
        let accepted_without_ambient = eval_f(effective, &without, &mut Expect::default());

        let mut direct = Expect::default();
        deliver(&c.dest, &base, &mut direct);

        let mut flush_reach = Vec::new();
        let flush_result = flush(&c.dest, &mut flush_reach);

        let mut own_blocks_ambient = [false; 4];
        for (slot, k) in SLOT_KEYS.iter().enumerate() {
            let own_first = own.first(key(*k));
            let amb_first = ambient.iter().find(|p| p.k == key(*k)).map(|p| p.v.as_str());
            own_blocks_ambient[slot] = matches!(own_first, Some(t) if cast_text(slot, t).is_none())
                && matches!(amb_first, Some(t) if cast_text(slot, t).is_some());
        }

        Model {
            own_blocks_ambient,
            base,
            own,
            ambient,
            full,
            accepted,
            accepted_without_ambient,
            main,
            direct,
            flush_result,
            flush_reach,
            uses_when,
        }
    }
}
