//! Engine E1 for C01: dynamic combinator trees.
//!
//! `F` (filters), `E` (emitters) and `W` (wrappings) are recursive enums whose every composite
//! variant HOLDS the real emit combinator type instantiated at the enum itself and whose trait impl
//! only dispatches to it: the conjunction, disjunction, option handling, boxing, sharing, borrowing,
//! erasure, wrapping and nested-runtime logic that runs is emit's own generic code.
//!
//! The one thing the enums add is `evt.to_event().erase()` at every enum node: emit's combinators are
//! generic over the event's props type and re-borrow it at each layer, so a recursive enum would
//! otherwise need infinitely many instantiations. Erasing the PROPS type (not the filter/emitter) is
//! what `filter::FromFn`/`emitter::FromFn` do as well. `statics.rs` covers trees with no erasure at all.
//!
//! Everything a leaf observes goes to a thread-local log (a case runs on exactly one thread).

use std::cell::RefCell;
use std::ops::ControlFlow;
use std::sync::Arc;
use std::time::Duration;

use emit::and::And;
use emit::emitter::wrapping::{self, ErasedWrapping, Wrapping};
use emit::emitter::{self, ErasedEmitter, Wrap};
use emit::event::ToEvent;
use emit::filter::{self, ErasedFilter};
use emit::or::Or;
use emit::props::ErasedProps;
use emit::runtime::{AssertInternal, Runtime};
use emit::{Clock, Ctxt, Emitter, Empty, Event, Filter, Props, Rng, Timestamp};

use crate::spec::*;

// ---------------------------------------------------------------------------------------------
// observation log

#[derive(Debug, Clone, PartialEq, Eq, PartialOrd, Ord)]
pub struct Snap {
    pub mdl: String,
    pub tpl: String,
    pub msg: String,
    /// (start when the extent is a range, point/end), nanoseconds since the epoch
    pub extent: Option<(Option<u128>, u128)>,
    /// ordered (key, value text) exactly as `Props::for_each` yields them
    pub props: Vec<(String, String)>,
    /// the typed lookups `pull::<Level>("lvl")`, `pull::<Kind>("evt_kind")`, `pull::<i64>("n")`,
    /// `pull::<bool>("flag")` on the props exactly as handed to the leaf (Display of the result)
    pub typed: [Option<String>; 4],
}

#[derive(Debug, Clone, PartialEq)]
pub enum Rec {
    FilterSaw { id: u32, snap: Snap, verdict: bool },
    Emit { id: u32, snap: Snap },
    Flush { id: u32, timeout: Duration },
    ClockRead { tag: u32 },
}

thread_local! {
    static LOG: RefCell<Vec<Rec>> = const { RefCell::new(Vec::new()) };
}

pub fn log(r: Rec) {
    LOG.with(|l| l.borrow_mut().push(r));
}

pub fn log_take() -> Vec<Rec> {
    LOG.with(|l| std::mem::take(&mut *l.borrow_mut()))
}

fn nanos(ts: &Timestamp) -> u128 {
    ts.to_unix().as_nanos()
}

pub fn snap<P: Props>(evt: &Event<P>) -> Snap {
    let mut props = Vec::new();
    let _ = evt.props().for_each(|k, v| {
        props.push((k.get().to_string(), v.to_string()));
        ControlFlow::Continue(())
    });
    Snap {
        mdl: evt.mdl().to_string(),
        tpl: evt.tpl().to_string(),
        msg: evt.msg().to_string(),
        extent: evt
            .extent()
            .map(|e| (e.as_range().map(|r| nanos(&r.start)), nanos(e.as_point()))),
        props,
        typed: [
            evt.props().pull::<emit::Level, _>(key(KEY_LVL)).map(|v| v.to_string()),
            evt.props().pull::<emit::Kind, _>(key(KEY_KIND)).map(|v| v.to_string()),
            evt.props().pull::<i64, _>(key(KEY_N)).map(|v| v.to_string()),
            evt.props().pull::<bool, _>(key(KEY_FLAG)).map(|v| v.to_string()),
        ],
    }
}

pub fn min_level_filter(min: u8, default: Option<u8>) -> emit::level::MinLevelFilter {
    let f = emit::level::min_filter(LEVELS[min as usize % 4]);
    match default {
        Some(d) => f.treat_unleveled_as(LEVELS[d as usize % 4]),
        None => f,
    }
}

pub fn kind_filter(k: u8) -> emit::kind::KindFilter {
    if k % 2 == 0 {
        emit::kind::is_span_filter()
    } else {
        emit::kind::is_metric_filter()
    }
}

/// The real evaluation of a leaf predicate: uses the event's public accessors (`mdl`, `extent`,
/// `ts`, `props().get`) on whatever props type the combinators hand over.
pub fn eval_pred<P: Props>(pred: &Pred, evt: &Event<P>) -> bool {
    match pred {
        Pred::Const(b) => *b,
        Pred::MdlFirst(i) => evt.mdl().segments().next().map(|s| s.get() == SEGS[*i as usize % SEGS.len()]).unwrap_or(false),
        Pred::MdlLen(n) => evt.mdl().segments().count() == *n as usize,
        Pred::HasKey(k) => evt.props().get(key(*k)).is_some(),
        Pred::FirstValIs(k, v) => match evt.props().get(key(*k)) {
            Some(found) => found.to_string() == v.text(),
            None => false,
        },
        Pred::ExtentIs(shape) => match (shape, evt.extent()) {
            (ExtShape::None, None) => true,
            (ExtShape::Point, Some(e)) => e.is_point(),
            (ExtShape::Range, Some(e)) => e.is_range(),
            _ => false,
        },
        Pred::TsBefore(ts) => match evt.ts() {
            Some(t) => nanos(t) < ts.nanos(),
            None => false,
        },
        // the REAL typed-lookup filters, handed the event generically (no erasure added here)
        Pred::MinLevel { min, default } => min_level_filter(*min, *default).matches(evt),
        Pred::KindIs(k) => kind_filter(*k).matches(evt),
        Pred::PullSome(slot) => match slot % 4 {
            0 => evt.props().pull::<emit::Level, _>(key(KEY_LVL)).is_some(),
            1 => evt.props().pull::<emit::Kind, _>(key(KEY_KIND)).is_some(),
            2 => evt.props().pull::<i64, _>(key(KEY_N)).is_some(),
            _ => evt.props().pull::<bool, _>(key(KEY_FLAG)).is_some(),
        },
    }
}

// ---------------------------------------------------------------------------------------------
// leaves

pub struct RecFilter {
    pub id: u32,
    pub pred: Pred,
}

impl Filter for RecFilter {
    fn matches<E: ToEvent>(&self, evt: E) -> bool {
        let evt = evt.to_event();
        let verdict = eval_pred(&self.pred, &evt);
        log(Rec::FilterSaw {
            id: self.id,
            snap: snap(&evt),
            verdict,
        });
        verdict
    }
}

pub struct RecEmitter {
    pub id: u32,
    pub flush: bool,
}

impl Emitter for RecEmitter {
    fn emit<E: ToEvent>(&self, evt: E) {
        let evt = evt.to_event();
        log(Rec::Emit {
            id: self.id,
            snap: snap(&evt),
        });
    }

    fn blocking_flush(&self, timeout: Duration) -> bool {
        log(Rec::Flush { id: self.id, timeout });
        self.flush
    }
}

pub type FilterFn = Box<dyn Fn(Event<&dyn ErasedProps>) -> bool + Send + Sync>;
pub type EmitFn = Box<dyn Fn(Event<&dyn ErasedProps>) + Send + Sync>;
pub type WrapFn = Box<dyn Fn(&dyn ErasedEmitter, Event<&dyn ErasedProps>) + Send + Sync>;
pub type FilterPtr = fn(Event<&dyn ErasedProps>) -> bool;
pub type EmitPtr = fn(Event<&dyn ErasedProps>);

pub fn fnptr_pred(k: u8) -> Pred {
    match k % 3 {
        0 => Pred::HasKey(0),
        1 => Pred::MdlFirst(0),
        _ => Pred::ExtentIs(ExtShape::Point),
    }
}

fn fnptr_filter(k: u8, evt: Event<&dyn ErasedProps>) -> bool {
    let verdict = eval_pred(&fnptr_pred(k), &evt);
    log(Rec::FilterSaw {
        id: ID_FNPTR_FILTER + (k % 3) as u32,
        snap: snap(&evt),
        verdict,
    });
    verdict
}
fn fpf0(evt: Event<&dyn ErasedProps>) -> bool {
    fnptr_filter(0, evt)
}
fn fpf1(evt: Event<&dyn ErasedProps>) -> bool {
    fnptr_filter(1, evt)
}
fn fpf2(evt: Event<&dyn ErasedProps>) -> bool {
    fnptr_filter(2, evt)
}
fn fpe0(evt: Event<&dyn ErasedProps>) {
    log(Rec::Emit {
        id: ID_FNPTR_EMITTER,
        snap: snap(&evt),
    });
}
fn fpe1(evt: Event<&dyn ErasedProps>) {
    log(Rec::Emit {
        id: ID_FNPTR_EMITTER + 1,
        snap: snap(&evt),
    });
}

// ---------------------------------------------------------------------------------------------
// clock and ctxt

pub struct FixedClock {
    pub tag: u32,
    pub now: Timestamp,
}

impl Clock for FixedClock {
    fn now(&self) -> Option<Timestamp> {
        log(Rec::ClockRead { tag: self.tag });
        Some(self.now)
    }
}

/// clock ∈ {none = `emit::Empty`, fixed timestamp}
pub enum K {
    Empty(Empty),
    Fixed(FixedClock),
}

impl K {
    pub fn new(tag: u32, ts: Option<Ts>) -> K {
        match ts {
            None => K::Empty(Empty),
            Some(ts) => K::Fixed(FixedClock { tag, now: ts.real() }),
        }
    }
}

impl Clock for K {
    fn now(&self) -> Option<Timestamp> {
        match self {
            K::Empty(c) => c.now(),
            K::Fixed(c) => c.now(),
        }
    }
}

/// A harness `Ctxt` serving a fixed list, in order, as the current ambient properties.
#[derive(Clone)]
pub struct ListCtxt {
    pub props: Vec<(&'static str, Val)>,
}

impl ListCtxt {
    pub fn new(list: &[(u8, Val)]) -> ListCtxt {
        ListCtxt {
            props: list.iter().map(|(k, v)| (key(*k), v.clone())).collect(),
        }
    }
}

impl Ctxt for ListCtxt {
    type Current = [(&'static str, Val)];
    type Frame = ();

    fn open_root<P: Props>(&self, _: P) -> Self::Frame {}
    fn enter(&self, _: &mut Self::Frame) {}
    fn with_current<R, F: FnOnce(&Self::Current) -> R>(&self, with: F) -> R {
        with(&self.props[..])
    }
    fn exit(&self, _: &mut Self::Frame) {}
    fn close(&self, _: Self::Frame) {}
}

// ---------------------------------------------------------------------------------------------
// filters

pub enum F {
    Rec(RecFilter),
    /// a recording leaf that logs its decision into its own audit runtime (nested emission)
    Audit(Box<AuditFilter>),
    FromFn(filter::FromFn<FilterFn>),
    FnPtr(FilterPtr),
    Empty(Empty),
    Always(filter::Always),
    MinLevel(emit::level::MinLevelFilter),
    Kind(emit::kind::KindFilter),
    And(Box<And<F, F>>),
    Or(Box<Or<F, F>>),
    Opt(Option<Box<F>>),
    Boxed(Box<F>),
    Arc(Arc<F>),
    /// dispatches through `<&F as Filter>`
    Ref(Box<F>),
    Erased(Box<dyn ErasedFilter + Send + Sync>),
    /// dispatches through `&dyn ErasedFilter`
    ErasedPlain(Box<F>),
    AssertInternal(Box<AssertInternal<F>>),
}

impl Filter for F {
    fn matches<E: ToEvent>(&self, evt: E) -> bool {
        // leaves are handed the event as is: no erasure is added in front of a leaf
        match self {
            F::Rec(f) => return f.matches(evt),
            F::FromFn(f) => return f.matches(evt),
            F::FnPtr(f) => return f.matches(evt),
            F::Empty(f) => return Filter::matches(f, evt),
            F::Always(f) => return f.matches(evt),
            F::MinLevel(f) => return f.matches(evt),
            F::Kind(f) => return f.matches(evt),
            _ => {}
        }
        // composites: bound the number of generic instantiations
        let evt = evt.to_event();
        let evt = evt.erase();
        match self {
            F::Rec(_) | F::FromFn(_) | F::FnPtr(_) | F::Empty(_) | F::Always(_) | F::MinLevel(_) | F::Kind(_) => unreachable!(),
            // (behind the erasure: the audit runtime's trees are `E`/`F` again)
            F::Audit(f) => f.matches(&evt),
            F::And(f) => f.matches(&evt),
            F::Or(f) => f.matches(&evt),
            F::Opt(f) => f.matches(&evt),
            F::Boxed(f) => f.matches(&evt),
            F::Arc(f) => f.matches(&evt),
            F::Ref(f) => {
                let r: &F = f;
                Filter::matches(&r, &evt)
            }
            F::Erased(f) => f.matches(&evt),
            F::ErasedPlain(f) => {
                let r: &dyn ErasedFilter = &**f;
                Filter::matches(r, &evt)
            }
            F::AssertInternal(f) => f.matches(&evt),
        }
    }
}

pub fn build_audit(id: u32, pred: &Pred, on: AuditOn, fwd: &FwdSpec, all_erased: bool) -> AuditFilter {
    // clock tags of the runtimes below a filter leaf: a range of their own, fixed by the leaf's id
    let mut tag = 10_000 + id * 64;
    AuditFilter {
        id,
        pred: pred.clone(),
        on,
        fwd: build_fwd(fwd, all_erased, &mut tag),
    }
}

pub fn build_f(s: &FS, all_erased: bool) -> F {
    let b = |s: &FS| build_f(s, all_erased);
    let f = match s {
        FS::Leaf { id, pred } => F::Rec(RecFilter {
            id: *id,
            pred: pred.clone(),
        }),
        FS::Audit { id, pred, on, fwd } => F::Audit(Box::new(build_audit(*id, pred, *on, fwd, all_erased))),
        FS::FromFn { id, pred } => {
            let (id, pred) = (*id, pred.clone());
            let f: FilterFn = Box::new(move |evt: Event<&dyn ErasedProps>| {
                let verdict = eval_pred(&pred, &evt);
                log(Rec::FilterSaw {
                    id,
                    snap: snap(&evt),
                    verdict,
                });
                verdict
            });
            F::FromFn(filter::from_fn(f))
        }
        FS::FnPtr(k) => F::FnPtr(match k % 3 {
            0 => fpf0 as FilterPtr,
            1 => fpf1 as FilterPtr,
            _ => fpf2 as FilterPtr,
        }),
        FS::Empty => F::Empty(Empty),
        FS::Always => F::Always(filter::always()),
        FS::MinLevel { min, default } => F::MinLevel(min_level_filter(*min, *default)),
        FS::KindIs(k) => F::Kind(kind_filter(*k)),
        FS::And(x, y) => F::And(Box::new(b(x).and_when(b(y)))),
        FS::Or(x, y) => F::Or(Box::new(b(x).or_when(b(y)))),
        FS::Opt(x) => F::Opt(x.as_ref().map(|x| Box::new(b(x)))),
        FS::Boxed(x) => F::Boxed(Box::new(b(x))),
        FS::Arc(x) => F::Arc(Arc::new(b(x))),
        FS::Ref(x) => F::Ref(Box::new(b(x))),
        FS::Erased(x) => F::Erased(Box::new(b(x))),
        FS::ErasedPlain(x) => F::ErasedPlain(Box::new(b(x))),
        FS::AssertInternal(x) => F::AssertInternal(Box::new(AssertInternal(b(x)))),
    };
    if all_erased {
        F::Erased(Box::new(f))
    } else {
        f
    }
}

// ---------------------------------------------------------------------------------------------
// wrappings

pub enum W {
    Filter(wrapping::FromFilter<F>),
    Prepend(wrapping::FromFn<WrapFn>),
    /// dispatches through `<&W as Wrapping>`
    Ref(Box<W>),
    Erased(Box<dyn ErasedWrapping + Send + Sync>),
    /// dispatches through `&dyn ErasedWrapping`
    ErasedPlain(Box<W>),
}

impl Wrapping for W {
    fn wrap<O: Emitter, E: ToEvent>(&self, output: O, evt: E) {
        let evt = evt.to_event();
        let evt = evt.erase();
        match self {
            W::Filter(w) => w.wrap(output, &evt),
            W::Prepend(w) => w.wrap(output, &evt),
            W::Ref(w) => {
                let r: &W = w;
                Wrapping::wrap(&r, output, &evt)
            }
            W::Erased(w) => {
                let r: &(dyn ErasedWrapping + Send + Sync) = &**w;
                Wrapping::wrap(r, output, &evt)
            }
            W::ErasedPlain(w) => {
                let r: &dyn ErasedWrapping = &**w;
                Wrapping::wrap(r, output, &evt)
            }
        }
    }
}

pub fn build_w(s: &WS, all_erased: bool) -> W {
    let w = match s {
        WS::Filter(f) => W::Filter(wrapping::from_filter(build_f(f, all_erased))),
        WS::Prepend(k, v) => {
            let (k, v) = (key(*k), v.clone());
            let f: WrapFn = Box::new(move |out: &dyn ErasedEmitter, evt: Event<&dyn ErasedProps>| {
                out.emit(evt.map_props(|props| (k, &v).and_props(props)));
            });
            W::Prepend(wrapping::from_fn(f))
        }
        WS::Ref(w) => W::Ref(Box::new(build_w(w, all_erased))),
        WS::Erased(w) => W::Erased(Box::new(build_w(w, all_erased))),
        WS::ErasedPlain(w) => W::ErasedPlain(Box::new(build_w(w, all_erased))),
    };
    if all_erased {
        W::Erased(Box::new(w))
    } else {
        w
    }
}

// ---------------------------------------------------------------------------------------------
// emitters

pub type NestedRt = Runtime<E, F, ListCtxt, K, Empty>;

pub enum E {
    Rec(RecEmitter),
    FromFn(emitter::FromFn<EmitFn>),
    FnPtr(EmitPtr),
    Empty(Empty),
    And(Box<And<E, E>>),
    Opt(Option<Box<E>>),
    Boxed(Box<E>),
    Arc(Arc<E>),
    /// dispatches through `<&E as Emitter>`
    Ref(Box<E>),
    Erased(Box<dyn ErasedEmitter + Send + Sync>),
    /// dispatches through `&dyn ErasedEmitter`
    ErasedPlain(Box<E>),
    AssertInternal(Box<AssertInternal<E>>),
    Wrap(Box<Wrap<E, W>>),
    /// a nested runtime used through its `Emitter` impl
    Rt(Box<NestedRt>),
    /// a forwarding destination: re-emits what it receives into another runtime (nested emission)
    Fwd(Box<Fwd>),
}

impl Emitter for E {
    fn emit<T: ToEvent>(&self, evt: T) {
        // leaves are handed the event as is
        match self {
            E::Rec(e) => return e.emit(evt),
            E::FromFn(e) => return e.emit(evt),
            E::FnPtr(e) => return e.emit(evt),
            E::Empty(e) => return Emitter::emit(e, evt),
            _ => {}
        }
        let evt = evt.to_event();
        let evt = evt.erase();
        match self {
            E::Rec(_) | E::FromFn(_) | E::FnPtr(_) | E::Empty(_) => unreachable!(),
            E::And(e) => e.emit(&evt),
            E::Opt(e) => e.emit(&evt),
            E::Boxed(e) => e.emit(&evt),
            E::Arc(e) => e.emit(&evt),
            E::Ref(e) => {
                let r: &E = e;
                Emitter::emit(&r, &evt)
            }
            E::Erased(e) => e.emit(&evt),
            E::ErasedPlain(e) => {
                let r: &dyn ErasedEmitter = &**e;
                Emitter::emit(r, &evt)
            }
            E::AssertInternal(e) => e.emit(&evt),
            E::Wrap(e) => e.emit(&evt),
            E::Rt(e) => {
                let r: &NestedRt = e;
                Emitter::emit(r, &evt)
            }
            E::Fwd(e) => e.emit(&evt),
        }
    }

    fn blocking_flush(&self, timeout: Duration) -> bool {
        match self {
            E::Rec(e) => e.blocking_flush(timeout),
            E::FromFn(e) => e.blocking_flush(timeout),
            E::FnPtr(e) => e.blocking_flush(timeout),
            E::Empty(e) => Emitter::blocking_flush(e, timeout),
            E::And(e) => e.blocking_flush(timeout),
            E::Opt(e) => e.blocking_flush(timeout),
            E::Boxed(e) => e.blocking_flush(timeout),
            E::Arc(e) => e.blocking_flush(timeout),
            E::Ref(e) => {
                let r: &E = e;
                Emitter::blocking_flush(&r, timeout)
            }
            E::Erased(e) => e.blocking_flush(timeout),
            E::ErasedPlain(e) => {
                let r: &dyn ErasedEmitter = &**e;
                Emitter::blocking_flush(r, timeout)
            }
            E::AssertInternal(e) => e.blocking_flush(timeout),
            E::Wrap(e) => e.blocking_flush(timeout),
            E::Rt(e) => {
                let r: &NestedRt = e;
                Emitter::blocking_flush(r, timeout)
            }
            E::Fwd(e) => e.blocking_flush(timeout),
        }
    }
}

/// `nested_clock_tag` numbers nested runtimes' clocks (the outer clock is tag 0).
pub fn build_e(s: &ES, all_erased: bool, nested_clock_tag: &mut u32) -> E {
    let e = match s {
        ES::Leaf { id, flush } => E::Rec(RecEmitter {
            id: *id,
            flush: *flush,
        }),
        ES::FromFn { id } => {
            let id = *id;
            let f: EmitFn = Box::new(move |evt: Event<&dyn ErasedProps>| {
                log(Rec::Emit { id, snap: snap(&evt) });
            });
            E::FromFn(emitter::from_fn(f))
        }
        ES::FnPtr(k) => E::FnPtr(if k % 2 == 0 { fpe0 as EmitPtr } else { fpe1 as EmitPtr }),
        ES::Empty => E::Empty(Empty),
        ES::And(x, y) => {
            let x = build_e(x, all_erased, nested_clock_tag);
            let y = build_e(y, all_erased, nested_clock_tag);
            E::And(Box::new(x.and_to(y)))
        }
        ES::Opt(None) => E::Opt(None),
        ES::Opt(Some(x)) => E::Opt(Some(Box::new(build_e(x, all_erased, nested_clock_tag)))),
        ES::Boxed(x) => E::Boxed(Box::new(build_e(x, all_erased, nested_clock_tag))),
        ES::Arc(x) => E::Arc(Arc::new(build_e(x, all_erased, nested_clock_tag))),
        ES::Ref(x) => E::Ref(Box::new(build_e(x, all_erased, nested_clock_tag))),
        ES::Erased(x) => E::Erased(Box::new(build_e(x, all_erased, nested_clock_tag))),
        ES::ErasedPlain(x) => E::ErasedPlain(Box::new(build_e(x, all_erased, nested_clock_tag))),
        ES::AssertInternal(x) => E::AssertInternal(Box::new(AssertInternal(build_e(x, all_erased, nested_clock_tag)))),
        ES::Wrap(x, w) => {
            let w = build_w(w, all_erased);
            let x = build_e(x, all_erased, nested_clock_tag);
            E::Wrap(Box::new(x.wrap_emitter(w)))
        }
        ES::Fwd(fw) => E::Fwd(Box::new(build_fwd(fw, all_erased, nested_clock_tag))),
        ES::Rt {
            emitter,
            filter,
            ctxt,
            clock,
        } => {
            *nested_clock_tag += 1;
            let tag = *nested_clock_tag;
            let f = build_f(filter, all_erased);
            let e = build_e(emitter, all_erased, nested_clock_tag);
            E::Rt(Box::new(
                Runtime::new()
                    .with_emitter(e)
                    .with_filter(f)
                    .with_ctxt(ListCtxt::new(ctxt))
                    .with_clock(K::new(tag, *clock)),
            ))
        }
    };
    if all_erased {
        E::Erased(Box::new(e))
    } else {
        e
    }
}

// ---------------------------------------------------------------------------------------------
// nested emission: a leaf that EMITS while it handles an event

/// Re-emit `evt` through `rt` by the entry point `via`. This runs INSIDE the emission that handed `evt`
/// to the calling leaf (same thread, that emission's frames still on the stack). `when` is the call-site
/// filter; only the macro entry points can carry one.
pub fn forward<TE: Emitter, TF: Filter, TC: Ctxt, TK: Clock, TR: Rng, TW: Filter, P: Props>(
    rt: &Runtime<TE, TF, TC, TK, TR>,
    when: Option<&TW>,
    via: Via,
    a: i64,
    evt: &Event<P>,
) {
    let _ = a;
    match via {
        Via::Core => emit_core::emit(rt.emitter(), rt.filter(), rt.ctxt(), rt.clock(), evt),
        Via::RtEmit => rt.emit(evt),
        Via::RtAsEmitter => Emitter::emit(rt, evt),
        Via::MacroEvt => match when {
            Some(w) => emit::emit!(rt: *rt, when: w, evt: evt),
            None => emit::emit!(rt: *rt, evt: evt),
        },
        Via::MacroEvtTpl => match when {
            Some(w) => emit::emit!(rt: *rt, when: w, evt: evt, "fwd override"),
            None => emit::emit!(rt: *rt, evt: evt, "fwd override"),
        },
        Via::MacroTpl(site) => {
            let mdl = evt.mdl().by_ref();
            let ext = evt.extent().cloned();
            let base = evt.props();
            match (site % VIA_TPL_SITES, when) {
                (0, Some(w)) => emit::emit!(rt: *rt, when: w, mdl: mdl, extent: ext, props: base, "fwd plain"),
                (0, None) => emit::emit!(rt: *rt, mdl: mdl, extent: ext, props: base, "fwd plain"),
                (_, Some(w)) => emit::emit!(rt: *rt, when: w, mdl: mdl, extent: ext, props: base, "fwd {a}"),
                (_, None) => emit::emit!(rt: *rt, mdl: mdl, extent: ext, props: base, "fwd {a}"),
            }
        }
        Via::Level(l) => {
            let mdl = evt.mdl().by_ref();
            let ext = evt.extent().cloned();
            let base = evt.props();
            match (l % 4, when) {
                (0, Some(w)) => emit::debug!(rt: *rt, when: w, mdl: mdl, extent: ext, props: base, "leveled"),
                (0, None) => emit::debug!(rt: *rt, mdl: mdl, extent: ext, props: base, "leveled"),
                (1, Some(w)) => emit::info!(rt: *rt, when: w, mdl: mdl, extent: ext, props: base, "leveled"),
                (1, None) => emit::info!(rt: *rt, mdl: mdl, extent: ext, props: base, "leveled"),
                (2, Some(w)) => emit::warn!(rt: *rt, when: w, mdl: mdl, extent: ext, props: base, "leveled"),
                (2, None) => emit::warn!(rt: *rt, mdl: mdl, extent: ext, props: base, "leveled"),
                (_, Some(w)) => emit::error!(rt: *rt, when: w, mdl: mdl, extent: ext, props: base, "leveled"),
                (_, None) => emit::error!(rt: *rt, mdl: mdl, extent: ext, props: base, "leveled"),
            }
        }
    }
}

/// A destination that tees into another pipeline, the way user code would write it: the target of the
/// nested emission is a runtime of its own (destination, filter, list-backed ctxt, clock); `via` is the
/// entry point, `when` the optional call-site filter. Generic, so `statics.rs` instantiates it at plain
/// leaves while the dynamic trees use it at the recursive enums (`Fwd`).
pub struct Tee<TE, TF, TW> {
    pub rt: Runtime<TE, TF, ListCtxt, K, Empty>,
    pub when: Option<TW>,
    pub via: Via,
    pub a: i64,
}

pub type Fwd = Tee<E, F, F>;

impl<TE: Emitter, TF: Filter, TW: Filter> Tee<TE, TF, TW> {
    pub fn forward<P: Props>(&self, evt: &Event<P>) {
        forward(&self.rt, self.when.as_ref(), self.via, self.a, evt)
    }
}

impl<TE: Emitter, TF: Filter, TW: Filter> Emitter for Tee<TE, TF, TW> {
    fn emit<T: ToEvent>(&self, evt: T) {
        let evt = evt.to_event();
        self.forward(&evt)
    }

    /// a tee flushes what it tees into
    fn blocking_flush(&self, timeout: Duration) -> bool {
        self.rt.emitter().blocking_flush(timeout)
    }
}

/// A filter leaf that logs its decision: the verdict is its predicate's; when `on` fires for it, the event
/// is first emitted into the leaf's audit runtime.
pub struct Audit<TE, TF, TW> {
    pub id: u32,
    pub pred: Pred,
    pub on: AuditOn,
    pub fwd: Tee<TE, TF, TW>,
}

pub type AuditFilter = Audit<E, F, F>;

impl<TE: Emitter, TF: Filter, TW: Filter> Filter for Audit<TE, TF, TW> {
    fn matches<T: ToEvent>(&self, evt: T) -> bool {
        let evt = evt.to_event();
        let verdict = eval_pred(&self.pred, &evt);
        log(Rec::FilterSaw {
            id: self.id,
            snap: snap(&evt),
            verdict,
        });
        if self.on.fires(verdict) {
            self.fwd.forward(&evt);
        }
        verdict
    }
}

pub fn build_fwd(fw: &FwdSpec, all_erased: bool, nested_clock_tag: &mut u32) -> Fwd {
    *nested_clock_tag += 1;
    let tag = *nested_clock_tag;
    let when = if fw.via.is_macro() {
        fw.when.as_ref().map(|w| build_f(w, all_erased))
    } else {
        None
    };
    let f = build_f(&fw.filter, all_erased);
    let e = build_e(&fw.emitter, all_erased, nested_clock_tag);
    Fwd {
        rt: Runtime::new()
            .with_emitter(e)
            .with_filter(f)
            .with_ctxt(ListCtxt::new(&fw.ctxt))
            .with_clock(K::new(tag, fw.clock)),
        when,
        via: fw.via,
        a: fw.a,
    }
}

// ---------------------------------------------------------------------------------------------
// roots: the top node of a tree is NOT preceded by an erasure, so a root leaf, the operands of a root
// `And`/`Or`, the filter of a root `Wrap(from_filter)` and the filter/emitter of a root nested runtime
// are handed the props generically — `And<own, ambient>` exactly as `emit_core::emit` builds them.
// (Non-recursive, so no instantiation blow-up.)

pub enum FH {
    Plain(F),
    Audit(AuditFilter),
    And(And<F, F>),
    Or(Or<F, F>),
}

impl Filter for FH {
    fn matches<E: ToEvent>(&self, evt: E) -> bool {
        match self {
            FH::Plain(f) => f.matches(evt),
            FH::Audit(f) => f.matches(evt),
            FH::And(f) => f.matches(evt),
            FH::Or(f) => f.matches(evt),
        }
    }
}

pub fn build_fh(s: &FS, all_erased: bool) -> FH {
    if all_erased {
        return FH::Plain(build_f(s, true));
    }
    match s {
        FS::And(x, y) => FH::And(build_f(x, false).and_when(build_f(y, false))),
        FS::Or(x, y) => FH::Or(build_f(x, false).or_when(build_f(y, false))),
        FS::Audit { id, pred, on, fwd } => FH::Audit(build_audit(*id, pred, *on, fwd, false)),
        s => FH::Plain(build_f(s, false)),
    }
}

pub enum EH {
    Plain(E),
    And(And<E, E>),
    WrapFilter(Wrap<E, wrapping::FromFilter<F>>),
    Rt(NestedRt),
    Fwd(Fwd),
}

impl Emitter for EH {
    fn emit<T: ToEvent>(&self, evt: T) {
        match self {
            EH::Plain(e) => e.emit(evt),
            EH::And(e) => e.emit(evt),
            EH::WrapFilter(e) => e.emit(evt),
            EH::Rt(e) => Emitter::emit(e, evt),
            EH::Fwd(e) => e.emit(evt),
        }
    }

    fn blocking_flush(&self, timeout: Duration) -> bool {
        match self {
            EH::Plain(e) => e.blocking_flush(timeout),
            EH::And(e) => e.blocking_flush(timeout),
            EH::WrapFilter(e) => e.blocking_flush(timeout),
            EH::Rt(e) => Emitter::blocking_flush(e, timeout),
            EH::Fwd(e) => e.blocking_flush(timeout),
        }
    }
}

pub fn build_eh(s: &ES, all_erased: bool, nested_clock_tag: &mut u32) -> EH {
    if all_erased {
        return EH::Plain(build_e(s, true, nested_clock_tag));
    }
    match s {
        ES::And(x, y) => {
            let x = build_e(x, false, nested_clock_tag);
            let y = build_e(y, false, nested_clock_tag);
            EH::And(x.and_to(y))
        }
        ES::Wrap(x, WS::Filter(f)) => {
            let f = build_f(f, false);
            let x = build_e(x, false, nested_clock_tag);
            EH::WrapFilter(x.wrap_emitter(wrapping::from_filter(f)))
        }
        ES::Rt {
            emitter,
            filter,
            ctxt,
            clock,
        } => {
            *nested_clock_tag += 1;
            let tag = *nested_clock_tag;
            let f = build_f(filter, false);
            let e = build_e(emitter, false, nested_clock_tag);
            EH::Rt(
                Runtime::new()
                    .with_emitter(e)
                    .with_filter(f)
                    .with_ctxt(ListCtxt::new(ctxt))
                    .with_clock(K::new(tag, *clock)),
            )
        }
        ES::Fwd(fw) => EH::Fwd(build_fwd(fw, false, nested_clock_tag)),
        s => EH::Plain(build_e(s, false, nested_clock_tag)),
    }
}
