//! Case data for C01: everything a case needs is plain serialisable data (events, ambient lists,
//! filter / destination / wrapping trees, entry point). The real emit values are built from it by
//! `trees.rs`, the reference verdict and deliveries are computed from it by `model.rs`.

use serde::{Deserialize, Serialize};

/// The key alphabet: six letters plus the empty key and a non-ASCII key. `a` and `b` are also the
/// identifiers the macro call sites capture, so macro-captured and base props collide often.
///
/// Indices 8.. are the TYPED keys (never produced by the general key strategy): the well-known `lvl` and
/// `evt_kind`, a numeric key `n` and a boolean key `flag`. Each has its own value set (main.rs) in which
/// "casts to the pulled type" is unambiguous from the documentation.
pub const KEYS: [&str; 12] = ["a", "b", "c", "d", "e", "f", "", "é", "lvl", "evt_kind", "n", "flag"];
pub const KEY_LVL: u8 = 8;
pub const KEY_KIND: u8 = 9;
pub const KEY_N: u8 = 10;
pub const KEY_FLAG: u8 = 11;

/// The typed lookups every recording leaf performs and the typed predicates refer to:
/// slot 0 = `pull::<Level>("lvl")`, 1 = `pull::<Kind>("evt_kind")`, 2 = `pull::<i64>("n")`,
/// 3 = `pull::<bool>("flag")`.
pub const SLOT_KEYS: [u8; 4] = [KEY_LVL, KEY_KIND, KEY_N, KEY_FLAG];
pub const LEVEL_NAMES: [&str; 4] = ["debug", "info", "warn", "error"];
pub const KIND_NAMES: [&str; 2] = ["span", "metric"];
pub static LEVELS: [emit::Level; 4] = [emit::Level::Debug, emit::Level::Info, emit::Level::Warn, emit::Level::Error];
pub static KINDS: [emit::Kind; 2] = [emit::Kind::Span, emit::Kind::Metric];
pub const SEGS: [&str; 4] = ["m0", "m1", "é", "x_9"];
pub const TEXTS: [&str; 6] = ["", "t", " and ", "é!", "x", "0"];
pub const STRS: [&str; 13] = [
    "", "x", "y", "é", "1", "error", "warn", "info", "debug", "trace", "span", "metric", "spam",
];

pub fn key(k: u8) -> &'static str {
    KEYS[k as usize % KEYS.len()]
}

#[derive(Serialize, Deserialize, Debug, Clone, PartialEq)]
pub enum Val {
    I(i64),
    S(u8),
    B(bool),
    /// a real `emit::Level` value (index into LEVELS)
    L(u8),
    /// a real `emit::Kind` value (index into KINDS)
    K(u8),
}

impl Val {
    pub fn text(&self) -> String {
        match self {
            Val::I(i) => i.to_string(),
            Val::S(s) => STRS[*s as usize % STRS.len()].to_string(),
            Val::B(b) => b.to_string(),
            Val::L(l) => LEVEL_NAMES[*l as usize % 4].to_string(),
            Val::K(k) => KIND_NAMES[*k as usize % 2].to_string(),
        }
    }
}

impl emit::value::ToValue for Val {
    fn to_value(&self) -> emit::Value<'_> {
        match self {
            Val::I(i) => emit::Value::from(*i),
            Val::S(s) => emit::Value::from(STRS[*s as usize % STRS.len()]),
            Val::B(b) => emit::Value::from(*b),
            Val::L(l) => emit::value::ToValue::to_value(&LEVELS[*l as usize % 4]),
            Val::K(k) => emit::value::ToValue::to_value(&KINDS[*k as usize % 2]),
        }
    }
}

/// (seconds, nanoseconds) since the Unix epoch.
#[derive(Serialize, Deserialize, Debug, Clone, Copy, PartialEq, Eq, PartialOrd, Ord)]
pub struct Ts(pub u32, pub u32);

impl Ts {
    pub fn nanos(&self) -> u128 {
        self.0 as u128 * 1_000_000_000 + (self.1 % 1_000_000_000) as u128
    }
    pub fn real(&self) -> emit::Timestamp {
        emit::Timestamp::from_unix(std::time::Duration::new(self.0 as u64, self.1 % 1_000_000_000))
            .expect("in range")
    }
}

#[derive(Serialize, Deserialize, Debug, Clone, PartialEq)]
pub enum ExtSpec {
    None,
    Point(Ts),
    /// start..end; empty (start == end) and inverted (start > end) ranges are generated on purpose
    Range(Ts, Ts),
}

#[derive(Serialize, Deserialize, Debug, Clone, PartialEq)]
pub enum TplPart {
    Text(u8),
    Hole(u8),
}

#[derive(Serialize, Deserialize, Debug, Clone)]
pub struct EvSpec {
    pub mdl: Vec<u8>,
    pub tpl: Vec<TplPart>,
    pub extent: ExtSpec,
    pub props: Vec<(u8, Val)>,
}

#[derive(Serialize, Deserialize, Debug, Clone, Copy, PartialEq)]
pub enum ExtShape {
    None,
    Point,
    Range,
}

/// Predicates of filter leaves, each with a one-line logical definition (model.rs) and a real
/// evaluation against the `emit::Event` the leaf is handed (trees.rs).
#[derive(Serialize, Deserialize, Debug, Clone, PartialEq)]
pub enum Pred {
    Const(bool),
    /// the module's first segment is SEGS[i]
    MdlFirst(u8),
    /// the module has exactly n segments
    MdlLen(u8),
    /// some property has this key
    HasKey(u8),
    /// the FIRST property with this key has this value text
    FirstValIs(u8, Val),
    ExtentIs(ExtShape),
    /// the event has an extent and its point (end) is strictly before ts
    TsBefore(Ts),
    /// the real `emit::level::min_filter(LEVELS[min])` (`.treat_unleveled_as(LEVELS[d])` when given),
    /// evaluated on the event exactly as the leaf receives it
    MinLevel { min: u8, default: Option<u8> },
    /// the real `emit::kind::is_span_filter()` (0) / `is_metric_filter()` (1)
    KindIs(u8),
    /// `evt.props().pull::<T, _>(key).is_some()` for typed slot 0..4 (Level@lvl, Kind@evt_kind, i64@n, bool@flag)
    PullSome(u8),
}

impl Pred {
    /// the typed slot this predicate looks up, if it is a typed-lookup predicate
    pub fn typed_slot(&self) -> Option<usize> {
        match self {
            Pred::MinLevel { .. } => Some(0),
            Pred::KindIs(_) => Some(1),
            Pred::PullSome(s) => Some(*s as usize % 4),
            _ => None,
        }
    }
}

/// The entry point a NESTED emission goes through: a destination leaf (`ES::Fwd`) or a filter leaf that
/// logs its decision (`FS::Audit`) re-emits the event it is handed into ANOTHER runtime this way, while the
/// emission that reached it is still in flight on the same thread.
#[derive(Serialize, Deserialize, Debug, Clone, Copy, PartialEq)]
pub enum Via {
    /// `emit_core::emit(rt.emitter(), rt.filter(), rt.ctxt(), rt.clock(), &evt)`
    Core,
    /// `rt.emit(&evt)`
    RtEmit,
    /// `<Runtime as Emitter>::emit(rt, &evt)`
    RtAsEmitter,
    /// `emit::emit!(rt: rt, [when: w,] evt: &evt)`
    MacroEvt,
    /// `emit::emit!(rt: rt, [when: w,] evt: &evt, "fwd override")`
    MacroEvtTpl,
    /// `emit::emit!(rt: rt, [when: w,] mdl: evt.mdl(), extent: evt.extent(), props: evt.props(), "<literal>")`:
    /// site 0 = `"fwd plain"`, site 1 = `"fwd {a}"` capturing the leaf's `a`
    MacroTpl(u8),
    /// the level macros `debug! / info! / warn! / error!` (index into LEVELS) with
    /// `rt:, [when:,] mdl:, extent:, props:, "leveled"`: `lvl` is captured in front of the incoming props
    Level(u8),
}

pub const VIA_TPL_SITES: u8 = 2;

impl Via {
    pub fn is_macro(&self) -> bool {
        matches!(self, Via::MacroEvt | Via::MacroEvtTpl | Via::MacroTpl(_) | Via::Level(_))
    }
    pub fn class(&self) -> &'static str {
        match self {
            Via::Core => "nested-via:core-emit",
            Via::RtEmit => "nested-via:runtime-emit",
            Via::RtAsEmitter => "nested-via:runtime-as-emitter",
            Via::MacroEvt => "nested-via:macro-evt",
            Via::MacroEvtTpl => "nested-via:macro-evt-tpl",
            Via::MacroTpl(_) => "nested-via:macro-template",
            Via::Level(_) => "nested-via:level-macro",
        }
    }
}

/// When a filter leaf that logs its decision emits into its audit runtime.
#[derive(Serialize, Deserialize, Debug, Clone, Copy, PartialEq)]
pub enum AuditOn {
    Always,
    Accept,
    Reject,
}

impl AuditOn {
    pub fn fires(&self, verdict: bool) -> bool {
        match self {
            AuditOn::Always => true,
            AuditOn::Accept => verdict,
            AuditOn::Reject => !verdict,
        }
    }
}

/// A nested emission: the target runtime (own destination tree, own filter, own list-backed ctxt, own
/// clock), the entry point used, and an optional call-site filter (only the macro entry points carry one).
#[derive(Serialize, Deserialize, Debug, Clone)]
pub struct FwdSpec {
    pub via: Via,
    /// the value the `"fwd {a}"` site captures
    pub a: i64,
    pub when: Option<FS>,
    pub emitter: ES,
    pub filter: FS,
    pub ctxt: Vec<(u8, Val)>,
    pub clock: Option<Ts>,
}

impl FwdSpec {
    pub fn uses_when(&self) -> bool {
        self.via.is_macro() && self.when.is_some()
    }
    pub fn number(&mut self, next: &mut u32) {
        if let Some(w) = self.when.as_mut() {
            w.number(next);
        }
        self.filter.number(next);
        self.emitter.number(next);
    }
    pub fn has_erased(&self) -> bool {
        self.emitter.has_erased() || self.filter.has_erased() || self.when.as_ref().map(|w| w.has_erased()).unwrap_or(false)
    }
    pub fn nodes(&self) -> usize {
        self.emitter.nodes() + self.filter.nodes() + self.when.as_ref().map(|w| w.nodes()).unwrap_or(0)
    }
}

#[derive(Serialize, Deserialize, Debug, Clone)]
pub enum FS {
    /// recording leaf implementing `Filter` directly
    Leaf { id: u32, pred: Pred },
    /// recording leaf that LOGS ITS DECISION: evaluates `pred`, records what it saw, and — when `on`
    /// fires for the verdict — emits the event it was handed into its own audit runtime through `fwd.via`
    /// before answering
    Audit { id: u32, pred: Pred, on: AuditOn, fwd: Box<FwdSpec> },
    /// recording leaf built with `emit::filter::from_fn`
    FromFn { id: u32, pred: Pred },
    /// a plain `fn(Event<&dyn ErasedProps>) -> bool` pointer out of a fixed table
    FnPtr(u8),
    Empty,
    Always,
    /// the real `MinLevelFilter` as a node of its own (not recording)
    MinLevel { min: u8, default: Option<u8> },
    /// the real `KindFilter` as a node of its own (not recording)
    KindIs(u8),
    And(Box<FS>, Box<FS>),
    Or(Box<FS>, Box<FS>),
    Opt(Option<Box<FS>>),
    Boxed(Box<FS>),
    Arc(Box<FS>),
    Ref(Box<FS>),
    /// `Box<dyn ErasedFilter + Send + Sync>`
    Erased(Box<FS>),
    /// `&dyn ErasedFilter` (no auto traits)
    ErasedPlain(Box<FS>),
    AssertInternal(Box<FS>),
}

#[derive(Serialize, Deserialize, Debug, Clone)]
pub enum WS {
    /// `wrapping::from_filter(filter)`
    Filter(FS),
    /// `wrapping::from_fn` that prepends one property and forwards
    Prepend(u8, Val),
    Ref(Box<WS>),
    /// `Box<dyn ErasedWrapping + Send + Sync>`
    Erased(Box<WS>),
    /// `&dyn ErasedWrapping`
    ErasedPlain(Box<WS>),
}

#[derive(Serialize, Deserialize, Debug, Clone)]
pub enum ES {
    /// recording leaf implementing `Emitter` directly; `flush` is its scripted flush answer
    Leaf { id: u32, flush: bool },
    /// recording leaf built with `emit::emitter::from_fn`
    FromFn { id: u32 },
    /// a plain `fn(Event<&dyn ErasedProps>)` pointer out of a fixed table
    FnPtr(u8),
    Empty,
    And(Box<ES>, Box<ES>),
    Opt(Option<Box<ES>>),
    Boxed(Box<ES>),
    Arc(Box<ES>),
    Ref(Box<ES>),
    Erased(Box<ES>),
    ErasedPlain(Box<ES>),
    AssertInternal(Box<ES>),
    /// `inner.wrap_emitter(wrapping)`
    Wrap(Box<ES>, WS),
    /// a forwarding destination: re-emits every event it receives into ANOTHER runtime (own destination
    /// tree, filter, ctxt, clock) through a generated entry point (generic or macro, with or without `when:`)
    Fwd(Box<FwdSpec>),
    /// a nested `Runtime` used as an emitter, with its own filter, ctxt (list backed) and clock
    Rt {
        emitter: Box<ES>,
        filter: FS,
        ctxt: Vec<(u8, Val)>,
        clock: Option<Ts>,
    },
}

#[derive(Serialize, Deserialize, Debug, Clone, Copy, PartialEq)]
pub enum CtxtKind {
    /// `emit::Empty` as the ctxt (ambient list ignored)
    Empty,
    /// harness ctxt serving the ambient list in order
    List,
    /// the real `ThreadLocalCtxt` with entered frame(s); ambient de-duplicated first (frames carry
    /// distinct keys), enumeration order of the ambient part is unspecified (hash map)
    ThreadLocal,
}

#[derive(Serialize, Deserialize, Debug, Clone, Copy, PartialEq)]
pub enum Entry {
    /// `emit_core::emit(emitter, filter, ctxt, clock, evt)`
    Core,
    /// `Runtime::emit`
    RtEmit,
    /// `<Runtime as Emitter>::emit`
    RtAsEmitter,
    /// `emit::emit!(rt: .., [when: ..,] mdl: .., extent: .., props: base, "<literal>", ...)`, site 0..4
    MacroEmit(u8),
    /// `emit::emit!(rt: .., [when: ..,] evt: ..)`
    MacroEvt,
    /// `emit::emit!(rt: .., [when: ..,] evt: .., "literal")` (template replaced)
    MacroEvtTpl,
}

impl Entry {
    pub fn is_macro(&self) -> bool {
        matches!(self, Entry::MacroEmit(_) | Entry::MacroEvt | Entry::MacroEvtTpl)
    }
}

/// The state of the calling thread when the (outer) emission is made.
#[derive(Serialize, Deserialize, Debug, Clone, Copy, PartialEq, Default)]
pub enum ThreadState {
    #[default]
    Normal,
    /// from the `Drop` of a guard that runs while the thread unwinds from a (scripted, later caught) panic:
    /// `std::thread::panicking()` is true for the whole emission, nested emissions included
    Unwinding,
}

#[derive(Serialize, Deserialize, Debug, Clone)]
pub struct Case {
    pub evt: EvSpec,
    pub ambient: Vec<(u8, Val)>,
    pub ctxt: CtxtKind,
    pub clock: Option<Ts>,
    pub filter: FS,
    /// call-site filter; only the macro entry points can carry one
    pub when: Option<FS>,
    pub dest: ES,
    pub entry: Entry,
    /// emit through an `AmbientRuntime`-shaped runtime of `&dyn Erased* + Send + Sync` references
    pub erased_rt: bool,
    /// values captured by the macro call sites (`a`: i64, `b`: &'static str out of STRS)
    pub macro_a: i64,
    pub macro_b: u8,
    /// pass the event by value instead of by reference where the entry point allows it
    pub by_value: bool,
    /// thread state in which the emission through the runtime is made
    #[serde(default)]
    pub state: ThreadState,
}

// ---------------------------------------------------------------------------------------------
// numbering and shape queries

pub const ID_FILTER: u32 = 1;
pub const ID_WHEN: u32 = 1000;
pub const ID_DEST: u32 = 2000;
pub const ID_FNPTR_FILTER: u32 = 9000;
pub const ID_FNPTR_EMITTER: u32 = 9100;

impl FS {
    pub fn number(&mut self, next: &mut u32) {
        match self {
            FS::Leaf { id, .. } | FS::FromFn { id, .. } => {
                *id = *next;
                *next += 1;
            }
            FS::Audit { id, fwd, .. } => {
                *id = *next;
                *next += 1;
                fwd.number(next);
            }
            FS::FnPtr(_) | FS::Empty | FS::Always | FS::MinLevel { .. } | FS::KindIs(_) | FS::Opt(None) => {}
            FS::And(a, b) | FS::Or(a, b) => {
                a.number(next);
                b.number(next);
            }
            FS::Opt(Some(a))
            | FS::Boxed(a)
            | FS::Arc(a)
            | FS::Ref(a)
            | FS::Erased(a)
            | FS::ErasedPlain(a)
            | FS::AssertInternal(a) => a.number(next),
        }
    }

    pub fn composites(&self) -> usize {
        match self {
            FS::Leaf { .. } | FS::Audit { .. } | FS::FromFn { .. } | FS::FnPtr(_) | FS::Empty | FS::Always | FS::MinLevel { .. } | FS::KindIs(_) => 0,
            FS::Opt(None) => 1,
            FS::And(a, b) | FS::Or(a, b) => 1 + a.composites() + b.composites(),
            FS::Opt(Some(a))
            | FS::Boxed(a)
            | FS::Arc(a)
            | FS::Ref(a)
            | FS::Erased(a)
            | FS::ErasedPlain(a)
            | FS::AssertInternal(a) => 1 + a.composites(),
        }
    }

    pub fn has_erased(&self) -> bool {
        match self {
            FS::Erased(_) | FS::ErasedPlain(_) => true,
            FS::Audit { fwd, .. } => fwd.has_erased(),
            FS::Leaf { .. } | FS::FromFn { .. } | FS::FnPtr(_) | FS::Empty | FS::Always | FS::MinLevel { .. } | FS::KindIs(_) | FS::Opt(None) => false,
            FS::And(a, b) | FS::Or(a, b) => a.has_erased() || b.has_erased(),
            FS::Opt(Some(a)) | FS::Boxed(a) | FS::Arc(a) | FS::Ref(a) | FS::AssertInternal(a) => a.has_erased(),
        }
    }

    pub fn nodes(&self) -> usize {
        match self {
            FS::Leaf { .. } | FS::FromFn { .. } | FS::FnPtr(_) | FS::Empty | FS::Always | FS::MinLevel { .. } | FS::KindIs(_) | FS::Opt(None) => 1,
            FS::Audit { fwd, .. } => 1 + fwd.nodes(),
            FS::And(a, b) | FS::Or(a, b) => 1 + a.nodes() + b.nodes(),
            FS::Opt(Some(a))
            | FS::Boxed(a)
            | FS::Arc(a)
            | FS::Ref(a)
            | FS::Erased(a)
            | FS::ErasedPlain(a)
            | FS::AssertInternal(a) => 1 + a.nodes(),
        }
    }
}

impl FS {
    /// the leaf's predicate as a `Pred`, for the leaves that have one
    pub fn leaf_pred(&self) -> Option<Pred> {
        match self {
            FS::Leaf { pred, .. } | FS::Audit { pred, .. } | FS::FromFn { pred, .. } => Some(pred.clone()),
            FS::MinLevel { min, default } => Some(Pred::MinLevel {
                min: *min,
                default: *default,
            }),
            FS::KindIs(k) => Some(Pred::KindIs(*k)),
            _ => None,
        }
    }

    /// Visit every leaf predicate with `generic` = the leaf is handed the event's props without any
    /// type erasure when this tree is the root of a generic runtime's filter (the leaf is the root or a
    /// child of a root `And`/`Or`, and is not a `from_fn` closure, which erases by construction).
    pub fn visit_preds(&self, root: bool, under_root: bool, f: &mut impl FnMut(&Pred, bool)) {
        match self {
            FS::Leaf { pred, .. } => f(pred, root || under_root),
            // held without an erasure in front of it only as the root (trees::FH::Audit)
            FS::Audit { pred, .. } => f(pred, root),
            FS::FromFn { pred, .. } => f(pred, false),
            FS::MinLevel { .. } | FS::KindIs(_) => f(&self.leaf_pred().unwrap(), root || under_root),
            FS::FnPtr(_) | FS::Empty | FS::Always | FS::Opt(None) => {}
            FS::And(a, b) | FS::Or(a, b) => {
                a.visit_preds(false, root, f);
                b.visit_preds(false, root, f);
            }
            FS::Opt(Some(a))
            | FS::Boxed(a)
            | FS::Arc(a)
            | FS::Ref(a)
            | FS::Erased(a)
            | FS::ErasedPlain(a)
            | FS::AssertInternal(a) => a.visit_preds(false, false, f),
        }
    }
}

impl WS {
    pub fn number(&mut self, next: &mut u32) {
        match self {
            WS::Filter(f) => f.number(next),
            WS::Prepend(..) => {}
            WS::Ref(w) | WS::Erased(w) | WS::ErasedPlain(w) => w.number(next),
        }
    }

    pub fn has_erased(&self) -> bool {
        match self {
            WS::Filter(f) => f.has_erased(),
            WS::Prepend(..) => false,
            WS::Ref(w) => w.has_erased(),
            WS::Erased(_) | WS::ErasedPlain(_) => true,
        }
    }

    /// the wrapping with the by-reference / erased layers peeled off
    pub fn core(&self) -> &WS {
        match self {
            WS::Ref(w) | WS::Erased(w) | WS::ErasedPlain(w) => w.core(),
            w => w,
        }
    }
}

impl ES {
    pub fn number(&mut self, next: &mut u32) {
        match self {
            ES::Leaf { id, .. } | ES::FromFn { id } => {
                *id = *next;
                *next += 1;
            }
            ES::FnPtr(_) | ES::Empty | ES::Opt(None) => {}
            ES::And(a, b) => {
                a.number(next);
                b.number(next);
            }
            ES::Opt(Some(a))
            | ES::Boxed(a)
            | ES::Arc(a)
            | ES::Ref(a)
            | ES::Erased(a)
            | ES::ErasedPlain(a)
            | ES::AssertInternal(a) => a.number(next),
            ES::Wrap(a, w) => {
                w.number(next);
                a.number(next);
            }
            ES::Rt { emitter, filter, .. } => {
                filter.number(next);
                emitter.number(next);
            }
            ES::Fwd(fw) => fw.number(next),
        }
    }

    pub fn composites(&self) -> usize {
        match self {
            ES::Leaf { .. } | ES::FromFn { .. } | ES::FnPtr(_) | ES::Empty => 0,
            ES::Opt(None) => 1,
            ES::And(a, b) => 1 + a.composites() + b.composites(),
            ES::Opt(Some(a))
            | ES::Boxed(a)
            | ES::Arc(a)
            | ES::Ref(a)
            | ES::Erased(a)
            | ES::ErasedPlain(a)
            | ES::AssertInternal(a) => 1 + a.composites(),
            ES::Wrap(a, _) => 1 + a.composites(),
            ES::Rt { emitter, .. } => 1 + emitter.composites(),
            ES::Fwd(fw) => 1 + fw.emitter.composites(),
        }
    }

    pub fn has_erased(&self) -> bool {
        match self {
            ES::Erased(_) | ES::ErasedPlain(_) => true,
            ES::Leaf { .. } | ES::FromFn { .. } | ES::FnPtr(_) | ES::Empty | ES::Opt(None) => false,
            ES::And(a, b) => a.has_erased() || b.has_erased(),
            ES::Opt(Some(a)) | ES::Boxed(a) | ES::Arc(a) | ES::Ref(a) | ES::AssertInternal(a) => a.has_erased(),
            ES::Wrap(a, w) => a.has_erased() || w.has_erased(),
            ES::Rt { emitter, filter, .. } => emitter.has_erased() || filter.has_erased(),
            ES::Fwd(fw) => fw.has_erased(),
        }
    }

    pub fn has_nested_rt(&self) -> bool {
        match self {
            ES::Rt { .. } => true,
            ES::Fwd(fw) => fw.emitter.has_nested_rt(),
            ES::Leaf { .. } | ES::FromFn { .. } | ES::FnPtr(_) | ES::Empty | ES::Opt(None) => false,
            ES::And(a, b) => a.has_nested_rt() || b.has_nested_rt(),
            ES::Opt(Some(a))
            | ES::Boxed(a)
            | ES::Arc(a)
            | ES::Ref(a)
            | ES::Erased(a)
            | ES::ErasedPlain(a)
            | ES::AssertInternal(a)
            | ES::Wrap(a, _) => a.has_nested_rt(),
        }
    }

    pub fn has_wrap(&self) -> bool {
        match self {
            ES::Wrap(..) => true,
            ES::Leaf { .. } | ES::FromFn { .. } | ES::FnPtr(_) | ES::Empty | ES::Opt(None) => false,
            ES::And(a, b) => a.has_wrap() || b.has_wrap(),
            ES::Opt(Some(a))
            | ES::Boxed(a)
            | ES::Arc(a)
            | ES::Ref(a)
            | ES::Erased(a)
            | ES::ErasedPlain(a)
            | ES::AssertInternal(a) => a.has_wrap(),
            ES::Rt { emitter, .. } => emitter.has_wrap(),
            ES::Fwd(fw) => fw.emitter.has_wrap(),
        }
    }

    pub fn nodes(&self) -> usize {
        match self {
            ES::Leaf { .. } | ES::FromFn { .. } | ES::FnPtr(_) | ES::Empty | ES::Opt(None) => 1,
            ES::And(a, b) => 1 + a.nodes() + b.nodes(),
            ES::Opt(Some(a))
            | ES::Boxed(a)
            | ES::Arc(a)
            | ES::Ref(a)
            | ES::Erased(a)
            | ES::ErasedPlain(a)
            | ES::AssertInternal(a) => 1 + a.nodes(),
            ES::Wrap(a, w) => {
                1 + a.nodes()
                    + match w.core() {
                        WS::Filter(f) => f.nodes(),
                        _ => 1,
                    }
            }
            ES::Rt { emitter, filter, .. } => 1 + emitter.nodes() + filter.nodes(),
            ES::Fwd(fw) => 1 + fw.nodes(),
        }
    }
}

impl Case {
    /// A copy with every leaf numbered (ids in the generated value are ignored).
    pub fn numbered(&self) -> Case {
        let mut c = self.clone();
        let mut n = ID_FILTER;
        c.filter.number(&mut n);
        let mut n = ID_WHEN;
        if let Some(w) = c.when.as_mut() {
            w.number(&mut n);
        }
        let mut n = ID_DEST;
        c.dest.number(&mut n);
        c
    }
}
