// stub: check for C01 not built yet
fn main() {
    eprintln!("C01: check not built yet");
    std::process::exit(2);
}
