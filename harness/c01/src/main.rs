mod model;
mod run;
mod spec;
mod statics;
mod trees;

use spec::*;
use vcore::proptest::prelude::*;
use vcore::Level;

const RULE: &str = "a case is (event: module of 1-3 segments, template of text/hole parts, extent none/point/range incl. empty and inverted ranges, own props over an 8-key alphabet incl. \"\" and \"é\" with frequent duplicates) x (ambient props served by Empty / a list-backed harness Ctxt / the real ThreadLocalCtxt with two entered frames) x (clock none/fixed) x (runtime filter tree) x (optional call-site filter tree) x (destination tree incl. Wrap(from_filter|from_fn prepend), nested Runtime-as-emitter, forwarding leaf = NESTED EMISSION into another runtime with its own destination tree/filter/list ctxt/clock through emit_core::emit | Runtime::emit | <Runtime as Emitter>::emit | emit!(evt:) | emit!(evt:, template) | emit!(mdl/extent/props, template [capturing a]) | debug!/info!/warn!/error!, with or without a call-site when:, at depth 1 and 2; filter leaves that log their decision by such an emission into an audit runtime) x (entry point: emit_core::emit, Runtime::emit, <Runtime as Emitter>::emit, emit::emit! with mdl/extent/props at 4 call sites, emit::emit!(evt:), emit::emit!(evt:, template)) x (generic runtime | AmbientRuntime-shaped runtime of &dyn Erased* references) x (thread state of the emission: normal | from a Drop guard running while the thread unwinds from a scripted, caught panic). Trees are recursive enums whose variants hold the real emit combinators (And/Or/Option/Box/Arc/&/dyn Erased*/AssertInternal/Wrap/Runtime) instantiated at the enum itself, depth <=4, <=14 nodes. Every case is run on the tree as generated, on the same tree with every node behind dyn Erased*, and with the other runtime flavour; then the event is emitted straight to the destination and the destination is flushed. Non-trivial = the effective filter tree and the destination tree each contain >=1 composite AND (ambient props non-empty OR a key is duplicated in the full event OR a call-site filter is in effect).";

const ASSUMPTIONS: [&str; 8] = [
    "the oracle is a reference evaluator over the case data (model.rs) written from the property text: model event = own props then ambient props, own extent else the clock's reading; effective filter = call-site filter when given else the runtime's; And=both, Or=either, Option None=pass everything / deliver nothing, Wrap(from_filter g)=inner iff g accepts the event at that position, nested Runtime used as an emitter applies its own clock, ctxt, filter in that order (Runtime::emit rustdoc), every other wrapper is transparent",
    "how often and in which order filter leaves are evaluated (short-circuiting, whether the runtime's filter is consulted at all when a call-site filter is given) is don't-care: recorded, never asserted; what IS asserted is that every evaluated leaf saw the model event of its position and answered by its predicate's logical value on it",
    "ambient properties served by ThreadLocalCtxt come from a hash map: their relative order is unspecified and compared as a multiset; the pushed frames carry distinct keys (de-duplicated by the harness first)",
    "the order of the properties captured by one macro call site is C02's concern: the call sites used here capture `a` then `b`, for which source order and sorted order coincide; captured properties precede the `props:` base properties (emit_props_precedence)",
    "the recursive enums add `evt.to_event().erase()` (props type erasure, as filter::FromFn/emitter::FromFn do) at every enum node to keep the number of generic instantiations finite; the statically typed generator `static-shapes` has no such layer",
    "values are compared by their Display text (type fidelity is C19's concern); rendering = text verbatim, a hole is the first value of its label or `{label}`",
    "a nested emission (a destination leaf or a filter leaf of the harness that emits the event it is handed into ANOTHER runtime while the emission that reached it is still in flight on the same thread) is an emission like any other: the target runtime's clock fills a missing extent, its ambient props follow the incoming ones, the effective filter (call-site filter if the entry point carries one, else the target runtime's) decides, each destination of the target runtime receives it exactly once; level macros put `lvl` and the template site its captured `a` in front of the base props. A filter leaf that logs its decision owes its audit runtime one such emission per OBSERVED evaluation (how often a filter leaf is evaluated stays don't-care); the forwarding leaf's flush forwards to the destination it forwards into (harness definition)",
    "blocking_flush: timeout values are not asserted, only the boolean result and that each reachable recording leaf is flushed exactly once",
];

fn key_s() -> impl Strategy<Value = u8> {
    prop_oneof![3 => 0u8..3, 2 => 0u8..8]
}

fn val_s() -> impl Strategy<Value = Val> {
    prop_oneof![
        3 => (-1i64..=2).prop_map(Val::I),
        2 => (0u8..5).prop_map(Val::S),
        1 => any::<bool>().prop_map(Val::B),
    ]
}

fn ts_s() -> impl Strategy<Value = Ts> {
    (
        0u32..4,
        prop_oneof![
            3 => Just(0u32),
            1 => Just(1u32),
            1 => Just(999_999_999u32),
            1 => 0u32..1_000_000_000,
        ],
    )
        .prop_map(|(s, n)| Ts(s, n))
}

fn ext_s() -> impl Strategy<Value = ExtSpec> {
    prop_oneof![
        4 => Just(ExtSpec::None),
        3 => ts_s().prop_map(ExtSpec::Point),
        3 => (ts_s(), ts_s()).prop_map(|(a, b)| ExtSpec::Range(a, b)),
        1 => ts_s().prop_map(|a| ExtSpec::Range(a, a)),
    ]
}

/// An entry under one of the typed keys, from that key's own value set: half castable to the type the
/// key is pulled as, half not (see model::cast_text).
fn typed_entry_s() -> impl Strategy<Value = (u8, Val)> {
    let lvl = prop_oneof![
        3 => (5u8..=8).prop_map(Val::S),          // "error" "warn" "info" "debug"
        2 => (0u8..4).prop_map(Val::L),           // real emit::Level values
        2 => Just(Val::S(9)),                     // "trace": not a level
        1 => Just(Val::I(7)),
        1 => Just(Val::B(true)),
    ];
    let kind = prop_oneof![
        2 => (10u8..=11).prop_map(Val::S),        // "span" "metric"
        2 => (0u8..2).prop_map(Val::K),           // real emit::Kind values
        3 => Just(Val::S(12)),                    // "spam": not a kind
        1 => Just(Val::I(0)),
    ];
    let n = prop_oneof![
        1 => (-1i64..=7).prop_map(Val::I),
        1 => prop_oneof![Just(Val::S(9)), Just(Val::S(12))],
    ];
    let flag = prop_oneof![
        1 => any::<bool>().prop_map(Val::B),
        1 => prop_oneof![Just(Val::S(9)), Just(Val::S(12))],
    ];
    prop_oneof![
        5 => lvl.prop_map(|v| (KEY_LVL, v)),
        3 => kind.prop_map(|v| (KEY_KIND, v)),
        1 => n.prop_map(|v| (KEY_N, v)),
        1 => flag.prop_map(|v| (KEY_FLAG, v)),
    ]
}

/// General props with 0–2 typed entries spliced in at generated positions.
fn props_s(max: usize) -> impl Strategy<Value = Vec<(u8, Val)>> {
    (
        prop::collection::vec((key_s(), val_s()), 0..=max),
        prop_oneof![
            3 => Just(0usize),
            5 => Just(1usize),
            2 => Just(2usize),
        ]
        .prop_flat_map(|n| prop::collection::vec((typed_entry_s(), any::<u32>()), n..=n)),
    )
        .prop_map(|(mut general, typed)| {
            for (entry, at) in typed {
                let i = vcore::pick(at, general.len() + 1);
                general.insert(i, entry);
            }
            general
        })
}

fn typed_pred_s() -> impl Strategy<Value = Pred> {
    prop_oneof![
        4 => (0u8..4, prop::option::weighted(0.4, 0u8..4)).prop_map(|(min, default)| Pred::MinLevel { min, default }),
        3 => (0u8..2).prop_map(Pred::KindIs),
        3 => prop_oneof![3 => Just(0u8), 2 => Just(1u8), 1 => Just(2u8), 1 => Just(3u8)].prop_map(Pred::PullSome),
    ]
}

fn pred_s() -> impl Strategy<Value = Pred> {
    prop_oneof![
        1 => any::<bool>().prop_map(Pred::Const),
        2 => (0u8..4).prop_map(Pred::MdlFirst),
        1 => (1u8..=3).prop_map(Pred::MdlLen),
        5 => key_s().prop_map(Pred::HasKey),
        4 => (key_s(), val_s()).prop_map(|(k, v)| Pred::FirstValIs(k, v)),
        2 => prop_oneof![Just(ExtShape::None), Just(ExtShape::Point), Just(ExtShape::Range)].prop_map(Pred::ExtentIs),
        2 => ts_s().prop_map(Pred::TsBefore),
        6 => typed_pred_s(),
    ]
}

fn via_s() -> impl Strategy<Value = Via> {
    prop_oneof![
        1 => Just(Via::Core),
        2 => Just(Via::RtEmit),
        1 => Just(Via::RtAsEmitter),
        3 => Just(Via::MacroEvt),
        1 => Just(Via::MacroEvtTpl),
        3 => (0u8..VIA_TPL_SITES).prop_map(Via::MacroTpl),
        3 => (0u8..4).prop_map(Via::Level),
    ]
}

/// A small destination tree for the runtimes below a filter leaf: recording leaves, `And`, and one more
/// level of forwarding (so a filter leaf's emission can itself be forwarded on: depth 2).
fn es_small_s() -> BoxedStrategy<ES> {
    let leaf = || {
        prop_oneof![
            6 => prop::bool::weighted(0.8).prop_map(|flush| ES::Leaf { id: 0, flush }),
            2 => Just(ES::FromFn { id: 0 }),
            1 => Just(ES::Opt(None)),
        ]
    };
    let flat = || {
        prop_oneof![
            3 => leaf(),
            1 => (leaf(), leaf()).prop_map(|(x, y)| ES::And(Box::new(x), Box::new(y))),
        ]
    };
    let rest = fwd_rest_s(false);
    prop_oneof![
        4 => flat(),
        1 => (flat(), fwd_s(flat().boxed(), rest.clone())).prop_map(|(x, fw)| ES::And(Box::new(x), Box::new(ES::Fwd(Box::new(fw))))),
        1 => fwd_s(flat().boxed(), rest).prop_map(|fw| ES::Fwd(Box::new(fw))),
    ]
    .boxed()
}

type FwdRest = (Via, i64, Option<FS>, FS, Vec<(u8, Val)>, Option<Ts>);

/// Everything of a nested emission but the destination tree. NOTE: proptest re-runs the closure of a
/// `prop_recursive` for every generated value, so strategies used inside one are built ONCE outside and
/// cloned in (a `BoxedStrategy` clone is a reference count).
fn fwd_rest_s(audit: bool) -> BoxedStrategy<FwdRest> {
    (
        via_s(),
        -1i64..=2,
        prop::option::weighted(0.45, fs_gen(2, 3, false)),
        fs_gen(2, 4, audit),
        props_s(3),
        prop::option::weighted(0.6, ts_s()),
    )
        .boxed()
}

/// A nested emission into a runtime whose destination tree comes from `emitter`.
fn fwd_s(emitter: BoxedStrategy<ES>, rest: BoxedStrategy<FwdRest>) -> impl Strategy<Value = FwdSpec> {
    (emitter, rest).prop_map(|(emitter, (via, a, when, filter, ctxt, clock))| FwdSpec { via, a, when, emitter, filter, ctxt, clock })
}

fn fs_s(depth: u32, size: u32) -> BoxedStrategy<FS> {
    fs_gen(depth, size, true)
}

/// `audit`: leaves that log their decision into an audit runtime are generated too (their own runtimes'
/// trees come from the `audit = false` strategies, so the construction terminates).
fn fs_gen(depth: u32, size: u32, audit: bool) -> BoxedStrategy<FS> {
    let plain = prop_oneof![
        8 => pred_s().prop_map(|pred| FS::Leaf { id: 0, pred }),
        3 => pred_s().prop_map(|pred| FS::FromFn { id: 0, pred }),
        1 => (0u8..3).prop_map(FS::FnPtr),
        1 => Just(FS::Empty),
        1 => Just(FS::Always),
        1 => Just(FS::Opt(None)),
        1 => (0u8..4, prop::option::weighted(0.4, 0u8..4)).prop_map(|(min, default)| FS::MinLevel { min, default }),
        1 => (0u8..2).prop_map(FS::KindIs),
    ];
    let leaf = if audit {
        prop_oneof![
            17 => plain,
            2 => (
                pred_s(),
                prop_oneof![2 => Just(AuditOn::Always), 1 => Just(AuditOn::Accept), 2 => Just(AuditOn::Reject)],
                fwd_s(es_small_s(), fwd_rest_s(false)),
            )
                .prop_map(|(pred, on, fwd)| FS::Audit { id: 0, pred, on, fwd: Box::new(fwd) }),
        ]
        .boxed()
    } else {
        plain.boxed()
    };
    leaf.prop_recursive(depth, size, 2, |inner| {
        let b = |s: BoxedStrategy<FS>| s.prop_map(Box::new);
        let i = inner.boxed();
        prop_oneof![
            4 => (b(i.clone()), b(i.clone())).prop_map(|(x, y)| FS::And(x, y)),
            4 => (b(i.clone()), b(i.clone())).prop_map(|(x, y)| FS::Or(x, y)),
            1 => b(i.clone()).prop_map(|x| FS::Opt(Some(x))),
            1 => b(i.clone()).prop_map(FS::Boxed),
            1 => b(i.clone()).prop_map(FS::Arc),
            1 => b(i.clone()).prop_map(FS::Ref),
            2 => b(i.clone()).prop_map(FS::Erased),
            1 => b(i.clone()).prop_map(FS::ErasedPlain),
            1 => b(i).prop_map(FS::AssertInternal),
        ]
    })
    .boxed()
}

fn ws_s() -> impl Strategy<Value = WS> {
    let leaf = prop_oneof![
        3 => fs_s(2, 4).prop_map(WS::Filter),
        2 => (key_s(), val_s()).prop_map(|(k, v)| WS::Prepend(k, v)),
    ];
    leaf.prop_recursive(2, 3, 1, |inner| {
        let i = inner.prop_map(Box::new).boxed();
        prop_oneof![
            1 => i.clone().prop_map(WS::Ref),
            2 => i.clone().prop_map(WS::Erased),
            1 => i.prop_map(WS::ErasedPlain),
        ]
    })
}

fn es_s() -> impl Strategy<Value = ES> {
    let leaf = prop_oneof![
        8 => prop::bool::weighted(0.8).prop_map(|flush| ES::Leaf { id: 0, flush }),
        2 => Just(ES::FromFn { id: 0 }),
        1 => (0u8..2).prop_map(ES::FnPtr),
        1 => Just(ES::Empty),
        1 => Just(ES::Opt(None)),
    ];
    // built once, cloned into the closure below (which proptest re-runs for every generated value)
    let ws = ws_s().boxed();
    let rt_rest = (fs_s(2, 4), props_s(3), prop::option::weighted(0.6, ts_s())).boxed();
    let fwd_rest = fwd_rest_s(true);
    leaf.prop_recursive(4, 12, 2, move |inner| {
        let i = inner.prop_map(Box::new).boxed();
        prop_oneof![
            6 => (i.clone(), i.clone()).prop_map(|(x, y)| ES::And(x, y)),
            1 => i.clone().prop_map(|x| ES::Opt(Some(x))),
            1 => i.clone().prop_map(ES::Boxed),
            1 => i.clone().prop_map(ES::Arc),
            1 => i.clone().prop_map(ES::Ref),
            2 => i.clone().prop_map(ES::Erased),
            1 => i.clone().prop_map(ES::ErasedPlain),
            1 => i.clone().prop_map(ES::AssertInternal),
            4 => (i.clone(), ws.clone()).prop_map(|(x, w)| ES::Wrap(x, w)),
            2 => (i.clone(), rt_rest.clone())
                .prop_map(|(emitter, (filter, ctxt, clock))| ES::Rt { emitter, filter, ctxt, clock }),
            // a destination that forwards into another runtime (nested emission), at any depth
            4 => fwd_s(i.clone().prop_map(|b| *b).boxed(), fwd_rest.clone()).prop_map(|fw| ES::Fwd(Box::new(fw))),
            // ... and one that forwards into a runtime whose destination forwards again (depth 2 on purpose;
            // the recursion above reaches it too, just rarely)
            2 => fwd_s(
                (i.clone(), fwd_s(i.prop_map(|b| *b).boxed(), fwd_rest.clone()))
                    .prop_map(|(x, fw)| ES::And(x, Box::new(ES::Fwd(Box::new(fw)))))
                    .boxed(),
                fwd_rest.clone(),
            )
            .prop_map(|fw| ES::Fwd(Box::new(fw))),
        ]
    })
}

fn ev_s() -> impl Strategy<Value = EvSpec> {
    (
        prop::collection::vec(0u8..4, 1..=3),
        prop::collection::vec(
            prop_oneof![(0u8..6).prop_map(TplPart::Text), key_s().prop_map(TplPart::Hole)],
            0..=4,
        ),
        ext_s(),
        props_s(6),
    )
        .prop_map(|(mdl, tpl, extent, props)| EvSpec { mdl, tpl, extent, props })
}

fn state_s() -> impl Strategy<Value = ThreadState> {
    prop_oneof![13 => Just(ThreadState::Normal), 7 => Just(ThreadState::Unwinding)]
}

fn entry_s() -> impl Strategy<Value = Entry> {
    prop_oneof![
        2 => Just(Entry::Core),
        2 => Just(Entry::RtEmit),
        1 => Just(Entry::RtAsEmitter),
        4 => (0u8..4).prop_map(Entry::MacroEmit),
        1 => Just(Entry::MacroEvt),
        1 => Just(Entry::MacroEvtTpl),
    ]
}

/// The shadowing scenario, spliced into a case on purpose (the independent draws above reach it too,
/// just less often): the event's OWN value for a typed key does not cast, an AMBIENT value for the same
/// key does, and (usually) a typed-lookup leaf on that key sits where it is handed the props generically
/// (an operand of the root And/Or of the effective filter, or the filter of a root Wrap of the destination).
#[derive(Debug, Clone)]
struct Shadow {
    slot: u8,
    own: u8,
    amb: u8,
    pred: Pred,
    /// 0 = leave the trees alone, 1 = leaf && filter, 2 = filter || leaf, 3 = dest.wrap(from_filter(leaf))
    place: u8,
    raw_node: bool,
}

fn shadow_s() -> impl Strategy<Value = Shadow> {
    (
        prop_oneof![5 => Just(0u8), 3 => Just(1u8), 1 => Just(2u8), 1 => Just(3u8)],
        0u8..4,
        0u8..8,
        typed_pred_s(),
        prop_oneof![1 => Just(0u8), 3 => Just(1u8), 3 => Just(2u8), 2 => Just(3u8)],
        any::<bool>(),
    )
        .prop_map(|(slot, own, amb, pred, place, raw_node)| {
            // make the leaf look at the scenario's slot
            let pred = match (slot, pred) {
                (0, p @ Pred::MinLevel { .. }) => p,
                (1, p @ Pred::KindIs(_)) => p,
                (0, _) => Pred::MinLevel { min: 2, default: None },
                (1, _) => Pred::KindIs(own % 2),
                (s, _) => Pred::PullSome(s),
            };
            Shadow { slot, own, amb, pred, place, raw_node }
        })
}

fn apply_shadow(c: &mut Case, sh: &Shadow) {
    let (k, own, amb) = match sh.slot % 4 {
        0 => (
            KEY_LVL,
            [Val::S(9), Val::I(7), Val::B(true), Val::S(12)][sh.own as usize % 4].clone(),
            [Val::S(5), Val::S(6), Val::S(7), Val::S(8), Val::L(3), Val::L(2), Val::L(0), Val::L(1)][sh.amb as usize % 8].clone(),
        ),
        1 => (
            KEY_KIND,
            [Val::S(12), Val::I(0), Val::S(9), Val::B(false)][sh.own as usize % 4].clone(),
            [Val::S(10), Val::S(11), Val::K(0), Val::K(1)][sh.amb as usize % 4].clone(),
        ),
        2 => (KEY_N, [Val::S(9), Val::S(12)][sh.own as usize % 2].clone(), Val::I(sh.amb as i64)),
        _ => (KEY_FLAG, [Val::S(9), Val::S(12)][sh.own as usize % 2].clone(), Val::B(sh.amb % 2 == 0)),
    };
    // first occurrences on both sides
    c.evt.props.insert(0, (k, own));
    c.ambient.insert(0, (k, amb));
    if c.ctxt == CtxtKind::Empty {
        c.ctxt = CtxtKind::List;
    }
    let leaf = |pred: Pred| match (&pred, sh.raw_node) {
        (Pred::MinLevel { min, default }, true) => FS::MinLevel { min: *min, default: *default },
        (Pred::KindIs(k), true) => FS::KindIs(*k),
        _ => FS::Leaf { id: 0, pred },
    };
    let effective: &mut FS = if c.entry.is_macro() && c.when.is_some() {
        c.when.as_mut().unwrap()
    } else {
        &mut c.filter
    };
    match sh.place {
        1 => {
            let old = std::mem::replace(effective, FS::Empty);
            *effective = FS::And(Box::new(leaf(sh.pred.clone())), Box::new(old));
        }
        2 => {
            let old = std::mem::replace(effective, FS::Empty);
            *effective = FS::Or(Box::new(old), Box::new(leaf(sh.pred.clone())));
        }
        3 => {
            let old = std::mem::replace(&mut c.dest, ES::Empty);
            c.dest = ES::Wrap(Box::new(old), WS::Filter(leaf(sh.pred.clone())));
        }
        _ => {}
    }
}

fn case_s() -> impl Strategy<Value = Case> {
    (base_case_s(), prop::option::weighted(0.3, shadow_s())).prop_map(|(mut c, sh)| {
        if let Some(sh) = sh {
            apply_shadow(&mut c, &sh);
        }
        c
    })
}

fn base_case_s() -> impl Strategy<Value = Case> {
    (
        (ev_s(), props_s(6), prop_oneof![1 => Just(CtxtKind::Empty), 4 => Just(CtxtKind::List), 3 => Just(CtxtKind::ThreadLocal)]),
        prop::option::weighted(0.6, ts_s()),
        fs_s(4, 12),
        prop::option::weighted(0.6, fs_s(3, 8)),
        es_s(),
        entry_s(),
        (any::<bool>(), -1i64..=2, 0u8..5, any::<bool>(), state_s()),
    )
        .prop_map(|((evt, ambient, ctxt), clock, filter, when, dest, entry, (erased_rt, macro_a, macro_b, by_value, state))| Case {
            evt,
            ambient,
            ctxt,
            clock,
            filter,
            when,
            dest,
            entry,
            erased_rt,
            macro_a,
            macro_b,
            by_value,
            state,
        })
}

fn static_case_s() -> impl Strategy<Value = statics::StaticCase> {
    (
        (0u8..statics::SHAPES, ev_s(), props_s(6), prop_oneof![1 => Just(CtxtKind::Empty), 4 => Just(CtxtKind::List), 3 => Just(CtxtKind::ThreadLocal)]),
        prop::option::weighted(0.6, ts_s()),
        [pred_s(), pred_s(), pred_s(), pred_s()],
        [prop::bool::weighted(0.8), prop::bool::weighted(0.8), prop::bool::weighted(0.8)],
        prop::option::weighted(0.6, pred_s()),
        entry_s(),
        (-1i64..=2, 0u8..5, any::<bool>(), state_s()),
        ((key_s(), val_s()), props_s(3), prop::option::weighted(0.6, ts_s()), [via_s(), via_s()]),
    )
        .prop_map(
            |((shape, evt, ambient, ctxt), clock, preds, flushes, when, entry, (macro_a, macro_b, by_value, state), (prepend, nested_ctxt, nested_clock, vias))| {
                statics::StaticCase {
                    shape,
                    evt,
                    ambient,
                    ctxt,
                    clock,
                    preds,
                    flushes,
                    when,
                    entry,
                    macro_a,
                    macro_b,
                    by_value,
                    prepend,
                    nested_ctxt,
                    nested_clock,
                    vias,
                    state,
                }
            },
        )
}

fn main() {
    vcore::run("C01", Level::Exploration, RULE, &ASSUMPTIONS, |s| {
        let n = s.n(200_000, 2_000_000);
        // DESIGN: accepted >=15 %, rejected >=15 %, flips >=3 %, own extent with clock >=10 %,
        // erased >=30 %, nested runtime >=3 % — required at a tenth of those frequencies
        s.require("accepted", n * 15 / 1000);
        s.require("rejected", n * 15 / 1000);
        s.require("verdict-flips-without-ambient", n * 3 / 1000);
        s.require("own-extent-present-with-clock", n * 10 / 1000);
        s.require("erased", n * 30 / 1000);
        s.require("nested-runtime", n * 3 / 1000);
        s.require("call-site-filter", n * 3 / 1000);
        s.require("ctxt:thread-local", n * 3 / 1000);
        // typed-lookup filters (round 6): floors at 1 % of `trees` (measured 18–29 %)
        s.require("typed-filter:min-level", n / 100);
        s.require("typed-filter:kind", n / 100);
        s.require("typed-filter:own-value-does-not-cast/ambient-does", n / 100);
        s.require("typed-filter:own-value-does-not-cast/ambient-does/leaf-sees-props-generically", n / 100);
        // nested emission (strengthening after seeded C01k): a destination / filter leaf that emits into
        // another runtime while it handles an event. Floors at roughly a tenth of the measured frequencies
        // (% of all 260 k quick cases: 2.0–5.8 for the outer x inner matrix, 2.8 depth>=2, 1.6 macro inside
        // a nested macro, 5.3 call-site filter, 6.9 / 8.2 accepted / rejected, 9.7 audit leaf evaluated,
        // 1.2–3.5 per entry point)
        for class in [
            "nested-emit:outer-macro/inner-macro",
            "nested-emit:outer-macro/inner-generic",
            "nested-emit:outer-generic/inner-macro",
            "nested-emit:outer-generic/inner-generic",
            "nested-emit:depth>=2",
            "nested-emit:call-site-filter",
            "nested-emit:accepted",
            "nested-emit:rejected",
            "nested-emit:audit-filter-leaf-evaluated-and-emitted",
            "nested-emit:audit-filter-leaf-emission-delivered",
        ] {
            s.require(class, n * 2 / 1000);
        }
        for class in [
            "nested-emit:depth>=2/macro-inside-nested-macro",
            "nested-via:core-emit",
            "nested-via:runtime-emit",
            "nested-via:runtime-as-emitter",
            "nested-via:macro-evt",
            "nested-via:macro-evt-tpl",
            "nested-via:macro-template",
            "nested-via:level-macro",
        ] {
            s.require(class, n / 1000);
        }
        // thread state of the emission (strengthening after seeded C01l): measured 35 % unwinding, of which
        // 19 % macro / 16 % generic entry, 14 % / 21 % accepted / rejected, 11 % call-site filter, 4.7 % nested
        for class in [
            "thread-state:normal",
            "thread-state:unwinding/macro-entry",
            "thread-state:unwinding/generic-entry",
            "thread-state:unwinding/accepted",
            "thread-state:unwinding/rejected",
            "thread-state:unwinding/call-site-filter",
        ] {
            s.require(class, n / 100);
        }
        s.require("thread-state:unwinding/nested-emission", n * 2 / 1000);
        s.gen("trees", n, case_s, run::check);
        s.gen("static-shapes", s.n(60_000, 600_000), static_case_s, statics::check_static);
    })
}
