//! The C01 driver: builds the real values of a case, pushes the event through the chosen entry point
//! and compares everything the leaves observed with the reference model.

use std::collections::BTreeMap;
use std::sync::LazyLock;
use std::time::Duration;

use emit::clock::ErasedClock;
use emit::ctxt::ErasedCtxt;
use emit::emitter::ErasedEmitter;
use emit::extent::ToExtent;
use emit::filter::ErasedFilter;
use emit::platform::thread_local_ctxt::ThreadLocalCtxt;
use emit::rng::ErasedRng;
use emit::runtime::{AmbientRuntime, AmbientSlot, Runtime};
use emit::template::Part;
use emit::{Clock, Ctxt, Emitter, Empty, Event, Extent, Filter, Frame, Path, Props, Rng, Template};
use vcore::{vassert, Cx, Res};

use crate::model::*;
use crate::spec::*;
use crate::trees::*;

// ---------------------------------------------------------------------------------------------
// the event

pub struct EvData {
    pub mdl: String,
    pub parts: Vec<Part<'static>>,
    pub extent: Option<Extent>,
    pub props: Vec<(&'static str, Val)>,
}

impl EvData {
    pub fn new(s: &EvSpec) -> EvData {
        EvData {
            mdl: s
                .mdl
                .iter()
                .map(|s| SEGS[*s as usize % SEGS.len()])
                .collect::<Vec<_>>()
                .join("::"),
            parts: s
                .tpl
                .iter()
                .map(|p| match p {
                    TplPart::Text(t) => Part::text(TEXTS[*t as usize % TEXTS.len()]),
                    TplPart::Hole(k) => Part::hole(key(*k)),
                })
                .collect(),
            // through the public conversions: a timestamp is a point, a range of timestamps a range
            extent: match &s.extent {
                ExtSpec::None => Empty.to_extent(),
                ExtSpec::Point(ts) => ts.real().to_extent(),
                ExtSpec::Range(a, b) => (a.real()..b.real()).to_extent(),
            },
            props: s.props.iter().map(|(k, v)| (key(*k), v.clone())).collect(),
        }
    }

    pub fn path(&self) -> Path<'_> {
        Path::new_ref(&self.mdl).expect("generated module paths are valid")
    }

    pub fn event(&self) -> Event<'_, &[(&'static str, Val)]> {
        Event::new(
            self.path(),
            Template::new_ref(&self.parts),
            self.extent.clone(),
            &self.props[..],
        )
    }
}

// ---------------------------------------------------------------------------------------------
// entry points

/// The payload of the scripted panic (raised with `resume_unwind`, so no panic hook runs).
struct ScriptedPanic;

struct OnDrop<F: FnMut()>(F);

impl<F: FnMut()> Drop for OnDrop<F> {
    fn drop(&mut self) {
        (self.0)()
    }
}

/// Make the emission in the case's thread state.
fn dispatch<TE: Emitter, TF: Filter, TC: Ctxt, TK: Clock, TR: Rng, TW: Filter>(
    rt: &Runtime<TE, TF, TC, TK, TR>,
    c: &Case,
    ev: &EvData,
    when: Option<&TW>,
) {
    match c.state {
        ThreadState::Normal => dispatch_now(rt, c, ev, when),
        ThreadState::Unwinding => {
            let mut ran_while_panicking = false;
            let r = std::panic::catch_unwind(std::panic::AssertUnwindSafe(|| {
                let _guard = OnDrop(|| {
                    ran_while_panicking = std::thread::panicking();
                    dispatch_now(rt, c, ev, when)
                });
                std::panic::resume_unwind(Box::new(ScriptedPanic));
            }));
            match r {
                Err(p) if p.is::<ScriptedPanic>() => {}
                Err(p) => std::panic::resume_unwind(p),
                Ok(()) => unreachable!("the scripted panic always unwinds"),
            }
            assert!(ran_while_panicking, "harness: the guard did not run during the unwind");
        }
    }
}

fn dispatch_now<TE: Emitter, TF: Filter, TC: Ctxt, TK: Clock, TR: Rng, TW: Filter>(
    rt: &Runtime<TE, TF, TC, TK, TR>,
    c: &Case,
    ev: &EvData,
    when: Option<&TW>,
) {
    match c.entry {
        Entry::Core => {
            if c.by_value {
                emit_core::emit(rt.emitter(), rt.filter(), rt.ctxt(), rt.clock(), ev.event())
            } else {
                emit_core::emit(rt.emitter(), rt.filter(), rt.ctxt(), rt.clock(), &ev.event())
            }
        }
        Entry::RtEmit => {
            if c.by_value {
                rt.emit(ev.event())
            } else {
                rt.emit(&ev.event())
            }
        }
        Entry::RtAsEmitter => {
            if c.by_value {
                Emitter::emit(rt, ev.event())
            } else {
                Emitter::emit(&rt, &&ev.event())
            }
        }
        Entry::MacroEmit(n) => {
            let a: i64 = c.macro_a;
            let b: &'static str = STRS[c.macro_b as usize % STRS.len()];
            let _ = (a, b);
            let mdl = ev.path();
            let ext = ev.extent.clone();
            let base = &ev.props[..];
            // four call sites, each with and without a call-site filter (`when`)
            match (n % SITE_COUNT, when) {
                (0, Some(w)) => emit::emit!(rt: *rt, when: w, mdl: mdl, extent: ext, props: base, "plain"),
                (0, None) => emit::emit!(rt: *rt, mdl: mdl, extent: ext, props: base, "plain"),
                (1, Some(w)) => emit::emit!(rt: *rt, when: w, mdl: mdl, extent: ext, props: base, "x {a} y"),
                (1, None) => emit::emit!(rt: *rt, mdl: mdl, extent: ext, props: base, "x {a} y"),
                (2, Some(w)) => emit::emit!(rt: *rt, when: w, mdl: mdl, extent: ext, props: base, "{a}{b}"),
                (2, None) => emit::emit!(rt: *rt, mdl: mdl, extent: ext, props: base, "{a}{b}"),
                (_, Some(w)) => emit::emit!(rt: *rt, when: w, mdl: mdl, extent: ext, props: base, "t {a}", b),
                (_, None) => emit::emit!(rt: *rt, mdl: mdl, extent: ext, props: base, "t {a}", b),
            }
        }
        Entry::MacroEvt => {
            let evt = ev.event();
            match (when, c.by_value) {
                (Some(w), false) => emit::emit!(rt: *rt, when: w, evt: &evt),
                (Some(w), true) => emit::emit!(rt: *rt, when: w, evt: evt),
                (None, false) => emit::emit!(rt: *rt, evt: &evt),
                (None, true) => emit::emit!(rt: *rt, evt: evt),
            }
        }
        Entry::MacroEvtTpl => {
            let evt = ev.event();
            match when {
                Some(w) => emit::emit!(rt: *rt, when: w, evt: &evt, "override"),
                None => emit::emit!(rt: *rt, evt: &evt, "override"),
            }
        }
    }
}

// ---------------------------------------------------------------------------------------------
// comparison

fn emits_by_leaf(log: &[Rec]) -> BTreeMap<u32, Vec<&Snap>> {
    let mut m: BTreeMap<u32, Vec<&Snap>> = BTreeMap::new();
    for r in log {
        if let Rec::Emit { id, snap } = r {
            m.entry(*id).or_default().push(snap);
        }
    }
    m
}

/// Compare one run's observations with the expectations.
pub fn compare(log: &[Rec], want: &Expect, accepted: bool, what: &str, cx: &mut Cx) -> Res {
    // deliveries: exactly the expected multiset per leaf
    let have = emits_by_leaf(log);
    // a filter leaf that logs its decision owes its audit runtime's destinations one emission per
    // evaluation; how often it is evaluated is don't-care, so the count is the OBSERVED one
    let mut owed;
    let want_emits: &BTreeMap<u32, Vec<MSnap>> = if want.per_eval.is_empty() {
        &want.emits
    } else {
        owed = want.emits.clone();
        for (leaf, per) in &want.per_eval {
            let n = log.iter().filter(|r| matches!(r, Rec::FilterSaw { id, .. } if id == leaf)).count();
            for _ in 0..n {
                for (dest, snaps) in per {
                    owed.entry(*dest).or_default().extend(snaps.iter().cloned());
                }
            }
        }
        &owed
    };
    for (id, got) in &have {
        let exp = want_emits.get(id).map(|v| v.as_slice()).unwrap_or(&[]);
        if exp.is_empty() {
            if accepted {
                cx.fail(
                    format!("{what}/unreachable-leaf-received"),
                    format!("leaf {id} must receive nothing but got {got:?}"),
                )?;
            } else {
                cx.fail(
                    format!("{what}/rejected-but-delivered"),
                    format!("the effective filter rejects the event, yet leaf {id} got {got:?}"),
                )?;
            }
            continue;
        }
        if got.len() > exp.len() {
            cx.fail(
                format!("{what}/delivered-more-than-once"),
                format!("leaf {id}: expected {} deliveries, got {}: {got:?}", exp.len(), got.len()),
            )?;
            continue;
        }
    }
    for (id, exp) in want_emits {
        let got = have.get(id).map(|v| v.as_slice()).unwrap_or(&[]);
        if got.len() < exp.len() {
            cx.fail(
                format!("{what}/accepted-not-delivered"),
                format!("leaf {id}: expected {} deliveries, got {}; expected {exp:?}", exp.len(), got.len()),
            )?;
            continue;
        }
        if got.len() != exp.len() {
            continue; // reported above (only reachable past a known finding)
        }
        // multiset agreement
        let mut left: Vec<&MSnap> = exp.iter().collect();
        for g in got {
            match left.iter().position(|m| m.agrees(g)) {
                Some(p) => {
                    left.remove(p);
                }
                None => {
                    cx.fail(
                        format!("{what}/delivered-event-differs"),
                        format!("leaf {id} received {g:?}\n  expected one of {left:?}"),
                    )?;
                    break;
                }
            }
        }
    }
    // filter leaves: whatever was evaluated saw the model event for its position, and answered by
    // its predicate's logical value on it (how OFTEN it was evaluated is don't-care)
    for r in log {
        match r {
            Rec::FilterSaw { id, snap, verdict } => {
                let allowed = want.filter_may_see.get(id).map(|v| v.as_slice()).unwrap_or(&[]);
                if allowed.is_empty() {
                    cx.fail(
                        format!("{what}/filter-evaluated-unexpectedly"),
                        format!("filter leaf {id} cannot be reached here but saw {snap:?}"),
                    )?;
                    continue;
                }
                let verdicts = &want.filter_verdicts[id];
                let mut seen_ok = false;
                let mut verdict_ok = false;
                for (m, v) in allowed.iter().zip(verdicts) {
                    if m.agrees(snap) {
                        seen_ok = true;
                        if v == verdict {
                            verdict_ok = true;
                        }
                    }
                }
                if !seen_ok {
                    cx.fail(
                        format!("{what}/filter-saw-wrong-event"),
                        format!("filter leaf {id} saw {snap:?}\n  but the event at its position is {allowed:?}"),
                    )?;
                } else if !verdict_ok {
                    cx.fail(
                        format!("{what}/filter-leaf-verdict"),
                        format!("filter leaf {id} answered {verdict} on {snap:?}; its predicate's value there is {verdicts:?}"),
                    )?;
                }
            }
            Rec::Flush { id, .. } => {
                cx.fail(
                    format!("{what}/flushed-while-emitting"),
                    format!("leaf {id} was flushed by an emit"),
                )?;
            }
            Rec::Emit { .. } | Rec::ClockRead { .. } => {}
        }
    }
    Ok(())
}

fn compare_flush(log: &[Rec], result: bool, m: &Model, what: &str, cx: &mut Cx) -> Res {
    vassert!(
        cx,
        result == m.flush_result,
        format!("{what}/flush-result"),
        "blocking_flush returned {result}, the conjunction over reachable leaves is {}",
        m.flush_result
    );
    let mut counts: BTreeMap<u32, usize> = BTreeMap::new();
    for r in log {
        match r {
            Rec::Flush { id, .. } => *counts.entry(*id).or_default() += 1,
            Rec::ClockRead { .. } => {}
            other => cx.fail(format!("{what}/flush-did-something-else"), format!("{other:?}"))?,
        }
    }
    for id in &m.flush_reach {
        let n = counts.remove(id).unwrap_or(0);
        vassert!(
            cx,
            n == 1,
            format!("{what}/flush-reachable-leaf-not-once"),
            "reachable leaf {id} was flushed {n} times"
        );
    }
    vassert!(
        cx,
        counts.is_empty(),
        format!("{what}/flush-unreachable-leaf"),
        "leaves flushed although unreachable: {counts:?}"
    );
    Ok(())
}

// ---------------------------------------------------------------------------------------------
// one case

pub static TL: LazyLock<ThreadLocalCtxt> = LazyLock::new(ThreadLocalCtxt::new);

/// Emit the case's event through its entry point on a runtime of plain generic components.
pub fn run_generic<TF: Filter, TW: Filter, TE: Emitter, C: Ctxt>(
    c: &Case,
    ev: &EvData,
    f: &TF,
    when: Option<&TW>,
    e: &TE,
    ctxt: &C,
    clock: &K,
) -> Vec<Rec> {
    log_take();
    let rt = Runtime::new()
        .with_emitter(e)
        .with_filter(f)
        .with_ctxt(ctxt)
        .with_clock(clock);
    dispatch(&rt, c, ev, when);
    log_take()
}

/// The same on the shape `AmbientSlot::get()` hands out: a runtime of `&dyn Erased* + Send + Sync`
/// references (built locally; the process-global slot is not touched).
pub fn run_erased<TF, TW, TE, C>(c: &Case, ev: &EvData, f: &TF, when: Option<&TW>, e: &TE, ctxt: &C, clock: &K) -> Vec<Rec>
where
    TF: Filter + Send + Sync + 'static,
    TW: Filter,
    TE: Emitter + Send + Sync + 'static,
    C: Ctxt + Send + Sync + 'static,
    C::Frame: Send + 'static,
{
    log_take();
    let rt: AmbientRuntime = Runtime::build(
        e as &(dyn ErasedEmitter + Send + Sync),
        f as &(dyn ErasedFilter + Send + Sync),
        ctxt as &(dyn ErasedCtxt + Send + Sync),
        clock as &(dyn ErasedClock + Send + Sync),
        &Empty as &(dyn ErasedRng + Send + Sync),
    );
    dispatch(&rt, c, ev, when);
    log_take()
}

/// Straight to the destination: no runtime filter, no clock, no ambient context. Returns the log.
pub fn straight<TF: Filter, TE: Emitter, C: Ctxt>(
    c: &Case,
    m: &Model,
    ev: &EvData,
    f: &TF,
    e: &TE,
    ctxt: &C,
    clock: &K,
    what: &str,
    cx: &mut Cx,
) -> Result<Vec<Rec>, vcore::Fail> {
    let rt = Runtime::build(e, f, ctxt, clock, Empty);
    log_take();
    if c.by_value {
        rt.emitter().emit(ev.event());
    } else {
        Emitter::emit(e, &ev.event());
    }
    let d = log_take();
    compare(&d, &m.direct, true, what, cx)?;
    for r in &d {
        match r {
            Rec::ClockRead { tag: 0 } => cx.fail(format!("{what}/read-runtime-clock"), format!("{d:?}"))?,
            Rec::FilterSaw { id, .. } if *id < ID_DEST => {
                cx.fail(format!("{what}/evaluated-runtime-filter"), format!("{d:?}"))?
            }
            _ => {}
        }
    }
    Ok(d)
}

pub fn flushing<TF: Filter, TE: Emitter, C: Ctxt>(
    c: &Case,
    m: &Model,
    f: &TF,
    e: &TE,
    ctxt: &C,
    clock: &K,
    what: &str,
    cx: &mut Cx,
) -> Res {
    let t = Duration::from_millis(800);
    log_take();
    let rt = Runtime::build(e, f, ctxt, clock, Empty);
    let r = if c.by_value {
        rt.emitter().blocking_flush(t)
    } else {
        // <Runtime as Emitter>::blocking_flush
        Emitter::blocking_flush(&rt, t)
    };
    let fl = log_take();
    compare_flush(&fl, r, m, what, cx)
}

fn drive<C>(c: &Case, m: &Model, ctxt: &C, cx: &mut Cx) -> Res
where
    C: Ctxt + Clone + Send + Sync + 'static,
    C::Frame: Send + 'static,
{
    let ev = EvData::new(&c.evt);
    let clock = K::new(0, c.clock);
    let build = |all_erased: bool| {
        let mut tag = 0;
        (
            build_fh(&c.filter, all_erased),
            if c.entry.is_macro() {
                c.when.as_ref().map(|w| build_fh(w, all_erased))
            } else {
                None
            },
            build_eh(&c.dest, all_erased, &mut tag),
        )
    };
    let run = |f: &FH, when: Option<&FH>, e: &EH, erased_rt: bool| -> Vec<Rec> {
        if erased_rt {
            run_erased(c, &ev, f, when, e, ctxt, &clock)
        } else {
            run_generic(c, &ev, f, when, e, ctxt, &clock)
        }
    };

    // 1. through the runtime, tree as generated
    let (f, w, e) = build(false);
    let log1 = run(&f, w.as_ref(), &e, c.erased_rt);
    compare(&log1, &m.main, m.accepted, "emit", cx)?;
    // recorded, never asserted (don't-care): evaluation counts
    let evaluated = |lo: u32, hi: u32| {
        log1.iter()
            .filter(|r| matches!(r, Rec::FilterSaw { id, .. } if (lo..hi).contains(id)))
            .count()
    };
    if m.uses_when {
        cx.class_if(
            evaluated(ID_FILTER, ID_WHEN) > 0,
            "dont-care:runtime-filter-consulted-although-call-site-filter-given",
        );
        cx.class_if(evaluated(ID_WHEN, ID_DEST) == 0, "dont-care:effective-filter-has-no-recording-leaf-evaluated");
    } else {
        cx.class_if(evaluated(ID_FILTER, ID_WHEN) == 0, "dont-care:effective-filter-has-no-recording-leaf-evaluated");
    }
    cx.class_if(evaluated(ID_FILTER, ID_DEST) >= 3, "filter-leaves-evaluated>=3");
    // audit filter leaves that WERE evaluated (observed) and owed their audit runtime an emission
    {
        let mut fired = 0;
        let mut delivered = 0;
        for (leaf, per) in &m.main.per_eval {
            let n = log1.iter().filter(|r| matches!(r, Rec::FilterSaw { id, .. } if id == leaf)).count();
            fired += n;
            delivered += n * per.values().map(|v| v.len()).sum::<usize>();
        }
        cx.class_if(fired > 0, "nested-emit:audit-filter-leaf-evaluated-and-emitted");
        cx.class_if(delivered > 0, "nested-emit:audit-filter-leaf-emission-delivered");
    }

    // 2. the same tree with every node behind `dyn Erased*`: identical observations, in order
    let (f2, w2, e2) = build(true);
    let log2 = run(&f2, w2.as_ref(), &e2, c.erased_rt);
    compare(&log2, &m.main, m.accepted, "emit-erased-tree", cx)?;
    vassert!(
        cx,
        log1 == log2,
        "erased-tree-observably-different",
        "generic tree observed {log1:?}\n  fully erased tree observed {log2:?}"
    );

    // 3. the other runtime flavour (generic <-> `&dyn Erased*` components)
    let log3 = run(&f, w.as_ref(), &e, !c.erased_rt);
    compare(&log3, &m.main, m.accepted, "emit-other-runtime", cx)?;
    vassert!(
        cx,
        log1 == log3,
        "erased-runtime-observably-different",
        "erased_rt={} observed {log1:?}\n  erased_rt={} observed {log3:?}",
        c.erased_rt,
        !c.erased_rt
    );

    // 3b. a real (local, not the process-global) `AmbientSlot`: `init` boxes the components and
    // `get()` hands out the `AmbientRuntime` view; `init`'s return value is the typed view
    {
        let (fs, ws, es) = build(false);
        let slot = AmbientSlot::new();
        let typed = slot.init(Runtime::build(es, fs, ctxt.clone(), K::new(0, c.clock), Empty));
        vassert!(cx, typed.is_some() && slot.is_enabled(), "harness/slot-init", "a fresh slot refused init");
        log_take();
        dispatch(slot.get(), c, &ev, ws.as_ref());
        let log4 = log_take();
        compare(&log4, &m.main, m.accepted, "emit-ambient-slot", cx)?;
        vassert!(
            cx,
            log1 == log4,
            "ambient-slot-observably-different",
            "direct runtime observed {log1:?}\n  AmbientSlot::get() observed {log4:?}"
        );
        dispatch(&typed.unwrap(), c, &ev, ws.as_ref());
        let log5 = log_take();
        vassert!(
            cx,
            log1 == log5,
            "ambient-slot-typed-view-observably-different",
            "direct runtime observed {log1:?}\n  AmbientSlot::init() view observed {log5:?}"
        );
    }

    // 4. straight to the destination
    let d1 = straight(c, m, &ev, &f, &e, ctxt, &clock, "direct", cx)?;
    let d2 = straight(c, m, &ev, &f2, &e2, ctxt, &clock, "direct-erased-tree", cx)?;
    vassert!(
        cx,
        d1 == d2,
        "direct/erased-tree-observably-different",
        "generic {d1:?}\n  erased {d2:?}"
    );

    // 5. flushing
    flushing(c, m, &f, &e, ctxt, &clock, "flush", cx)?;
    flushing(c, m, &f2, &e2, ctxt, &clock, "flush-erased-tree", cx)?;
    Ok(())
}

/// Run `$body` with `$ctxt` bound to a reference to the case's ctxt (three different types).
#[macro_export]
macro_rules! with_ctxt {
    ($c:expr, $cx:ident, $ctxt:ident => $body:expr) => {
        match $c.ctxt {
            CtxtKind::Empty => {
                let $ctxt = &Empty;
                $body
            }
            CtxtKind::List => {
                let list = ListCtxt::new(&$c.ambient);
                let $ctxt = &list;
                $body
            }
            CtxtKind::ThreadLocal => {
                let tl: ThreadLocalCtxt = *$crate::run::TL;
                let amb: Vec<(&'static str, Val)> = dedup_ambient(&$c.ambient)
                    .into_iter()
                    .map(|(k, v)| (key(k), v))
                    .collect();
                // two stacked frames (disjoint keys): a root frame, then a pushed one
                let (lo, hi) = amb.split_at(amb.len() / 2);
                let r: Res = Frame::root(tl, lo).call(|| {
                    Frame::push(tl, hi).call(|| {
                        let $ctxt = &tl;
                        $body
                    })
                });
                let mut left = 0;
                tl.with_current(|p| {
                    let _ = p.for_each(|_, _| {
                        left += 1;
                        std::ops::ControlFlow::Continue(())
                    });
                });
                r?;
                vassert!(
                    $cx,
                    left == 0,
                    "harness/thread-local-ctxt-not-restored",
                    "{left} ambient properties still visible after the frames were exited"
                );
                Ok(())
            }
        }
    };
}

pub fn check(case: &Case, cx: &mut Cx) -> Res {
    let c = case.numbered();
    let m = Model::new(&c);
    classify(&c, &m, cx);
    with_ctxt!(c, cx, ctxt => drive(&c, &m, ctxt, cx))
}

pub fn classify(c: &Case, m: &Model, cx: &mut Cx) {
    cx.class(if m.accepted { "accepted" } else { "rejected" });
    cx.class_if(m.accepted != m.accepted_without_ambient, "verdict-flips-without-ambient");
    cx.class_if(
        !matches!(c.evt.extent, ExtSpec::None) && c.clock.is_some(),
        "own-extent-present-with-clock",
    );
    cx.class_if(matches!(c.evt.extent, ExtSpec::None) && c.clock.is_some(), "extent-from-clock");
    cx.class_if(m.full.extent.is_none(), "no-extent-at-all");
    cx.class_if(
        matches!(&c.evt.extent, ExtSpec::Range(a, b) if a >= b),
        "own-extent-empty-or-inverted-range",
    );
    let erased = c.erased_rt || c.filter.has_erased() || c.dest.has_erased() || (m.uses_when && c.when.as_ref().unwrap().has_erased());
    cx.class_if(erased, "erased");
    cx.class_if(c.erased_rt, "erased-runtime");
    cx.class_if(c.dest.has_nested_rt(), "nested-runtime");
    cx.class_if(c.dest.has_wrap(), "wrap");
    cx.class_if(m.uses_when, "call-site-filter");
    cx.class_if(c.entry.is_macro(), "macro-entry");
    match c.state {
        ThreadState::Normal => cx.class("thread-state:normal"),
        ThreadState::Unwinding => {
            cx.class("thread-state:unwinding");
            cx.class(if c.entry.is_macro() { "thread-state:unwinding/macro-entry" } else { "thread-state:unwinding/generic-entry" });
            cx.class(if m.accepted { "thread-state:unwinding/accepted" } else { "thread-state:unwinding/rejected" });
            cx.class_if(m.uses_when, "thread-state:unwinding/call-site-filter");
            cx.class_if(m.main.nested.iter().any(|n| !n.from_filter), "thread-state:unwinding/nested-emission");
        }
    }
    cx.class(match c.entry {
        Entry::Core => "entry:core-emit",
        Entry::RtEmit => "entry:runtime-emit",
        Entry::RtAsEmitter => "entry:runtime-as-emitter",
        Entry::MacroEmit(_) => "entry:macro-emit",
        Entry::MacroEvt => "entry:macro-evt",
        Entry::MacroEvtTpl => "entry:macro-evt-tpl",
    });
    cx.class(match c.ctxt {
        CtxtKind::Empty => "ctxt:empty",
        CtxtKind::List => "ctxt:list",
        CtxtKind::ThreadLocal => "ctxt:thread-local",
    });
    let dup = {
        let ks: Vec<&str> = m.full.props.iter().map(|p| p.k).collect();
        ks.iter().enumerate().any(|(i, k)| ks[..i].contains(k))
    };
    cx.class_if(dup, "duplicate-key");
    cx.class_if(!m.ambient.is_empty(), "ambient-nonempty");
    let delivered: usize = m.main.emits.values().map(|v| v.len()).sum();
    cx.class_if(m.accepted && delivered == 0, "accepted-but-no-reachable-leaf");
    cx.class_if(delivered >= 2, "delivered-to-2+-leaves");
    // typed-lookup filters (min level / kind / harness pull leaf) in the effective filter
    {
        let eff = if m.uses_when { c.when.as_ref().unwrap() } else { &c.filter };
        let (mut min, mut kind, mut pull, mut shadow, mut shadow_generic) = (false, false, false, false, false);
        eff.visit_preds(true, false, &mut |p, generic| {
            if let Some(slot) = p.typed_slot() {
                match p {
                    Pred::MinLevel { .. } => min = true,
                    Pred::KindIs(_) => kind = true,
                    _ => pull = true,
                }
                if m.own_blocks_ambient[slot] {
                    shadow = true;
                    shadow_generic |= generic;
                }
            }
        });
        cx.class_if(min, "typed-filter:min-level");
        cx.class_if(kind, "typed-filter:kind");
        cx.class_if(pull, "typed-filter:pull");
        cx.class_if(shadow, "typed-filter:own-value-does-not-cast/ambient-does");
        cx.class_if(shadow_generic, "typed-filter:own-value-does-not-cast/ambient-does/leaf-sees-props-generically");
        cx.class_if(
            m.own_blocks_ambient.iter().any(|b| *b),
            "typed-lookup:own-value-does-not-cast/ambient-does",
        );
        cx.class_if(
            m.full.typed().iter().any(|t| t.is_some()),
            "typed-lookup:some-typed-key-casts",
        );
    }
    // nested emissions (a leaf that emits into another runtime while it handles an event) the model
    // came across in the run through the runtime: those of destination leaves are certain to happen,
    // those of filter leaves happen when the leaf is evaluated (don't-care)
    for n in &m.main.nested {
        let certain = !n.from_filter;
        cx.class(if certain { "nested-emit:from-destination-leaf" } else { "nested-emit:from-filter-leaf(if-evaluated)" });
        if !certain {
            continue;
        }
        cx.class(n.via.class());
        cx.class(match (n.around[0], n.via.is_macro()) {
            (true, true) => "nested-emit:outer-macro/inner-macro",
            (true, false) => "nested-emit:outer-macro/inner-generic",
            (false, true) => "nested-emit:outer-generic/inner-macro",
            (false, false) => "nested-emit:outer-generic/inner-generic",
        });
        cx.class_if(n.via.is_macro() && n.around.iter().any(|m| *m), "nested-emit:macro-while-a-macro-emission-is-in-flight");
        cx.class_if(n.depth >= 2, "nested-emit:depth>=2");
        cx.class_if(n.depth >= 2 && n.via.is_macro() && n.around[1..].iter().any(|m| *m), "nested-emit:depth>=2/macro-inside-nested-macro");
        cx.class_if(n.uses_when, "nested-emit:call-site-filter");
        cx.class(if n.accepted { "nested-emit:accepted" } else { "nested-emit:rejected" });
    }
    cx.class_if(c.filter.nodes() >= 5, "filter-tree>=5-nodes");
    cx.class_if(c.dest.nodes() >= 5, "dest-tree>=5-nodes");
    cx.class_if(c.dest.nodes() >= 9, "dest-tree>=9-nodes");
    let effective = if m.uses_when { c.when.as_ref().unwrap() } else { &c.filter };
    // the stated rule
    cx.nontrivial(effective.composites() >= 1 && c.dest.composites() >= 1 && (!m.ambient.is_empty() || dup || m.uses_when));
    // short-circuit evaluation counts are recorded, never asserted
    cx.dont_care();
}
